#!/bin/bash
# setup_cmd: offline sanity of the framework: interpreter, tree under test importable from /repo,
# reference-model self-tests (known-answer vectors).  Builds nothing that needs the network.
set -e
cd "$(dirname "$0")"
export PYTHONDONTWRITEBYTECODE=1 SPSDK_DEBUG_LOGGING_DISABLED=1
mkdir -p .work evidence
REPO="${VERIF_REPO:-/repo}"
SPSDK_CACHE_FOLDER="$PWD/.work/setup-cache" PYTHONPATH="$REPO:$PWD" /venv/bin/python - <<PY
import os, sys
import spsdk
assert os.path.abspath(spsdk.__file__).startswith(os.path.abspath("$REPO") + os.sep), spsdk.__file__
from vf.refs import selftest
print("reference self-tests:", selftest.run_all())
PY
rm -rf .work/setup-cache
echo "setup ok"
