#!/bin/bash
# tools/r2.sh <ID> "<tests>" : confirm the three round-2 seeded changes of a property and run its quick check against them
cd /verif
ID=$1; TESTS=$2
for k in 1 2 3; do python3 tools/confirm_seeded.py $ID $k --round 2 --tests "$TESTS"; done
names=""; for k in 1 2 3; do [ -d seeded/$ID-r2m$k ] && names="$names $ID-r2m$k"; done
[ -n "$names" ] && python3 tools/run_seeded.py $names
