#!/usr/bin/env python3
"""Runs every claimed check (tools/run_all.py [--tier quick|thorough] [--seeds 0,1,2] [ids...]) and prints one line per run."""
import argparse, json, os, subprocess, sys, time
ROOT = os.path.dirname(os.path.dirname(os.path.abspath(__file__)))
ap = argparse.ArgumentParser(); ap.add_argument("ids", nargs="*"); ap.add_argument("--tier", default="quick"); ap.add_argument("--seeds", default="0")
a = ap.parse_args()
ids = a.ids or json.load(open(os.path.join(ROOT, "vf", "ready.json")))
bad = 0
for seed in a.seeds.split(","):
    for pid in ids:
        t0 = time.time()
        r = subprocess.run([os.path.join(ROOT, "check"), pid, "--tier", a.tier], env=dict(os.environ, VERIF_SEED=seed), capture_output=True, text=True, cwd=ROOT)
        summ = [l for l in r.stdout.splitlines() if l.startswith(pid + " tier=")]
        print(f"seed={seed} {pid} rc={r.returncode} {time.time()-t0:.0f}s :: {summ[-1] if summ else r.stdout[-200:]}", flush=True)
        if r.returncode != 0:
            bad += 1
            for l in r.stdout.splitlines():
                if l.startswith(("VIOLATION", "INCONCLUSIVE", "  mechanism")):
                    print("    " + l[:300], flush=True)
print("non-zero exits:", bad)
sys.exit(1 if bad else 0)
