#!/usr/bin/env python3
"""Regenerates the machine-made tables of DESIGN.md (between the AUTO markers) from known_findings.json,
seeded/*/meta.json and seeded/results-*.json."""
import json
import os
import re
import subprocess

ROOT = os.path.dirname(os.path.dirname(os.path.abspath(__file__)))


def fixed_table():
    kf = json.load(open(os.path.join(ROOT, "known_findings.json")))
    rows = ["| prop | fix commit in /repo | what failed (mechanism keys of the check that re-found it) |", "|---|---|---|"]
    for e in kf["fixed"]:
        m = re.match(r"fixed: property=(\S+) (\S+) (.*)", e)
        prop, commit, what = m.groups()
        subj = subprocess.run(["git", "-C", "/repo", "log", "--format=%s", "-1", commit], capture_output=True, text=True).stdout.strip()
        rows.append(f"| {prop} | `{commit}` {subj} | {what} |")
    rows.append("")
    rows.append("| prop | known finding (key) | what fails, why it is recorded and not repaired |")
    rows.append("|---|---|---|")
    for f in kf["findings"]:
        rows.append(f"| {f['property']} | `{f['key']}` | {f['what']} |")
    return "\n".join(rows)


def seeded_table():
    sdir = os.path.join(ROOT, "seeded")
    res = {}
    for tier in ("quick", "thorough"):
        p = os.path.join(sdir, f"results-{tier}.json")
        if os.path.exists(p):
            res[tier] = json.load(open(p))
    rows = ["| seeded change | breaks | what it needs to manifest | quick check | mechanism keys that fired |", "|---|---|---|---|---|"]
    caught = total = 0
    for name in sorted(os.listdir(sdir)):
        mp = os.path.join(sdir, name, "meta.json")
        if not os.path.exists(mp):
            continue
        meta = json.load(open(mp))
        pid = meta["property"]
        total += 1
        r = res.get("quick", {}).get(name, {}).get(pid)
        rt = res.get("thorough", {}).get(name, {}).get(pid)
        if r is None:
            verdict, mechs = "not run yet", ""
        else:
            ok = r["rc"] == 1 and r["violations"] > 0
            verdict = "caught" if ok else ("inconclusive" if r["rc"] == 2 else "MISSED")
            if not ok and rt is not None and rt["rc"] == 1 and rt["violations"] > 0:
                verdict += " (thorough: caught)"
                r = rt
            caught += 1 if "caught" in verdict else 0
            mechs = ", ".join(f"`{m}`" for m in r.get("mechanisms", [])[:3])
        needs = (meta.get("needs_to_manifest") or "").replace("\n", " ").replace("|", "/")
        title = (meta.get("title") or "").replace("|", "/")
        rows.append(f"| `{name}` {title[:110]} | {pid} | {needs[:230]} | {verdict} | {mechs} |")
    rows.append("")
    rows.append(f"Seeded changes kept: {total}; caught by the check of the property they break: {caught}.")
    return "\n".join(rows)


def main():
    p = os.path.join(ROOT, "DESIGN.md")
    s = open(p, encoding="utf-8").read()
    for tag, fn in (("FIXED", fixed_table), ("SEEDED", seeded_table)):
        a, b = f"<!-- AUTO:{tag}:BEGIN -->", f"<!-- AUTO:{tag}:END -->"
        if a in s and b in s:
            i, j = s.index(a) + len(a), s.index(b)
            s = s[:i] + "\n" + fn() + "\n" + s[j:]
    open(p, "w", encoding="utf-8").write(s)
    print("DESIGN.md tables regenerated")


if __name__ == "__main__":
    main()
