#!/venv/bin/python
"""Generates the committed HAB PKI trees under fixtures/hab (run once; the output is committed).

Recipe = DESIGN.md Appendix A "Own PKI recipe", laid out like the tree the NXP code-signing tool
creates (``crts/`` and ``keys/`` side by side, ``..._crt.pem`` <-> ``..._key.pem``) so that SPSDK's
"derive the private key path from the certificate path" fallback is exercised too:

  <set>/crts/SRK{1..4}_ca_crt.pem     self-signed CA certificates (BasicConstraints CA, KeyUsage keyCertSign)
  <set>/crts/CSF{i}_1_usr_crt.pem     CSF leaf issued by SRK{i}
  <set>/crts/IMG{i}_1_usr_crt.pem     IMG leaf issued by SRK{i}
  <set>/crts/SRK{i}_usr_crt.pem       (sets rsa2048 and p256 only) self-signed NON-CA certificates with their
                                      own keys: super root keys for fast authentication (Install NOCAK)
  <set>/keys/<same name>_key.pem      PKCS#8 private keys, unencrypted

Sets: rsa2048 (all 2048 bit), rsa4096 (SRK 4096 bit, leaves 3072 bit), p256, p384, p521.
``index.json`` lists the raw public numbers (cross-checked by the self-test against what the ASN.1
reader of vf/refs/cms.py extracts).

``cms_vectors/``: detached CMS SignedData blobs made by the **OpenSSL command line tool** (ground truth
for vf/refs/cms.py that neither SPSDK nor this repository's Python code produced) over ``content.bin``.

Uses `cryptography` (third party, not SPSDK) and, for the vectors, the `openssl` binary.
"""
import datetime
import json
import os
import shutil
import subprocess
import sys

from cryptography import x509
from cryptography.hazmat.primitives import hashes, serialization
from cryptography.hazmat.primitives.asymmetric import ec, rsa
from cryptography.x509.oid import NameOID

ROOT = os.path.dirname(os.path.dirname(os.path.abspath(__file__)))
OUT = os.path.join(ROOT, "fixtures", "hab")

SETS = {
    # name: (SRK key kind, leaf key kind, with non-CA "usr" SRKs)
    "rsa2048": ("rsa2048", "rsa2048", True),
    "rsa4096": ("rsa4096", "rsa3072", False),
    "p256": ("p256", "p256", True),
    "p384": ("p384", "p384", False),
    "p521": ("p521", "p521", False),
}
CURVES = {"p256": ec.SECP256R1(), "p384": ec.SECP384R1(), "p521": ec.SECP521R1()}
NOT_BEFORE = datetime.datetime(2024, 1, 1)
NOT_AFTER = datetime.datetime(2044, 1, 1)


def gen(kind):
    if kind.startswith("rsa"):
        return rsa.generate_private_key(public_exponent=65537, key_size=int(kind[3:]))
    return ec.generate_private_key(CURVES[kind])


def name_of(cn):
    return x509.Name([x509.NameAttribute(NameOID.COMMON_NAME, cn)])


def key_usage(ca):
    return x509.KeyUsage(digital_signature=not ca, content_commitment=False, key_encipherment=False, data_encipherment=False,
                         key_agreement=False, key_cert_sign=ca, crl_sign=ca, encipher_only=False, decipher_only=False)


def make_cert(subject_cn, subject_pub, issuer_cn, issuer_key, ca, serial):
    b = (
        x509.CertificateBuilder()
        .subject_name(name_of(subject_cn))
        .issuer_name(name_of(issuer_cn))
        .public_key(subject_pub)
        .serial_number(serial)
        .not_valid_before(NOT_BEFORE)
        .not_valid_after(NOT_AFTER)
        .add_extension(x509.BasicConstraints(ca=ca, path_length=None), critical=True)
        .add_extension(key_usage(ca), critical=True)
    )
    return b.sign(issuer_key, hashes.SHA256())


def pub_numbers(key):
    pn = key.public_key().public_numbers()
    if isinstance(key, rsa.RSAPrivateKey):
        return {"type": "rsa", "bits": key.key_size, "n": hex(pn.n), "e": pn.e}
    return {"type": "ecc", "curve": {256: "p256", 384: "p384", 521: "p521"}[key.curve.key_size], "x": hex(pn.x), "y": hex(pn.y)}


def write(path, data):
    os.makedirs(os.path.dirname(path), exist_ok=True)
    with open(path, "wb") as f:
        f.write(data)


def save(set_dir, stem, key, cert):
    write(os.path.join(set_dir, "keys", stem + "_key.pem"),
          key.private_bytes(serialization.Encoding.PEM, serialization.PrivateFormat.PKCS8, serialization.NoEncryption()))
    write(os.path.join(set_dir, "crts", stem + "_crt.pem"), cert.public_bytes(serialization.Encoding.PEM))


def main():
    if os.path.exists(os.path.join(OUT, "index.json")) and "--force" not in sys.argv:
        print("fixtures/hab already exists; pass --force to regenerate (all keys change)")
        return 0
    shutil.rmtree(OUT, ignore_errors=True)
    index = {"sets": {}}
    serial = 0x48414200
    for set_name, (srk_kind, leaf_kind, with_usr) in SETS.items():
        d = os.path.join(OUT, set_name)
        entry = {"srk_kind": srk_kind, "leaf_kind": leaf_kind, "certs": {}}
        for i in range(1, 5):
            srk = gen(srk_kind)
            cn = f"SRK{i}_{set_name}_ca"
            serial += 1
            crt = make_cert(cn, srk.public_key(), cn, srk, True, serial)
            save(d, f"SRK{i}_ca", srk, crt)
            entry["certs"][f"SRK{i}_ca"] = dict(pub_numbers(srk), serial=serial, ca=True, issuer=f"SRK{i}_ca")
            for role in ("CSF", "IMG"):
                leaf = gen(leaf_kind)
                serial += 1
                lc = make_cert(f"{role}{i}_1_{set_name}_usr", leaf.public_key(), cn, srk, False, serial)
                save(d, f"{role}{i}_1_usr", leaf, lc)
                entry["certs"][f"{role}{i}_1_usr"] = dict(pub_numbers(leaf), serial=serial, ca=False, issuer=f"SRK{i}_ca")
            if with_usr:
                usr = gen(srk_kind)
                ucn = f"SRK{i}_{set_name}_usr"
                serial += 1
                uc = make_cert(ucn, usr.public_key(), ucn, usr, False, serial)
                save(d, f"SRK{i}_usr", usr, uc)
                entry["certs"][f"SRK{i}_usr"] = dict(pub_numbers(usr), serial=serial, ca=False, issuer=f"SRK{i}_usr")
        index["sets"][set_name] = entry

    # ---- OpenSSL-made CMS vectors (ground truth for the verifier) -----------------------------------
    vec_dir = os.path.join(OUT, "cms_vectors")
    os.makedirs(vec_dir, exist_ok=True)
    content = bytes((i * 7 + 3) & 0xFF for i in range(1000))
    write(os.path.join(vec_dir, "content.bin"), content)
    vectors = []
    openssl = shutil.which("openssl")
    if not openssl:
        print("WARNING: no openssl binary - cms_vectors not generated")
    else:
        ver = subprocess.run([openssl, "version"], capture_output=True, text=True, check=True).stdout.strip()
        for set_name in SETS:
            d = os.path.join(OUT, set_name)
            for stem in ("CSF1_1_usr", "IMG3_1_usr"):
                out = os.path.join(vec_dir, f"{set_name}_{stem}.cms.der")
                subprocess.run(
                    [openssl, "cms", "-sign", "-binary", "-in", os.path.join(vec_dir, "content.bin"), "-signer",
                     os.path.join(d, "crts", stem + "_crt.pem"), "-inkey", os.path.join(d, "keys", stem + "_key.pem"),
                     "-outform", "DER", "-nocerts", "-nosmimecap", "-md", "sha256", "-out", out],
                    check=True, capture_output=True)
                # OpenSSL checks its own output against the issuing SRK
                subprocess.run(
                    [openssl, "cms", "-verify", "-binary", "-inform", "DER", "-in", out, "-content", os.path.join(vec_dir, "content.bin"),
                     "-certfile", os.path.join(d, "crts", stem + "_crt.pem"), "-CAfile", os.path.join(d, "crts", f"SRK{stem[3]}_ca_crt.pem"),
                     "-purpose", "any", "-out", os.devnull],
                    check=True, capture_output=True)
                vectors.append({"file": os.path.basename(out), "set": set_name, "signer": stem})
        index["cms_vectors"] = {"made_by": ver, "content": "content.bin", "vectors": vectors}
    with open(os.path.join(OUT, "index.json"), "w", encoding="utf-8") as f:
        json.dump(index, f, indent=1, sort_keys=True)
    total = sum(os.path.getsize(os.path.join(r, x)) for r, _, fs in os.walk(OUT) for x in fs)
    print("written", sum(len(fs) for _, _, fs in os.walk(OUT)), "files,", total, "bytes to", OUT)
    return 0


if __name__ == "__main__":
    sys.exit(main())
