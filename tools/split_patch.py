#!/usr/bin/env python3
"""split_patch.py <patch> : prints hunks with indices;  split_patch.py <patch> <i,j,...> : emits a patch with only these hunks (global indices)."""
import re, sys
txt = open(sys.argv[1]).read().splitlines(keepends=True)
files = []  # (header_lines, [hunk_lines...])
cur = None
i = 0
while i < len(txt):
    l = txt[i]
    if l.startswith("--- ") and i + 1 < len(txt) and txt[i + 1].startswith("+++ "):
        cur = ([l, txt[i + 1]], [])
        files.append(cur)
        i += 2
        continue
    if l.startswith("@@") and cur is not None:
        h = [l]
        i += 1
        while i < len(txt) and not txt[i].startswith("@@") and not (txt[i].startswith("--- ") and i + 1 < len(txt) and txt[i + 1].startswith("+++ ")) and not txt[i].startswith("diff "):
            h.append(txt[i]); i += 1
        cur[1].append(h)
        continue
    i += 1
idx = 0
if len(sys.argv) == 2:
    for hdr, hunks in files:
        for h in hunks:
            first = next((x.strip() for x in h[1:] if x.startswith(("+", "-"))), "")
            print(idx, hdr[1].split()[1], h[0].strip(), "|", first[:90]); idx += 1
else:
    want = {int(x) for x in sys.argv[2].split(",")}
    out = []
    for hdr, hunks in files:
        sel = []
        for h in hunks:
            if idx in want:
                sel.append(h)
            idx += 1
        if sel:
            out += hdr
            for h in sel:
                out += h
    sys.stdout.write("".join(out))
