#!/usr/bin/env python3
"""Run checks against the seeded property-breaking changes kept under /verif/seeded/<name>/.

For each seeded change: make a scratch worktree of /repo's HEAD outside /repo and /verif, apply patch.diff,
run the quick (or thorough) check of the property it breaks with VERIF_REPO pointing at the scratch tree,
record whether a VIOLATION line was printed, remove the worktree.  /repo itself is never modified.

usage: tools/run_seeded.py [--tier quick|thorough] [--also C16,C12] [name ...]
"""
import argparse
import json
import os
import shutil
import subprocess
import sys
import time

ROOT = os.path.dirname(os.path.dirname(os.path.abspath(__file__)))
SEEDED = os.path.join(ROOT, "seeded")
SCRATCH = "/tmp/seedrun"


def sh(cmd, **kw):
    return subprocess.run(cmd, shell=True, capture_output=True, text=True, **kw)


def main():
    ap = argparse.ArgumentParser()
    ap.add_argument("names", nargs="*")
    ap.add_argument("--tier", default="quick")
    ap.add_argument("--also", default="", help="comma separated extra property ids to run on every change")
    ap.add_argument("--seed", default="0")
    args = ap.parse_args()
    names = args.names or sorted(d for d in os.listdir(SEEDED) if os.path.isdir(os.path.join(SEEDED, d)) and not d.startswith("_"))
    results = {}
    os.makedirs(SCRATCH, exist_ok=True)
    for name in names:
        d = os.path.join(SEEDED, name)
        meta = json.load(open(os.path.join(d, "meta.json"), encoding="utf-8"))
        props = [meta["property"]] + [p for p in args.also.split(",") if p]
        wt = os.path.join(SCRATCH, name)
        sh(f"git -C /repo worktree remove --force {wt}")
        shutil.rmtree(wt, ignore_errors=True)
        r = sh(f"git -C /repo worktree add -q --detach {wt} HEAD")
        if r.returncode:
            print(name, "worktree failed", r.stderr)
            continue
        shutil.copy("/repo/spsdk/__version__.py", os.path.join(wt, "spsdk", "__version__.py"))
        try:
            r = sh(f"git -C {wt} apply --whitespace=nowarn {os.path.join(d, 'patch.diff')}")
            if r.returncode:
                r = sh(f"git -C {wt} apply --3way --whitespace=nowarn {os.path.join(d, 'patch.diff')}")
            if r.returncode:
                results[name] = {"applied": False, "err": r.stderr[-300:]}
                print(f"{name}: PATCH DOES NOT APPLY: {r.stderr[-200:]}")
                continue
            for pid in props:
                t0 = time.time()
                env = dict(os.environ, VERIF_REPO=wt, VERIF_SEED=args.seed)
                r = subprocess.run([os.path.join(ROOT, "check"), pid, "--tier", args.tier], env=env, capture_output=True, text=True, cwd=ROOT)
                viol = [ln for ln in r.stdout.splitlines() if ln.startswith("VIOLATION")]
                mechs = sorted({ln.split("mechanism=")[1].split(" ")[0] for ln in r.stdout.splitlines() if "mechanism=" in ln})
                results.setdefault(name, {})[pid] = {"rc": r.returncode, "violations": len(viol), "mechanisms": mechs[:8], "s": round(time.time() - t0, 1)}
                verdict = "CAUGHT" if (r.returncode == 1 and viol) else ("INCONCLUSIVE" if r.returncode == 2 else "MISSED")
                print(f"{name}: {pid} {args.tier}: {verdict} rc={r.returncode} mech={mechs[:4]} {time.time() - t0:.0f}s", flush=True)
                if verdict != "CAUGHT":
                    print("   " + "\n   ".join(r.stdout.splitlines()[-4:]))
        finally:
            sh(f"git -C /repo worktree remove --force {wt}")
            shutil.rmtree(wt, ignore_errors=True)
    sh("git -C /repo worktree prune")
    out = os.path.join(ROOT, "seeded", f"results-{args.tier}.json")
    prev = {}
    if os.path.exists(out):
        prev = json.load(open(out, encoding="utf-8"))
    prev.update(results)
    json.dump(prev, open(out, "w", encoding="utf-8"), indent=1, sort_keys=True)
    return 0


if __name__ == "__main__":
    sys.exit(main())
