#!/venv/bin/python
"""Generates the committed key / certificate pool under fixtures/pki (run once; output is committed).

Uses `cryptography` (third party, not SPSDK).  Everything is written in standard encodings, and the raw
numbers go to index.json so that reference models never need a PEM/DER parser.
"""
import datetime
import json
import os
import sys

from cryptography import x509
from cryptography.hazmat.primitives import hashes, serialization
from cryptography.hazmat.primitives.asymmetric import ec, rsa
from cryptography.x509.oid import NameOID

ROOT = os.path.dirname(os.path.dirname(os.path.abspath(__file__)))
OUT = os.path.join(ROOT, "fixtures", "pki")
os.makedirs(OUT, exist_ok=True)

SPEC = {"rsa2048": 6, "rsa3072": 4, "rsa4096": 4, "p256": 6, "p384": 6, "p521": 4}
CURVES = {"p256": ec.SECP256R1(), "p384": ec.SECP384R1(), "p521": ec.SECP521R1()}
NOT_BEFORE = datetime.datetime(2024, 1, 1)
NOT_AFTER = datetime.datetime(2044, 1, 1)


def gen(kind):
    if kind.startswith("rsa"):
        return rsa.generate_private_key(public_exponent=65537, key_size=int(kind[3:]))
    return ec.generate_private_key(CURVES[kind])


def name_of(cn):
    return x509.Name([x509.NameAttribute(NameOID.COMMON_NAME, cn), x509.NameAttribute(NameOID.ORGANIZATION_NAME, "verif-pool")])


def hash_for(key):
    if isinstance(key, rsa.RSAPrivateKey):
        return hashes.SHA256()
    return {256: hashes.SHA256(), 384: hashes.SHA384(), 521: hashes.SHA512()}[key.curve.key_size]


def make_cert(subject_cn, subject_pub, issuer_cn, issuer_key, ca, serial, path_len=None):
    b = (
        x509.CertificateBuilder()
        .subject_name(name_of(subject_cn))
        .issuer_name(name_of(issuer_cn))
        .public_key(subject_pub)
        .serial_number(serial)
        .not_valid_before(NOT_BEFORE)
        .not_valid_after(NOT_AFTER)
        .add_extension(x509.BasicConstraints(ca=ca, path_length=path_len if ca else None), critical=True)
    )
    return b.sign(issuer_key, hash_for(issuer_key))


def write(path, data):
    with open(os.path.join(OUT, path), "wb") as f:
        f.write(data)


def main():
    index = {"keys": {}, "chains": {}}
    keys = {}
    serial = 0x1000
    # the last two keys of every ECC kind are EDGE keys: X resp. Y has a leading zero byte (fixed-width encodings and
    # hashes over X || Y must keep the zero byte; found by rejection sampling, ~1 in 256 keys)
    EDGE = {"p256": 2, "p384": 2, "p521": 2}
    for kind, cnt in SPEC.items():
        for i in range(cnt + EDGE.get(kind, 0)):
            name = f"{kind}_{i}"
            ppath = os.path.join(OUT, name + ".pem")
            if os.path.exists(ppath):
                key = serialization.load_pem_private_key(open(ppath, "rb").read(), None)
            elif i >= cnt:
                size = {"p256": 32, "p384": 48, "p521": 66}[kind]
                limit = 1 << (8 * (size - 1) if kind != "p521" else 512)
                while True:
                    key = gen(kind)
                    pn = key.public_key().public_numbers()
                    if (pn.x if i == cnt else pn.y) < limit:
                        break
            else:
                key = gen(kind)
            keys[name] = key
            write(name + ".pem", key.private_bytes(serialization.Encoding.PEM, serialization.PrivateFormat.PKCS8, serialization.NoEncryption()))
            write(name + ".der", key.private_bytes(serialization.Encoding.DER, serialization.PrivateFormat.PKCS8, serialization.NoEncryption()))
            pub = key.public_key()
            write(name + ".pub.pem", pub.public_bytes(serialization.Encoding.PEM, serialization.PublicFormat.SubjectPublicKeyInfo))
            write(name + ".pub.der", pub.public_bytes(serialization.Encoding.DER, serialization.PublicFormat.SubjectPublicKeyInfo))
            serial += 1
            crt = make_cert(name, pub, name, key, True, serial)
            write(name + ".crt.pem", crt.public_bytes(serialization.Encoding.PEM))
            write(name + ".crt.der", crt.public_bytes(serialization.Encoding.DER))
            serial += 1
            crt2 = make_cert(name + "-leaf", pub, name + "-leaf", key, False, serial)  # self-signed NON-CA certificate
            write(name + ".nonca.crt.pem", crt2.public_bytes(serialization.Encoding.PEM))
            write(name + ".nonca.crt.der", crt2.public_bytes(serialization.Encoding.DER))
            if kind.startswith("rsa"):
                pn = key.private_numbers()
                index["keys"][name] = {"kind": kind, "type": "rsa", "bits": int(kind[3:]), "n": hex(pn.public_numbers.n), "e": pn.public_numbers.e, "d": hex(pn.d)}
            else:
                pn = key.private_numbers()
                index["keys"][name] = {"kind": kind, "type": "ecc", "curve": kind, "x": hex(pn.public_numbers.x), "y": hex(pn.public_numbers.y), "d": hex(pn.private_value)}
    # certificate chains for certificate block v1 (RSA only): root -> [mid ->] leaf, all keys from the pool
    for kind in ("rsa2048", "rsa3072", "rsa4096"):
        n = SPEC[kind]
        for r in range(min(4, n)):
            root = f"{kind}_{r}"
            leaf = f"{kind}_{(r + 1) % n}"
            mid = f"{kind}_{(r + 2) % n}"
            # depth 2: root -> leaf
            serial += 1
            c_leaf = make_cert(f"{root}>leaf:{leaf}", keys[leaf].public_key(), root, keys[root], False, serial)
            nm2 = f"chain2_{root}__{leaf}.crt.der"
            write(nm2, c_leaf.public_bytes(serialization.Encoding.DER))
            index["chains"][f"{root}/2"] = {"certs": [root + ".crt.der", nm2], "keys": [root, leaf]}
            # depth 3: root -> mid (CA) -> leaf
            serial += 1
            c_mid = make_cert(f"{root}>mid:{mid}", keys[mid].public_key(), root, keys[root], True, serial)
            serial += 1
            c_leaf3 = make_cert(f"{root}>{mid}>leaf:{leaf}", keys[leaf].public_key(), f"{root}>mid:{mid}", keys[mid], False, serial)
            nm3a = f"chain3_{root}__{mid}.crt.der"
            nm3b = f"chain3_{root}__{mid}__{leaf}.crt.der"
            write(nm3a, c_mid.public_bytes(serialization.Encoding.DER))
            write(nm3b, c_leaf3.public_bytes(serialization.Encoding.DER))
            index["chains"][f"{root}/3"] = {"certs": [root + ".crt.der", nm3a, nm3b], "keys": [root, mid, leaf]}
    with open(os.path.join(OUT, "index.json"), "w", encoding="utf-8") as f:
        json.dump(index, f, indent=1, sort_keys=True)
    print("written", len(os.listdir(OUT)), "files to", OUT)


if __name__ == "__main__":
    sys.exit(main())
