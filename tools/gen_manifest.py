#!/usr/bin/env python3
"""Regenerates MANIFEST.json from the property modules that exist (keeps it valid at all times)."""
import importlib
import json
import os
import sys

ROOT = os.path.dirname(os.path.dirname(os.path.abspath(__file__)))
sys.path.insert(0, ROOT)

BASELINE = ("cd /repo && /venv/bin/python -m pytest -ra -q -p no:cacheprovider --timeout=900 "
            "--continue-on-collection-errors")

ENGINES = {
    "mbi": ["C01", "C02"], "certrot": ["C03", "C15"], "sb2": ["C04"], "sb31": ["C05"], "ahab": ["C06"],
    "hab": ["C07"], "crypto": ["C08", "C09"], "proto": ["C10"], "regs": ["C11", "C12"], "flashenc": ["C13"],
    "bimg": ["C14"], "binimage": ["C16"], "fresh": ["C17"], "dbcache": ["C18"], "bd": ["C19"], "misc": ["C20"],
}


def main():
    props = [json.loads(line) for line in open(os.path.join(ROOT, "properties.jsonl"), encoding="utf-8")]
    checks, na = [], []
    ready = set(json.load(open(os.path.join(ROOT, "vf", "ready.json"), encoding="utf-8")))
    for p in props:
        pid = p["id"]
        try:
            mod = importlib.import_module(f"vf.props.{pid.lower()}")
        except ModuleNotFoundError:
            mod = None
        if mod is None or pid not in ready:
            na.append({"property_id": pid, "reason": getattr(mod, "NOT_READY_REASON", "runtime-monitoring check designed (DESIGN.md section 2) but not built yet; not claimed until it runs silent on the unchanged tree")})
            continue
        engine = next(k for k, v in ENGINES.items() if pid in v)
        checks.append({
            "property_id": pid,
            "quick_cmd": f"./check {pid} --tier quick",
            "thorough_cmd": f"./check {pid} --tier thorough",
            "evidence_file": f"/verif/evidence/{pid}.json",
            "replay_cmd_template": f"./check {pid} --replay {{path}}",
            "engine": engine,
            "level_claimed": {
                "category": getattr(mod, "LEVEL", "exploration"),
                "text": getattr(mod, "LEVEL_TEXT", "held on the executions observed: the real code is driven with generated, boundary and hostile inputs and every observed result is judged by an independent oracle; coverage is what the evidence file counts, nothing more"),
                "design_ref": f"DESIGN.md section 2, {pid}",
            },
            "level_note": getattr(mod, "LEVEL_NOTE", "trusted base: CPython, the `cryptography` wheel, the reference models in vf/refs (self-tested against standard known-answer vectors at the start of every run)"),
            "technique": getattr(mod, "TECHNIQUE", "runtime monitoring with an independent reference oracle"),
        })
    manifest = {
        "version": 1,
        "setup_cmd": "./setup.sh",
        "hooks": {
            "guard": "SPSDK_VERIF_MONITORS",
            "enable": "./check sets SPSDK_VERIF_MONITORS=1 for its worker processes; all instrumentation (wrappers on the real classes, audit hooks, sys.monitoring, fake drivers) is attached at run time from /verif, nothing is patched into /repo",
            "baseline_off_cmd": BASELINE,
            "source_commits": [],
            "add_only": True,
        },
        "engines": [
            {"name": k, "path": "vf/props/" + ",".join(x.lower() + ".py" for x in v), "serves_properties": v,
             "kind_free_text": "runtime monitor: workload generator + independent reference model + oracle over observed executions"}
            for k, v in ENGINES.items()
        ],
        "checks": checks,
        "notes": "Verdicts are three-valued: exit 0 held on everything observed, exit 1 + VIOLATION line, exit 2 + INCONCLUSIVE line (a deciding monitor was not reached / a reference self-test failed / a watchdog fired). Genuine defects that were not repaired are listed in known_findings.json and print KNOWN-FINDING lines.",
        "not_applicable": na,
    }
    with open(os.path.join(ROOT, "MANIFEST.json"), "w", encoding="utf-8") as f:
        json.dump(manifest, f, indent=1)
        f.write("\n")
    try:
        import jsonschema

        jsonschema.validate(manifest, json.load(open("/root/.vp/MANIFEST.schema.json", encoding="utf-8")))
        print("MANIFEST.json valid;", len(checks), "checks,", len(na), "not claimed")
    except ImportError:
        print("MANIFEST.json written (jsonschema not available to validate);", len(checks), "checks")


if __name__ == "__main__":
    main()
