#!/usr/bin/env python3
"""Maintain known_findings.json:  kf.py fixed <PROP> <commit> <what>   |   kf.py finding <PROP> <key> <what>"""
import json, os, sys
P = os.path.join(os.path.dirname(os.path.dirname(os.path.abspath(__file__))), "known_findings.json")
d = json.load(open(P))
kind, prop, a, what = sys.argv[1:5]
if kind == "fixed":
    e = f"fixed: property={prop} {a} {what}"
    if e not in d["fixed"]:
        d["fixed"].append(e)
else:
    d["findings"] = [f for f in d["findings"] if not (f["property"] == prop and f["key"] == a)]
    d["findings"].append({"property": prop, "key": a, "what": what})
json.dump(d, open(P, "w"), indent=1)
