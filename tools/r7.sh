#!/bin/bash
# tools/r5.sh <ID> "<tests>" : confirm the two round-7 seeded changes of a property and run its quick check against them
cd /verif
ID=$1; TESTS=$2
for k in 1 2; do python3 tools/confirm_seeded.py $ID $k --round 7 --tests "$TESTS"; done
names=""; for k in 1 2; do [ -d seeded/$ID-r7m$k ] && names="$names $ID-r7m$k"; done
[ -n "$names" ] && python3 tools/run_seeded.py $names
