#!/usr/bin/env python3
"""Confirm a seeded change delivered by a sub-agent and store it under /verif/seeded/<ID>-m<k>/.

usage: tools/confirm_seeded.py <ID> <k> [--tests "tests/utils tests/sbfile"] [--full]

Steps (all in a scratch worktree of /repo HEAD under /tmp/seedrun, removed afterwards):
  1. demo on the clean tree  -> must exit 0
  2. git apply m<k>.diff; the package must import
  3. demo with the change    -> must exit non-zero
  4. the repository tests (given directories, or the whole suite with --full) with the change; the set of failing
     test ids must equal the set on the clean tree (baseline computed once per directory set and cached)
Only if all hold: copy patch.diff, demo.py, meta.json (what it breaks, what it needs to manifest, what was run).
"""
import argparse
import hashlib
import json
import os
import shutil
import subprocess
import sys
import xml.etree.ElementTree as ET

ROOT = os.path.dirname(os.path.dirname(os.path.abspath(__file__)))
SCRATCH = "/tmp/seedrun"
PY = "/venv/bin/python"


def sh(cmd, **kw):
    return subprocess.run(cmd, shell=True, capture_output=True, text=True, **kw)


def run_tests(wt, tests, tag):
    xml = os.path.join(SCRATCH, f"junit-{tag}.xml")
    env = dict(os.environ, SPSDK_CACHE_FOLDER=os.path.join(SCRATCH, f"cache-{tag}"), SPSDK_DEBUG_LOGGING_DISABLED="1")
    env.pop("PYTHONPATH", None)
    r = subprocess.run(
        f"{PY} -m pytest -q -p no:cacheprovider -n 12 --timeout=900 --continue-on-collection-errors "
        f"--deselect tests/mboot/test_mboot_api.py::test_tp_set_wrapped_data --junitxml={xml} {tests}",
        shell=True, cwd=wt, env=env, capture_output=True, text=True)
    failed, passed = set(), 0
    try:
        for tc in ET.parse(xml).getroot().iter("testcase"):
            tid = f"{tc.get('classname')}::{tc.get('name')}"
            if tc.find("failure") is not None or tc.find("error") is not None:
                failed.add(tid)
            elif tc.find("skipped") is None:
                passed += 1
    except Exception as e:  # pylint: disable=broad-except
        return None, 0, f"junit unreadable: {e}; {r.stdout[-300:]}"
    shutil.rmtree(os.path.join(SCRATCH, f"cache-{tag}"), ignore_errors=True)
    os.remove(xml)
    tail = [ln for ln in r.stdout.splitlines() if " passed" in ln or " failed" in ln]
    return failed, passed, (tail[-1] if tail else r.stdout[-200:])


def main():
    ap = argparse.ArgumentParser()
    ap.add_argument("pid")
    ap.add_argument("k")
    ap.add_argument("--tests", default="")
    ap.add_argument("--full", action="store_true")
    ap.add_argument("--src", default=None)
    ap.add_argument("--round", default="1")
    args = ap.parse_args()
    src = args.src or f"/tmp/mut/{args.pid}-out"
    name = f"{args.pid}-m{args.k}" if args.round == "1" else f"{args.pid}-r{args.round}m{args.k}"
    patch = os.path.join(src, f"m{args.k}.diff")
    demo = os.path.join(src, f"demo{args.k}.py")
    info = json.load(open(os.path.join(src, f"m{args.k}.json"), encoding="utf-8"))
    tests = "tests" if args.full else (args.tests or "tests/utils")
    os.makedirs(SCRATCH, exist_ok=True)
    wt = os.path.join(SCRATCH, f"confirm-{name}")
    sh(f"git -C /repo worktree remove --force {wt}")
    shutil.rmtree(wt, ignore_errors=True)
    assert sh(f"git -C /repo worktree add -q --detach {wt} HEAD").returncode == 0
    shutil.copy("/repo/spsdk/__version__.py", os.path.join(wt, "spsdk", "__version__.py"))
    ok = False
    log = {}
    try:
        env = dict(os.environ, PYTHONPATH=wt, SPSDK_ROOT=wt, SPSDK_CACHE_FOLDER=os.path.join(SCRATCH, f"cache-demo-{name}"),
                   SPSDK_DEBUG_LOGGING_DISABLED="1")
        # demos refer to /tmp/mut/<ID>: rewrite to the scratch worktree
        demo_txt = open(demo, encoding="utf-8").read().replace(f"/tmp/mut/{args.pid}-out", os.path.join(SCRATCH, f"out-{name}")).replace(f"/tmp/mut/{args.pid}", wt)
        demo_local = os.path.join(SCRATCH, f"demo-{name}.py")
        open(demo_local, "w", encoding="utf-8").write(demo_txt)
        os.makedirs(os.path.join(SCRATCH, f"out-{name}"), exist_ok=True)
        r0 = subprocess.run([PY, demo_local], env=env, capture_output=True, text=True, timeout=600, cwd=wt)
        log["demo_clean_rc"] = r0.returncode
        if r0.returncode != 0:
            print(f"{name}: REJECTED demo fails on the clean tree rc={r0.returncode}: {(r0.stdout + r0.stderr)[-400:]}")
            return 1
        r = sh(f"git -C {wt} apply --whitespace=nowarn {patch}")
        if r.returncode:
            r = sh(f"git -C {wt} apply --3way --whitespace=nowarn {patch}")
        if r.returncode:
            print(f"{name}: REJECTED patch does not apply: {r.stderr[-300:]}")
            return 1
        r1 = subprocess.run([PY, demo_local], env=env, capture_output=True, text=True, timeout=600, cwd=wt)
        log["demo_changed_rc"] = r1.returncode
        if r1.returncode == 0:
            print(f"{name}: REJECTED demo passes with the change")
            return 1
        # baseline of the chosen tests on the clean tree (cached by HEAD + test set)
        head = sh("git -C /repo rev-parse HEAD").stdout.strip()
        key = hashlib.sha1((head + tests).encode()).hexdigest()[:12]
        bfile = os.path.join(SCRATCH, f"baseline-{key}.json")
        if os.path.exists(bfile):
            base = json.load(open(bfile, encoding="utf-8"))
        else:
            sh(f"git -C {wt} apply -R --whitespace=nowarn {patch}")
            failed, passed, tail = run_tests(wt, tests, f"base-{key}")
            if failed is None:
                print(f"{name}: baseline test run unreadable: {tail}")
                return 1
            base = {"failed": sorted(failed), "passed": passed, "tail": tail}
            json.dump(base, open(bfile, "w", encoding="utf-8"))
            assert sh(f"git -C {wt} apply --whitespace=nowarn {patch}").returncode == 0
        if not base["passed"]:
            print(f"{name}: REJECTED the chosen tests did not run on the clean tree ({base['tail']!r}): check the test paths")
            return 1
        failed, passed, tail = run_tests(wt, tests, f"chg-{name}")
        log.update({"tests": tests, "baseline": base["tail"], "with_change": tail})
        if failed is None or set(failed) != set(base["failed"]) or passed != base["passed"]:
            extra = sorted(set(failed or []) - set(base["failed"]))[:5]
            print(f"{name}: REJECTED existing tests notice the change: {tail} vs baseline {base['tail']}; new failures {extra}")
            return 1
        ok = True
    finally:
        sh(f"git -C /repo worktree remove --force {wt}")
        shutil.rmtree(wt, ignore_errors=True)
        shutil.rmtree(os.path.join(SCRATCH, f"cache-demo-{name}"), ignore_errors=True)
        shutil.rmtree(os.path.join(SCRATCH, f"out-{name}"), ignore_errors=True)
        sh("git -C /repo worktree prune")
    if ok:
        d = os.path.join(ROOT, "seeded", name)
        os.makedirs(d, exist_ok=True)
        shutil.copy(patch, os.path.join(d, "patch.diff"))
        shutil.copy(demo, os.path.join(d, "demo.py"))
        meta = {
            "property": args.pid,
            "title": info.get("title"),
            "files": info.get("files"),
            "what_breaks": info.get("what_breaks"),
            "needs_to_manifest": info.get("needs_to_manifest"),
            "confirmed_by_coordinator": {
                "repo_head": sh("git -C /repo rev-parse --short HEAD").stdout.strip(),
                "demo_exit_clean": log["demo_clean_rc"], "demo_exit_with_change": log["demo_changed_rc"],
                "tests_run": log["tests"], "tests_clean": log["baseline"], "tests_with_change": log["with_change"],
                "demo_cmd": "PYTHONPATH=<tree> SPSDK_ROOT=<tree> /venv/bin/python demo.py (paths /tmp/mut/<ID> inside the demo mean <tree>)",
            },
            "author_notes": {k: info.get(k) for k in ("tests_run", "demo_without", "demo_with")},
        }
        json.dump(meta, open(os.path.join(d, "meta.json"), "w", encoding="utf-8"), indent=1)
        print(f"{name}: CONFIRMED and stored ({log['with_change']})")
        return 0
    return 1


if __name__ == "__main__":
    sys.exit(main())
