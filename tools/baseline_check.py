#!/usr/bin/env python3
"""Runs the repository's baseline test command (guard OFF) and compares the passing set with BASELINE.json."""
import json, os, subprocess, sys, xml.etree.ElementTree as ET
xml = "/tmp/seedrun/baseline.junit.xml"
os.makedirs("/tmp/seedrun", exist_ok=True)
env = dict(os.environ); env.pop("SPSDK_VERIF_MONITORS", None); env.pop("PYTHONPATH", None)
extra = sys.argv[1:]
subprocess.run(f"cd /repo && /venv/bin/python -m pytest -ra -q -p no:cacheprovider --timeout=900 --continue-on-collection-errors --junitxml={xml} " + " ".join(extra),
               shell=True, env=env, stdout=subprocess.DEVNULL, stderr=subprocess.DEVNULL)
base = json.load(open("/root/.vp/BASELINE.json"))
passed = set()
for tc in ET.parse(xml).getroot().iter("testcase"):
    if tc.find("failure") is None and tc.find("error") is None and tc.find("skipped") is None:
        passed.add(f"{tc.get('classname')}::{tc.get('name')}")
stable = set(base["stable_pass"])
missing = sorted(stable - passed)
print(f"baseline stable_pass={len(stable)} passed_now={len(passed)} missing={len(missing)}")
for m in missing[:40]:
    print("  MISSING", m)
sys.exit(1 if missing else 0)
