"""Always-on monitors M-RNG and M-CTR (DESIGN.md section 1.2).  Imports nothing from spsdk at import time.

``install()`` must be called after the import path is set up (``vf.core.setup_import_path``) and *before* any
spsdk module that draws secrets is imported.  It

* replaces ``spsdk.crypto.rng.random_bytes / random_hex / rand_below`` by recorders, so that every later
  ``from spsdk.crypto.rng import random_bytes`` binds the recorder, and scans ``sys.modules`` for aliases that were
  already bound (``spsdk.utils.misc`` is imported by ``import spsdk`` itself);
* replaces ``secrets.token_bytes / token_hex / randbelow`` on the ``secrets`` module (recorded only when the caller
  is a file of the tree under test: ``import secrets; secrets.token_bytes(..)`` users such as spsdk/dice, spsdk/tp);
  ``os.urandom`` has no direct user in spsdk/ (grep) and is not hooked;
* replaces ``spsdk.crypto.symmetric.aes_ctr_encrypt / aes_ctr_decrypt`` (+ aliases) by recorders.

M-RNG ledger entry (``Draw``): logical time, function, value, length, caller ``file:line func``, the repo frames of
the stack, and whether a ``<module>`` frame of a file of the tree under test is on the stack (= the value was drawn
while a module was being imported: default arguments, class-level constants).

M-CTR ledger entry (``CtrCall``): logical time, op, key, first counter block, and an 8-byte digest of every 16-byte
*plaintext* block (input of encrypt, output of decrypt).  ``CtrLedger.blocks()`` expands the calls into
``(key, counter block) -> [(digest, call)]`` using the 128-bit big-endian increment of ``cryptography``'s CTR mode.

All entries share one logical clock (``Monitors.clock``); a harness brackets its own steps with ``mark()`` so that
"drawn during the construction window of artifact A" is decided on logical time, never on wall-clock.
"""
from __future__ import annotations

import hashlib
import os
import sys
from typing import Any, Callable, Iterable, Optional

GUARD = "SPSDK_VERIF_MONITORS"
_THIS = os.path.abspath(__file__)
MAX_CTR_BLOCKS_PER_CALL = 1 << 16  # 1 MiB of plaintext per call is digested block-wise; the rest is counted only


def _repo_root() -> str:
    return os.path.abspath(os.environ.get("VERIF_REPO", "/repo"))


class Draw:
    __slots__ = ("seq", "fn", "value", "length", "where", "at_import", "import_file", "stack")

    def __init__(self, seq: int, fn: str, value: bytes, where: str, at_import: bool, import_file: str, stack: list):
        self.seq = seq
        self.fn = fn
        self.value = value
        self.length = len(value)
        self.where = where
        self.at_import = at_import
        self.import_file = import_file
        self.stack = stack

    def to_json(self) -> dict:
        return {"seq": self.seq, "fn": self.fn, "hex": self.value.hex(), "len": self.length, "where": self.where,
                "at_import": self.at_import, "import_file": self.import_file, "stack": self.stack}

    @classmethod
    def from_json(cls, d: dict) -> "Draw":
        return cls(d["seq"], d["fn"], bytes.fromhex(d["hex"]), d["where"], d["at_import"], d["import_file"], d.get("stack", []))


class CtrCall:
    __slots__ = ("seq", "op", "key", "nonce", "size", "digests", "where", "truncated")

    def __init__(self, seq: int, op: str, key: bytes, nonce: bytes, size: int, digests: bytes, where: str, truncated: bool = False):
        self.seq = seq
        self.op = op
        self.key = key
        self.nonce = nonce
        self.size = size
        self.digests = digests  # 8 bytes per 16-byte plaintext block
        self.where = where
        self.truncated = truncated

    def to_json(self) -> dict:
        return {"seq": self.seq, "op": self.op, "key": self.key.hex(), "nonce": self.nonce.hex(), "size": self.size,
                "dig": self.digests.hex(), "where": self.where, "trunc": self.truncated}

    @classmethod
    def from_json(cls, d: dict) -> "CtrCall":
        return cls(d["seq"], d["op"], bytes.fromhex(d["key"]), bytes.fromhex(d["nonce"]), d["size"], bytes.fromhex(d["dig"]),
                   d["where"], d.get("trunc", False))


class Clock:
    def __init__(self) -> None:
        self.t = 0

    def tick(self) -> int:
        self.t += 1
        return self.t


class RngLedger:
    def __init__(self) -> None:
        self.draws: list[Draw] = []
        self.calls = 0

    def since(self, n: int) -> list[Draw]:
        return self.draws[n:]


class CtrLedger:
    def __init__(self) -> None:
        self.calls: list[CtrCall] = []
        self.blocks_seen = 0
        self.unrecorded = 0

    @staticmethod
    def expand(calls: Iterable[CtrCall]) -> dict:
        """(key, counter block as int) -> list of (digest, CtrCall)."""
        table: dict = {}
        for c in calls:
            if len(c.nonce) != 16:
                continue
            base = int.from_bytes(c.nonce, "big")
            for i in range(len(c.digests) // 8):
                k = (c.key, (base + i) & ((1 << 128) - 1))
                table.setdefault(k, []).append((c.digests[8 * i: 8 * i + 8], c))
        return table


class Monitors:
    def __init__(self, repo_root: str) -> None:
        self.repo_root = repo_root
        self.clock = Clock()
        self.rng = RngLedger()
        self.ctr = CtrLedger()
        self.patched: list[str] = []
        self.originals: list[tuple[Any, str, Any]] = []
        self.enabled = True

    def mark(self) -> int:
        """A harness event on the shared logical clock."""
        return self.clock.tick()

    # -- stack inspection -----------------------------------------------------------------------------------
    def _inspect(self, depth: int) -> tuple[str, bool, str, list]:
        root = self.repo_root + os.sep
        f = sys._getframe(depth)  # pylint: disable=protected-access
        where = ""
        at_import = False
        import_file = ""
        stack: list[str] = []
        while f is not None:
            fn = f.f_code.co_filename
            if fn != _THIS:
                afn = fn if fn.startswith(("/", "<")) else os.path.abspath(fn)
                in_repo = afn.startswith(root)
                rel = afn[len(root):] if in_repo else afn
                if not where:
                    where = f"{rel}:{f.f_lineno} {f.f_code.co_name}"
                if in_repo:
                    if len(stack) < 10:
                        stack.append(f"{rel}:{f.f_lineno} {f.f_code.co_name}")
                    if f.f_code.co_name == "<module>" and not at_import:
                        at_import = True
                        import_file = rel
            f = f.f_back
        return where, at_import, import_file, stack

    def _caller_in_repo(self, depth: int) -> bool:
        f = sys._getframe(depth)  # pylint: disable=protected-access
        while f is not None and f.f_code.co_filename == _THIS:
            f = f.f_back
        if f is None or f.f_code.co_filename.startswith("<"):
            return False
        return os.path.abspath(f.f_code.co_filename).startswith(self.repo_root + os.sep)

    # -- recorders ------------------------------------------------------------------------------------------
    def record_draw(self, fn: str, value: bytes, depth: int = 2) -> None:
        self.rng.calls += 1
        where, at_import, import_file, stack = self._inspect(depth + 1)
        self.rng.draws.append(Draw(self.clock.tick(), fn, bytes(value), where, at_import, import_file, stack))

    def record_ctr(self, op: str, key: bytes, nonce: bytes, plain: bytes) -> None:
        n = (len(plain) + 15) // 16
        trunc = n > MAX_CTR_BLOCKS_PER_CALL
        m = min(n, MAX_CTR_BLOCKS_PER_CALL)
        mv = memoryview(plain)
        dig = b"".join(hashlib.blake2b(mv[16 * i: 16 * i + 16], digest_size=8).digest() for i in range(m))
        f = sys._getframe(1)  # pylint: disable=protected-access
        while f.f_back is not None and f.f_code.co_filename == _THIS:
            f = f.f_back
        root = self.repo_root + os.sep
        fn = os.path.abspath(f.f_code.co_filename)
        where = f"{fn[len(root):] if fn.startswith(root) else fn}:{f.f_lineno} {f.f_code.co_name}"
        self.ctr.blocks_seen += n
        self.ctr.calls.append(CtrCall(self.clock.tick(), op, bytes(key), bytes(nonce), len(plain), dig, where, trunc))


_MON: Optional[Monitors] = None


def get() -> Optional[Monitors]:
    return _MON


def _rebind_aliases(mon: Monitors, original: Any, replacement: Any, label: str) -> None:
    """Every module attribute that *is* the original function gets the recorder (``from x import f`` aliases)."""
    for name, mod in list(sys.modules.items()):
        if mod is None or name == __name__:
            continue
        d = getattr(mod, "__dict__", None)
        if not isinstance(d, dict):
            continue
        for attr, val in list(d.items()):
            if val is original:
                try:
                    setattr(mod, attr, replacement)
                except Exception:  # pylint: disable=broad-except
                    continue
                mon.originals.append((mod, attr, original))
                mon.patched.append(f"{label} -> {name}.{attr}")


def install(repo_root: Optional[str] = None) -> Monitors:
    """Install M-RNG and M-CTR once per interpreter; returns the ledgers."""
    global _MON  # pylint: disable=global-statement
    if _MON is not None:
        return _MON
    if not os.environ.get(GUARD):
        raise RuntimeError(f"{GUARD} is not set: refusing to instrument anything")
    mon = Monitors(os.path.abspath(repo_root or _repo_root()))

    import secrets  # noqa: E402

    import spsdk.crypto.rng as rng_mod  # noqa: E402  (imports only `secrets`)

    preloaded = sorted(m for m in sys.modules if m.startswith("spsdk."))
    mon.patched.append("spsdk modules present at install: " + ",".join(preloaded))

    def _to_bytes(fn: str, ret: Any, arg: Any) -> bytes:
        if isinstance(ret, (bytes, bytearray)):
            return bytes(ret)
        if isinstance(ret, str):
            try:
                return bytes.fromhex(ret)
            except ValueError:
                return ret.encode()
        if isinstance(ret, int):
            try:
                width = max(1, (int(arg).bit_length() + 7) // 8)
            except Exception:  # pylint: disable=broad-except
                width = max(1, (ret.bit_length() + 7) // 8)
            return ret.to_bytes(max(width, (ret.bit_length() + 7) // 8), "big")
        return repr(ret).encode()

    def _wrap_rng(label: str, orig: Callable, only_repo_callers: bool) -> Callable:
        def recorder(*a: Any, **kw: Any) -> Any:
            ret = orig(*a, **kw)
            if mon.enabled and (not only_repo_callers or mon._caller_in_repo(1)):  # pylint: disable=protected-access
                arg = a[0] if a else (next(iter(kw.values())) if kw else None)
                mon.record_draw(label, _to_bytes(label, ret, arg), depth=1)
            return ret

        recorder.__name__ = getattr(orig, "__name__", label)
        recorder.__doc__ = getattr(orig, "__doc__", None)
        recorder.__wrapped__ = orig  # type: ignore[attr-defined]
        return recorder

    for name in ("random_bytes", "random_hex", "rand_below"):
        orig = getattr(rng_mod, name, None)
        if orig is None or hasattr(orig, "__wrapped__"):
            continue
        rec = _wrap_rng(name, orig, only_repo_callers=False)
        setattr(rng_mod, name, rec)
        mon.originals.append((rng_mod, name, orig))
        mon.patched.append(f"spsdk.crypto.rng.{name}")
        _rebind_aliases(mon, orig, rec, name)

    for name in ("token_bytes", "token_hex", "randbelow"):
        orig = getattr(secrets, name)
        if hasattr(orig, "__wrapped__"):
            continue
        rec = _wrap_rng(f"secrets.{name}", orig, only_repo_callers=True)
        setattr(secrets, name, rec)
        mon.originals.append((secrets, name, orig))
        mon.patched.append(f"secrets.{name}")
        # spsdk.crypto.rng keeps its own `from secrets import ...` bindings on purpose: its public functions are
        # recorded one level up, so nothing is recorded twice.

    import spsdk.crypto.symmetric as sym  # noqa: E402

    def _wrap_ctr(op: str, orig: Callable, data_kw: str) -> Callable:
        names = ("key", data_kw, "nonce")

        def recorder(*a: Any, **kw: Any) -> bytes:
            out = orig(*a, **kw)
            if mon.enabled:
                try:
                    vals = list(a) + [kw[n] for n in names[len(a):]]
                    mon.record_ctr(op, vals[0], vals[2], vals[1] if op == "enc" else out)
                except Exception:  # pylint: disable=broad-except
                    mon.ctr.unrecorded += 1
            return out

        recorder.__name__ = orig.__name__
        recorder.__doc__ = orig.__doc__
        recorder.__wrapped__ = orig  # type: ignore[attr-defined]
        return recorder

    for name, op, data_kw in (("aes_ctr_encrypt", "enc", "plain_data"), ("aes_ctr_decrypt", "dec", "encrypted_data")):
        orig = getattr(sym, name)
        if hasattr(orig, "__wrapped__"):
            continue
        rec = _wrap_ctr(op, orig, data_kw)
        setattr(sym, name, rec)
        mon.originals.append((sym, name, orig))
        mon.patched.append(f"spsdk.crypto.symmetric.{name}")
        _rebind_aliases(mon, orig, rec, name)

    _MON = mon
    return mon


def uninstall() -> None:
    """Restore every patched attribute (used by the monitor self-test only)."""
    global _MON  # pylint: disable=global-statement
    if _MON is None:
        return
    for mod, attr, orig in reversed(_MON.originals):
        try:
            setattr(mod, attr, orig)
        except Exception:  # pylint: disable=broad-except
            pass
    _MON = None


# ---------------------------------------------------------------------------------------------------------------
# value helpers shared by the offline checkers
def hamming(a: bytes, b: bytes) -> int:
    return bin(int.from_bytes(a, "big") ^ int.from_bytes(b, "big")).count("1")


def near_equal(a: bytes, b: bytes, tol_bits: int = 4) -> bool:
    """Equal length and Hamming distance <= tol_bits (a drawn value may be post-processed: the SB2 nonce clears
    two bits).  Values shorter than 8 bytes are compared exactly."""
    if len(a) != len(b):
        return False
    if a == b:
        return True
    if len(a) < 8:
        return False
    return hamming(a, b) <= tol_bits


def near_contains(longer: bytes, shorter: bytes, tol_bits: int = 4) -> bool:
    """``shorter`` occurs in ``longer`` at some byte offset (within the Hamming tolerance when >= 8 bytes)."""
    n, m = len(longer), len(shorter)
    if m == 0 or m > n:
        return False
    if shorter in longer:
        return True
    if m < 8:
        return False
    for off in range(n - m + 1):
        if hamming(longer[off: off + m], shorter) <= tol_bits:
            return True
    return False


def originates(secret: bytes, draw_value: bytes) -> bool:
    """Secret S 'originates from draw D'.

    Equal length: Hamming distance <= 4 bits (exact below 8 bytes).  Different length: the shorter value occurs
    verbatim in the longer one and the overlap is >= 8 bytes (BEE counter: 12 drawn bytes + 4 zero bytes), or the
    secret is a short filler (< 8 bytes) contained verbatim in a draw that is at least as long."""
    ls, ld = len(secret), len(draw_value)
    if ls == 0 or ld == 0:
        return False
    if ls == ld:
        return near_equal(secret, draw_value)
    if ls < 8:
        return ld > ls and secret in draw_value
    if ld < 8:
        return False
    return (draw_value in secret) if ls > ld else (secret in draw_value)


# ---------------------------------------------------------------------------------------------------------------
# pytest plugin: the repository's own tests as an extra workload (DESIGN.md 1.2a)
#   VERIF_MONITOR_DUMP=<prefix> SPSDK_VERIF_MONITORS=1 PYTHONPATH=$VERIF_REPO:/verif python -m pytest -p vf.monitors tests/...
# The monitors are installed when pytest imports this plugin (``-p`` plugins are imported before any conftest.py, i.e.
# before the tests import spsdk); every interpreter of the session (xdist workers included) dumps its ledgers to
# <prefix>.<pid>.json at session end.  The tests' own assertions are irrelevant to the monitors.
DUMP_ENV = "VERIF_MONITOR_DUMP"
MAX_DUMP_BLOCKS = 4096


def dump(path: str, extra: Optional[dict] = None) -> None:
    mon = get()
    if mon is None:
        return
    calls = []
    for c in mon.ctr.calls:
        j = c.to_json()
        if len(c.digests) > 8 * MAX_DUMP_BLOCKS:
            j["dig"] = c.digests[: 8 * MAX_DUMP_BLOCKS].hex()
            j["trunc"] = True
        calls.append(j)
    out = {"draws": [d.to_json() for d in mon.rng.draws], "ctr": calls, "patched": mon.patched, "pid": os.getpid(),
           "ctr_blocks_seen": mon.ctr.blocks_seen}
    out.update(extra or {})
    tmp = f"{path}.tmp{os.getpid()}"
    import json

    with open(tmp, "w", encoding="utf-8") as f:
        json.dump(out, f)
    os.replace(tmp, path)


def pytest_sessionfinish(session, exitstatus):  # noqa: ARG001
    prefix = os.environ.get(DUMP_ENV)
    if prefix and get() is not None:
        dump(f"{prefix}.{os.getpid()}.json", {"pytest_exitstatus": int(exitstatus)})


if os.environ.get(DUMP_ENV) and os.environ.get(GUARD) and "pytest" in sys.modules:
    root = _repo_root()
    if root in sys.path:
        sys.path.remove(root)
    sys.path.insert(0, root)
    install(root)
