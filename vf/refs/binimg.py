"""Reference model for C16 - trees of binary images, their layout validity and the text file formats.

Imports nothing from spsdk (and nothing from bincopy).  Written from the property text and the
public format descriptions (Intel HEX specification rev. A, Motorola S-record man page).

Tree description (plain dicts, JSON-able except for ``binary``)::

    {"name": str, "offset": int, "size": int,        # size 0 = derived
     "alignment": int >= 1,
     "pattern": None | "zeros" | "ones" | "inc" | "rand" | ["num", int],
     "binary": bytes | None,
     "children": [ ...same... ]}

Semantics (the property):

* length(node) = explicit size if given, else the end of the furthest content (own binary, children),
  in both cases rounded up to the node's alignment (alignment padding only ever extends the end);
* content of a node over [0, length): the fill (pattern block *starting at the node's own offset 0*,
  zeros when the node has no pattern), then the own binary at 0, then every child at its offset;
* a layout is valid iff every child lies inside its parent ([0, length(parent))) and no two siblings
  share a byte - at every level of the tree.

``render`` is the sparse map address -> byte in array form: ``data[i]`` is the byte at address
``base + i``; ``known[i] == 0`` marks a byte the property does not constrain (``rand`` fill);
``origin[i]`` says where the byte comes from, which also gives the *defined address set* of the sparse
text formats: everything except the fill of a pattern-less **top** image (ORIGIN_TOP_NOFILL).
"""
from __future__ import annotations

from typing import Any, Iterable, Optional

SPECIAL_PATTERNS = ("zeros", "ones", "inc", "rand")

ORIGIN_TOP_NOFILL = 0  # gap / padding of a top level image without pattern (zero in export(), undefined in HEX/S19)
ORIGIN_PATTERN = 1  # fill pattern of some image (top or nested)
ORIGIN_NESTED_ZERO = 2  # gap / padding of a *nested* image without pattern: zeros (it is part of the sub-image's bytes)
ORIGIN_BINARY = 3  # own binary of some image
ORIGIN_RAND = 4  # 'rand' fill: address defined, value unconstrained

ORIGIN_NAMES = {
    ORIGIN_TOP_NOFILL: "top-level-fill-without-pattern",
    ORIGIN_PATTERN: "pattern-fill",
    ORIGIN_NESTED_ZERO: "zero-fill-of-nested-patternless-image",
    ORIGIN_BINARY: "own-binary",
    ORIGIN_RAND: "rand-fill",
}


class Undefined(Exception):
    """The description has no defined meaning in the property (reason in args[0])."""


# --------------------------------------------------------------------------------------------
# sizes
# --------------------------------------------------------------------------------------------
def align_up(n: int, a: int) -> int:
    if a <= 0 or n < 0:
        raise Undefined(f"alignment {a} / number {n} outside the domain")
    r = n % a
    return n if r == 0 else n + (a - r)


def node(name: str = "img", offset: int = 0, size: int = 0, alignment: int = 1, pattern: Any = None,
         binary: Optional[bytes] = None, children: Optional[list] = None) -> dict:
    return {"name": name, "offset": offset, "size": size, "alignment": alignment, "pattern": pattern,
            "binary": binary, "children": list(children or [])}


def length(n: dict) -> int:
    """Reported length of an image."""
    a = n.get("alignment", 1)
    if n.get("size"):
        return align_up(n["size"], a)
    end = len(n["binary"]) if n.get("binary") else 0
    for c in n.get("children", ()):
        end = max(end, c["offset"] + length(c))
    return align_up(end, a)


def content_end(n: dict) -> int:
    """End of the furthest content (before alignment padding); equals the explicit size if there is one."""
    if n.get("size"):
        return n["size"]
    end = len(n["binary"]) if n.get("binary") else 0
    for c in n.get("children", ()):
        end = max(end, c["offset"] + length(c))
    return end


def walk(n: dict, path: tuple = ()) -> Iterable[tuple[tuple, dict]]:
    yield path, n
    for i, c in enumerate(n.get("children", ())):
        yield from walk(c, path + (i,))


def depth(n: dict) -> int:
    return 1 + max((depth(c) for c in n.get("children", ())), default=0)


def undefined_reasons(n: dict) -> list[str]:
    """Reasons for which the property gives the tree no meaning (such trees are not judged)."""
    out = []
    for path, m in walk(n):
        try:
            ln = length(m)
        except Undefined as e:
            out.append(f"{path}: {e.args[0]}")
            continue
        if ln == 0:
            out.append(f"{path}: zero-length image")
        if m.get("size") and m.get("binary") and len(m["binary"]) > ln:
            out.append(f"{path}: own binary longer than the explicit size")
        if m.get("alignment", 1) < 1:
            out.append(f"{path}: alignment < 1")
    if n["offset"] < 0:
        out.append("(): negative top-level offset")
    return out


# --------------------------------------------------------------------------------------------
# validity: interval checker
# --------------------------------------------------------------------------------------------
def layout_problems(n: dict, path: tuple = ()) -> list[tuple]:
    """All reasons for which the layout is invalid, at every level.

    ('child-outside-parent', path_of_child, (begin, end, parent_length)) - a child sticks out of its parent
    ('siblings-overlap', path_of_a, path_of_b, (a_begin, a_end, b_begin, b_end)) - two siblings share a byte
    Intervals are half open [begin, end)."""
    probs: list[tuple] = []
    plen = length(n)
    spans = []
    for i, c in enumerate(n.get("children", ())):
        b = c["offset"]
        e = b + length(c)
        if b < 0 or e > plen:
            probs.append(("child-outside-parent", path + (i,), (b, e, plen)))
        spans.append((b, e, i))
        probs.extend(layout_problems(c, path + (i,)))
    # sweep over the siblings sorted by start: an interval overlaps an earlier one iff it starts
    # before the furthest end seen so far
    spans.sort()
    far_end, far_i, far_b = None, None, None
    for b, e, i in spans:
        if far_end is not None and b < far_end and e > b and far_end > far_b:
            probs.append(("siblings-overlap", path + (far_i,), path + (i,), (far_b, far_end, b, e)))
        if far_end is None or e > far_end:
            far_end, far_i, far_b = e, i, b
    return probs


def is_valid(n: dict) -> bool:
    return not layout_problems(n)


# --------------------------------------------------------------------------------------------
# content
# --------------------------------------------------------------------------------------------
def pattern_unit(pattern: Any) -> Optional[bytes]:
    """Repeating unit of a number pattern: the number's minimal big-endian byte string."""
    if isinstance(pattern, (list, tuple)) and len(pattern) == 2 and pattern[0] == "num":
        v = int(pattern[1])
        if v < 0:
            raise Undefined("negative pattern number")
        return v.to_bytes(max(1, (v.bit_length() + 7) // 8), "big")
    return None


def pattern_block(pattern: Any, n: int) -> tuple[bytearray, bool]:
    """(block, constrained).  The pattern always starts at the image's own offset 0."""
    if pattern is None or pattern == "zeros":
        return bytearray(n), True
    if pattern == "ones":
        return bytearray(b"\xff" * n), True
    if pattern == "inc":
        return bytearray((bytes(range(256)) * (n // 256 + 1))[:n]), True
    if pattern == "rand":
        return bytearray(n), False
    unit = pattern_unit(pattern)
    if unit is None:
        raise Undefined(f"unknown pattern {pattern!r}")
    return bytearray((unit * (n // len(unit) + 1))[:n]), True


class Rendered:
    """Array form of the sparse map for one tree; addresses are ``base + index``."""

    __slots__ = ("base", "data", "known", "origin", "padding")

    def __init__(self, base: int, data: bytearray, known: bytearray, origin: bytearray, padding: bytearray):
        self.base = base
        self.data = data
        self.known = known
        self.origin = origin
        self.padding = padding  # 1 = byte lies in the alignment padding of the image that filled it

    def __len__(self) -> int:
        return len(self.data)

    def matches(self, blob: bytes) -> Optional[int]:
        """Index of the first constrained byte that differs (None = equal on every constrained byte).
        The lengths must already have been compared."""
        d, k = self.data, self.known
        if bytes(d) == bytes(blob):
            return None
        for i in range(min(len(d), len(blob))):
            if k[i] and d[i] != blob[i]:
                return i
        return None

    def defined_indices(self) -> list[int]:
        """Indices that the sparse text formats must carry (see module docstring)."""
        o = self.origin
        return [i for i in range(len(o)) if o[i] != ORIGIN_TOP_NOFILL]

    def sparse_map(self, defined_only: bool = True) -> dict[int, Optional[int]]:
        """address -> byte (None where the value is unconstrained)."""
        out: dict[int, Optional[int]] = {}
        for i in range(len(self.data)):
            if defined_only and self.origin[i] == ORIGIN_TOP_NOFILL:
                continue
            out[self.base + i] = self.data[i] if self.known[i] else None
        return out


def _render(n: dict, top: bool) -> tuple[bytearray, bytearray, bytearray, bytearray]:
    ln = length(n)
    pat = n.get("pattern")
    data, constrained = pattern_block(pat, ln)
    known = bytearray(b"\x01" * ln) if constrained else bytearray(ln)
    if pat is None:
        code = ORIGIN_TOP_NOFILL if top else ORIGIN_NESTED_ZERO
    elif pat == "rand":
        code = ORIGIN_RAND
    else:
        code = ORIGIN_PATTERN
    origin = bytearray(bytes([code]) * ln)
    padding = bytearray(ln)
    ce = min(content_end(n), ln)
    if not n.get("size"):
        padding[ce:ln] = b"\x01" * (ln - ce)
    b = n.get("binary")
    if b:
        if len(b) > ln:
            raise Undefined("own binary longer than the image")
        data[: len(b)] = b
        known[: len(b)] = b"\x01" * len(b)
        origin[: len(b)] = bytes([ORIGIN_BINARY]) * len(b)
    for c in n.get("children", ()):
        cd, ck, co, cp = _render(c, False)
        o = c["offset"]
        if o < 0 or o + len(cd) > ln:
            raise Undefined("child outside its parent")
        data[o:o + len(cd)] = cd
        known[o:o + len(cd)] = ck
        origin[o:o + len(cd)] = co
        padding[o:o + len(cd)] = cp
    return data, known, origin, padding


def render(n: dict) -> Rendered:
    """Expected content of a *valid* tree.  Raises Undefined for anything else."""
    und = undefined_reasons(n)
    if und:
        raise Undefined(und[0])
    probs = layout_problems(n)
    if probs:
        raise Undefined(f"invalid layout: {probs[0][0]}")
    d, k, o, p = _render(n, True)
    return Rendered(n["offset"], d, k, o, p)


def child_extents(n: dict, base: Optional[int] = None, path: tuple = ()) -> list[tuple[tuple, int, int]]:
    """(path, absolute begin, absolute end) of every image in the tree."""
    base = n["offset"] if base is None else base
    out = [(path, base, base + length(n))]
    for i, c in enumerate(n.get("children", ())):
        out.extend(child_extents(c, base + c["offset"], path + (i,)))
    return out


def prune_zero_length(n: dict) -> tuple[dict, bool]:
    """Drop zero-length sub-images (they own no byte).  -> (tree, influence): ``influence`` is True when a dropped
    image determined some ancestor's derived length, i.e. when the tree cannot be judged without giving
    zero-length images a meaning."""
    flag = [False]

    def rec(m: dict) -> dict:
        kids = [rec(c) for c in m.get("children", ()) if length(c) != 0]
        new = dict(m, children=kids)
        if length(new) != length(m):
            flag[0] = True
        return new

    return rec(n), flag[0]


def has_rand(n: dict) -> bool:
    return any(m.get("pattern") == "rand" for _, m in walk(n))


# --------------------------------------------------------------------------------------------
# transformations used by the API laws
# --------------------------------------------------------------------------------------------
def joined(n: dict, blob: bytes) -> dict:
    """join_images(): same image, no children, the former export as own binary."""
    m = dict(n)
    m["children"] = []
    m["binary"] = bytes(blob)
    return m


def offsets_updated(n: dict) -> dict:
    """update_offsets(): the smallest child offset moves into the image's own offset; every child keeps
    its absolute address."""
    kids = n.get("children", ())
    if not kids:
        raise Undefined("update_offsets without children")
    mo = min(c["offset"] for c in kids)
    m = dict(n)
    m["offset"] = n["offset"] + mo
    m["children"] = [dict(c, offset=c["offset"] - mo) for c in kids]
    return m


# --------------------------------------------------------------------------------------------
# Intel HEX and Motorola S-record: independent reader / writer
# --------------------------------------------------------------------------------------------
class FormatError(Exception):
    pass


def parse_ihex(text: str) -> tuple[dict[int, int], Optional[int], dict]:
    """-> (address -> byte, start address or None, info).  Every checksum is verified."""
    mem: dict[int, int] = {}
    start = None
    base = 0
    info = {"records": 0, "types": set(), "eof": False, "start_kind": None}
    for lineno, line in enumerate(text.splitlines(), 1):
        line = line.strip()
        if not line:
            continue
        if info["eof"]:
            raise FormatError(f"line {lineno}: record after EOF")
        if line[0] != ":":
            raise FormatError(f"line {lineno}: no start code")
        try:
            raw = bytes.fromhex(line[1:])
        except ValueError as e:
            raise FormatError(f"line {lineno}: {e}") from e
        if len(raw) < 5 or len(raw) != raw[0] + 5:
            raise FormatError(f"line {lineno}: length")
        if sum(raw) & 0xFF:
            raise FormatError(f"line {lineno}: checksum")
        cnt, addr, typ, payload = raw[0], int.from_bytes(raw[1:3], "big"), raw[3], raw[4:-1]
        info["records"] += 1
        info["types"].add(typ)
        if typ == 0:
            for i, b in enumerate(payload):
                a = base + ((addr + i) & 0xFFFF if info.get("segmode") else addr + i)
                if a in mem:
                    raise FormatError(f"line {lineno}: address {a:#x} written twice")
                mem[a] = b
        elif typ == 1:
            info["eof"] = True
        elif typ == 2:
            if cnt != 2:
                raise FormatError(f"line {lineno}: type 2 length")
            base = int.from_bytes(payload, "big") << 4
            info["segmode"] = True
        elif typ == 4:
            if cnt != 2:
                raise FormatError(f"line {lineno}: type 4 length")
            base = int.from_bytes(payload, "big") << 16
            info["segmode"] = False
        elif typ in (3, 5):
            if cnt != 4:
                raise FormatError(f"line {lineno}: type {typ} length")
            start = int.from_bytes(payload, "big")
            info["start_kind"] = typ
        else:
            raise FormatError(f"line {lineno}: unknown record type {typ}")
    if not info["eof"]:
        raise FormatError("no EOF record")
    info["types"] = sorted(info["types"])
    return mem, start, info


def _ihex_rec(addr16: int, typ: int, payload: bytes) -> str:
    raw = bytes([len(payload)]) + addr16.to_bytes(2, "big") + bytes([typ]) + payload
    return ":" + (raw + bytes([(-sum(raw)) & 0xFF])).hex().upper()


def write_ihex(segments: list[tuple[int, bytes]], start: Optional[int] = None, rec_len: int = 16,
               start_first: bool = False) -> str:
    """Intel HEX text with type-04 extended linear addressing."""
    lines = []
    st = [] if start is None else [_ihex_rec(0, 5, start.to_bytes(4, "big"))]
    if start_first:
        lines += st
    upper = None
    for addr, data in segments:
        pos = 0
        while pos < len(data):
            a = addr + pos
            if a >> 16 != upper:
                upper = a >> 16
                lines.append(_ihex_rec(0, 4, upper.to_bytes(2, "big")))
            n = min(rec_len, len(data) - pos, 0x10000 - (a & 0xFFFF))
            lines.append(_ihex_rec(a & 0xFFFF, 0, data[pos:pos + n]))
            pos += n
    if not start_first:
        lines += st
    lines.append(_ihex_rec(0, 1, b""))
    return "\n".join(lines) + "\n"


def parse_srec(text: str) -> tuple[dict[int, int], Optional[int], dict]:
    """-> (address -> byte, start address or None, info).  Every checksum is verified."""
    mem: dict[int, int] = {}
    start = None
    info = {"records": 0, "types": set(), "header": None}
    alen = {"0": 2, "1": 2, "2": 3, "3": 4, "5": 2, "6": 3, "7": 4, "8": 3, "9": 2}
    for lineno, line in enumerate(text.splitlines(), 1):
        line = line.strip()
        if not line:
            continue
        if line[0] != "S" or len(line) < 4 or line[1] not in alen:
            raise FormatError(f"line {lineno}: not an S-record")
        typ = line[1]
        try:
            raw = bytes.fromhex(line[2:])
        except ValueError as e:
            raise FormatError(f"line {lineno}: {e}") from e
        if len(raw) != raw[0] + 1 or raw[0] < alen[typ] + 1:
            raise FormatError(f"line {lineno}: length")
        if (sum(raw) & 0xFF) != 0xFF:
            raise FormatError(f"line {lineno}: checksum")
        n = alen[typ]
        addr = int.from_bytes(raw[1:1 + n], "big")
        payload = raw[1 + n:-1]
        info["records"] += 1
        info["types"].add("S" + typ)
        if typ == "0":
            info["header"] = payload
        elif typ in "123":
            for i, b in enumerate(payload):
                if addr + i in mem:
                    raise FormatError(f"line {lineno}: address {addr + i:#x} written twice")
                mem[addr + i] = b
        elif typ in "789":
            start = addr
    info["types"] = sorted(info["types"])
    return mem, start, info


def _srec_rec(typ: int, addr: int, payload: bytes) -> str:
    n = {0: 2, 1: 2, 2: 3, 3: 4, 5: 2, 7: 4, 8: 3, 9: 2}[typ]
    body = addr.to_bytes(n, "big") + payload
    raw = bytes([len(body) + 1]) + body
    return f"S{typ}" + (raw + bytes([0xFF - (sum(raw) & 0xFF)])).hex().upper()


def write_srec(segments: list[tuple[int, bytes]], start: Optional[int] = None, rec_len: int = 16,
               width: int = 32, header: Optional[bytes] = b"HDR") -> str:
    """S-record text; width 16/24/32 selects S1/S9, S2/S8, S3/S7."""
    dt, st = {16: (1, 9), 24: (2, 8), 32: (3, 7)}[width]
    lines = []
    if header is not None:
        lines.append(_srec_rec(0, 0, header))
    for addr, data in segments:
        for pos in range(0, len(data), rec_len):
            lines.append(_srec_rec(dt, addr + pos, data[pos:pos + rec_len]))
    if start is not None:
        lines.append(_srec_rec(st, start, b""))
    return "\n".join(lines) + "\n"


def segments_of(mem: dict[int, int]) -> list[tuple[int, bytes]]:
    """Maximal runs of consecutive addresses."""
    out: list[tuple[int, bytearray]] = []
    for a in sorted(mem):
        if out and out[-1][0] + len(out[-1][1]) == a:
            out[-1][1].append(mem[a])
        else:
            out.append((a, bytearray([mem[a]])))
    return [(a, bytes(d)) for a, d in out]


def looks_like_text_format(blob: bytes) -> bool:
    """A BIN payload that a format auto-detector may legitimately take for a text format (or ELF): excluded from
    the judged BIN loads (the ambiguity is inherent, not a defect).  Deliberately generous: anything that decodes
    as text and is blank, printable ASCII, or starts like a HEX / S-record / TI-TXT / VMEM record."""
    if blob[:4] == b"\x7fELF" or not blob:
        return True
    try:
        text = blob.decode("utf-8")
    except UnicodeDecodeError:
        return False
    stripped = text.strip()
    if not stripped:
        return True  # only characters str.strip() regards as white space (\t \n \v \f \r \x1c..\x1f, space, NEL ...)
    if stripped[0] in ":S@q/":
        return True
    return all(32 <= ord(ch) < 127 or ch.isspace() for ch in text)


# --------------------------------------------------------------------------------------------
# self-test on ground truth that SPSDK did not produce
# --------------------------------------------------------------------------------------------
_WIKI_IHEX = """:10010000214601360121470136007EFE09D2190140
:100110002146017E17C20001FF5F16002148011928
:10012000194E79234623965778239EDA3F01B2CAA7
:100130003F0156702B5E712B722B732146013421C7
:00000001FF
"""
_WIKI_SREC = """S00F000068656C6C6F202020202000003C
S11F00007C0802A6900100049421FFF07C6C1B787C8C23783C6000003863000026
S11F001C4BFFFFE5398000007D83637880010014382100107C0803A64E800020E9
S111003848656C6C6F20776F726C642E0A0042
S5030003F9
S9030000FC
"""


def selftest(repo_root: Optional[str] = None) -> dict:
    import os

    n_ok = 0
    # --- hand-computed trees ------------------------------------------------------------------
    t = node("main", size=8, pattern="zeros", children=[
        node("a", 2, 1, pattern=["num", 2]), node("c", 6, 1, pattern=["num", 6]), node("b", 4, 1, pattern=["num", 4])])
    r = render(t)
    assert bytes(r.data) == b"\x00\x00\x02\x00\x04\x00\x06\x00" and length(t) == 8 and is_valid(t)
    n_ok += 1
    # derived size, alignment padding continues the pattern from the image's own offset 0
    t = node("p", alignment=4, pattern="inc", children=[node("k", 1, binary=b"\xAA\xBB")])
    assert length(t) == 4 and bytes(render(t).data) == b"\x00\xaa\xbb\x03" and render(t).padding[3] == 1
    n_ok += 1
    # nested image without pattern: zero filled inside a ones parent; multi-byte number pattern restarts per image
    t = node("p", size=12, pattern="ones", offset=0x100, children=[
        node("z", 2, size=4, binary=b"\x11"), node("n", 7, size=5, pattern=["num", 0x1234])])
    r = render(t)
    assert bytes(r.data) == b"\xff\xff\x11\x00\x00\x00\xff\x12\x34\x12\x34\x12" and r.base == 0x100
    assert list(r.origin[2:6]) == [ORIGIN_BINARY] + [ORIGIN_NESTED_ZERO] * 3
    n_ok += 1
    # top image without pattern: gap is zero but not part of the defined address set
    t = node("p", offset=0x10, children=[node("a", 4, binary=b"\x01\x02"), node("b", 8, binary=b"\x03")])
    r = render(t)
    assert bytes(r.data) == bytes(4) + b"\x01\x02\x00\x00\x03" and sorted(r.sparse_map()) == [0x14, 0x15, 0x18]
    n_ok += 1
    # explicit size is aligned up; own binary then fill
    t = node("p", size=5, alignment=4, pattern=["num", 0xA5], binary=b"\x01\x02")
    assert length(t) == 8 and bytes(render(t).data) == b"\x01\x02" + b"\xa5" * 6
    n_ok += 1
    # validity: touching siblings are fine, one shared byte is not; child ending exactly at the parent's end fits
    ok = node("p", size=8, children=[node("a", 0, size=4), node("b", 4, size=4)])
    assert layout_problems(ok) == []
    bad = node("p", size=8, children=[node("a", 0, size=5), node("b", 4, size=4)])
    assert [p[0] for p in layout_problems(bad)] == ["siblings-overlap"]
    bad = node("p", size=8, children=[node("a", 5, size=4)])
    assert [p[0] for p in layout_problems(bad)] == ["child-outside-parent"]
    bad = node("p", size=8, children=[node("a", -1, size=4)])
    assert [p[0] for p in layout_problems(bad)] == ["child-outside-parent"]
    bad = node("p", size=64, children=[node("q", 8, size=8, children=[node("x", 0, size=4), node("y", 3, size=2)])])
    assert [p[0] for p in layout_problems(bad)] == ["siblings-overlap"] and layout_problems(bad)[0][1] == (0, 0)
    # an interval nested inside a long earlier sibling is still an overlap (sweep keeps the furthest end)
    bad = node("p", size=64, children=[node("a", 0, size=32), node("b", 4, size=2), node("c", 10, size=2)])
    assert len(layout_problems(bad)) == 2
    n_ok += 6
    # --- text formats: published examples -----------------------------------------------------------
    mem, start, info = parse_ihex(_WIKI_IHEX)
    assert len(mem) == 64 and min(mem) == 0x100 and mem[0x100] == 0x21 and mem[0x13F] == 0x21 and start is None
    mem, start, info = parse_srec(_WIKI_SREC)
    assert len(mem) == 28 + 28 + 14 and start == 0 and info["header"].startswith(b"hello")
    assert bytes(mem[a] for a in range(0x38, 0x38 + 12)) == b"Hello world."
    n_ok += 2
    for bad in (_WIKI_IHEX.replace("0140", "0141"), _WIKI_SREC.replace("0042", "0043")):
        try:
            (parse_ihex if bad[0] == ":" else parse_srec)(bad)
            raise AssertionError("corrupted checksum accepted")
        except FormatError:
            n_ok += 1
    # writers against the independent readers, all record kinds
    segs = [(0xFFF0, bytes(range(40))), (0x0801FFFE, b"\x01\x02\x03\x04"), (0xFFFFFFF0, bytes(range(16)))]
    mem, start, _ = parse_ihex(write_ihex(segs, start=0xFFFFFFFF))
    assert segments_of(mem) == segs and start == 0xFFFFFFFF
    mem, start, _ = parse_srec(write_srec(segs, start=0x1234))
    assert segments_of(mem) == segs and start == 0x1234
    mem, start, info = parse_srec(write_srec([(0x10, b"abc"), (0xFF00, b"xyz")], start=0x20, width=16))
    assert segments_of(mem) == [(0x10, b"abc"), (0xFF00, b"xyz")] and start == 0x20 and info["types"] == ["S0", "S1", "S9"]
    n_ok += 3
    assert looks_like_text_format(b"\n") and looks_like_text_format(b"\x1c ") and looks_like_text_format(b"q") and looks_like_text_format(b":00")
    assert not looks_like_text_format(b"\x00") and not looks_like_text_format(b"\xff\n") and not looks_like_text_format(b"\x01abc")
    n_ok += 1
    # --- third-party files shipped with the repository's tests (compiler / objcopy output) -----------
    files = {}
    if repo_root:
        d = os.path.join(repo_root, "tests", "utils", "data", "images")
        want = {"image.hex": (parse_ihex, 0x6000231D), "image.s19": (parse_srec, 0x8E37D), "image.srec": (parse_srec, 0x8001159)}
        for fn, (parser, exp_start) in want.items():
            p = os.path.join(d, fn)
            if not os.path.exists(p):
                continue
            with open(p, encoding="ascii") as f:
                mem, start, info = parser(f.read())
            assert start == exp_start, (fn, start)
            assert len(mem) > 1000
            files[fn] = {"bytes": len(mem), "records": info["records"], "segments": len(segments_of(mem))}
            n_ok += 1
    return {"vectors_passed": n_ok, "third_party_files": files}
