"""Independent model of a boot ROM loading a Secure Binary 2.0 / 2.1 file (standard library only).

Written from the format description (elftosb "SB 2.x" layout, DESIGN.md Appendix A "SB 2.1" /
"Cert blocks"); imports nothing from ``spsdk`` and nothing from ``cryptography``.  Primitives:
:mod:`vf.refs.aes` / :mod:`vf.refs.modes` (AES, RFC 3394 unwrap), :mod:`vf.refs.rsa` (RSASSA-PKCS1-v1_5
verification), :mod:`vf.refs.crcs` (CRC-32/MPEG-2), ``hashlib`` / ``hmac`` of the standard library.

The model behaves like a loader: it *uses* the header fields to find things and never recomputes
them from the layout --

* ``key_blob_block`` / ``key_blob_block_count`` locate the wrapped ``DEK || MAC`` blob,
* ``offset_to_certificate_block`` locates the certificate block,
* the certificate block's ``image_length`` (SB 2.1) is the number of signed bytes, the signature
  follows it; SB 2.0 signed: the signature follows block ``image_blocks``,
* ``first_boot_tag_block`` locates the first boot section, ``image_blocks`` the end of the last one,
* ``max_section_mac_count`` bounds the HMAC table of every section.

File layout (all sizes in bytes, a *block* is 16 bytes)::

    header 96      <16s nonce | 4s pad | "STMP" | major B | minor B | flags H | image_blocks I |
                   first_boot_tag_block I | first_boot_section_id I | offset_to_certificate_block I |
                   header_blocks H | key_blob_block H | key_blob_block_count H | max_section_mac_count H |
                   "sgtl" | timestamp Q (us since 2000-01-01 00:00:00 UTC) |
                   product version 3 x (BCD16 big-endian, 2 pad) | component version 3 x (...) |
                   build number I | 4s pad
    header MAC 32  2.0: HMAC-SHA256(MAC key, header);  2.1: HMAC-SHA256(MAC key, HMAC table of the FIRST
                   boot section = its header HMAC || its n data HMACs)
    key blob 80    RFC 3394 wrap (KEK) of DEK(32) || MAC(32) = 72 bytes, then 8 bytes of padding
    2.1:           certificate block v1 | [SHA-256 of all boot sections, flag 0x8000] | RSA signature | sections
    2.0 signed:    "sign" section (encrypted tag header, HMAC(header), HMAC(cert block), plain cert block) |
                   boot sections | RSA signature (NOT counted in image_blocks)
    2.0 unsigned:  boot sections

    boot section   AES-CTR(tag header 16) | HMAC(encrypted header) | n x HMAC(ciphertext slice) | ciphertext
                   tag header = command header with tag 1: flags (1 bootable, 2 cleartext, 0x8000 last),
                   address = section id, count = ciphertext blocks, data = n (number of data HMACs);
                   slices: the first n-1 have (count // n) blocks, the last one takes the rest.
    AES-CTR        key = DEK, counter block of 16-byte block i (index from the START OF THE FILE) =
                   nonce[0:12] || LE32((LE32(nonce[12:16]) + i) mod 2**32)
    command        <checksum B | tag B | flags H | address I | count I | data I>; checksum = (0x5A + sum of
                   bytes 1..15) & 0xFF; LOAD is followed by count bytes padded to a block, data = CRC-32/MPEG-2
                   of the padded bytes.  Memory id in flags: device id bits 15..8, group id bits 7..4;
                   memory id = group << 8 | device.

``decode`` returns a dict; command tuples (first element = the BD keyword of the command):

    ("nop",) ("tag", flags, address, count, data) ("load", address, mem_id, count, data[:count])
    ("fill", address, pattern_word, byte_count) ("jump", address, argument, sp_or_None) ("call", address, argument)
    ("erase", address, length, mem_id, low_flags)  low_flags: 1 = erase all, 2 = erase all unsecure
    ("reset",) ("enable", address, size, mem_id) ("prog", address, mem_id, word1, word2, eight_byte_flag)
    ("version_check", type, version)  type 0 secure / 1 non-secure
    ("keystore_to_nv", address, mem_id)   tag 12      ("keystore_from_nv", address, mem_id)   tag 13

``RefReject(reason)``: ``args[0]`` is a short stable code (see ``CODES``), ``args[1]`` a human readable detail.
With ``diagnose=True`` the model does not stop at a recoverable inconsistency of a *locating* field: it
records ``(code, detail)`` in ``result["issues"]``, continues at the place the rest of the layout implies and
so lets a harness name every wrong field of one file.  A strict call is ``diagnose=False`` (default).
"""
from __future__ import annotations

import hashlib
import hmac as _hmac
import struct

from vf.refs import aes as _aes
from vf.refs import crcs as _crcs
from vf.refs import modes as _modes
from vf.refs import rsa as _rsa

BLOCK = 16
HEADER_FORMAT = "<16s4s4s2BH4I4H4sQ12HI4s"
HEADER_SIZE = struct.calcsize(HEADER_FORMAT)
assert HEADER_SIZE == 96
CMD_FORMAT = "<2BH3L"
MAC_SIZE = 32
KEY_BLOB_SIZE = 80
WRAPPED_SIZE = 72
FLAG_SIGNED = 0x0008
FLAG_UNSIGNED_V20 = 0x0004
FLAG_SHA = 0x8000
SECT_BOOTABLE = 0x0001
SECT_CLEARTEXT = 0x0002
SECT_LAST = 0x8000
SIGN_MARK = struct.unpack("<L", b"sign")[0]
EPOCH_2000 = 946684800  # 2000-01-01T00:00:00Z in Unix seconds

TAG_NAMES = {
    0: "nop", 1: "tag", 2: "load", 3: "fill", 4: "jump", 5: "call", 7: "erase", 8: "reset",
    9: "enable", 10: "prog", 11: "version_check", 12: "keystore_to_nv", 13: "keystore_from_nv",
}

CODES = (
    "truncated", "header-signature", "header-version", "header-layout", "flags", "expect-signed",
    "key-blob-unwrap", "header-mac", "cert-offset", "certblock-header", "certblock-table", "certificate-der",
    "root-key-hash", "rkth", "cert-chain", "certblock-image-length", "signature", "sign-section",
    "first-boot-tag-block", "section-header-hmac", "section-header", "section-hmac-count", "section-hmac",
    "section-overruns-image", "image-blocks", "sections-digest", "command-checksum", "command-tag", "load-crc",
    "load-overruns-section", "first-boot-section-id", "version-not-bcd",
)


class RefReject(Exception):
    """The ROM model rejects the file: args = (code, detail)."""

    @property
    def code(self) -> str:
        return self.args[0]


# ------------------------------------------------------------------------------------------------
# small helpers
def _hm(key: bytes, data: bytes) -> bytes:
    return _hmac.new(key, data, hashlib.sha256).digest()


def counter_block(nonce: bytes, block_index: int) -> bytes:
    """Counter block of the 16-byte block ``block_index`` (counted from the start of the file)."""
    word = (int.from_bytes(nonce[12:16], "little") + block_index) & 0xFFFFFFFF
    return nonce[:12] + word.to_bytes(4, "little")


def ctr_crypt(dek: bytes, nonce: bytes, first_block: int, data: bytes) -> bytes:
    """AES-CTR over ``data`` that starts at file block ``first_block`` (encrypt == decrypt)."""
    enc = _aes.get_aes(dek).encrypt_block
    out = bytearray()
    for i in range(0, len(data), BLOCK):
        ks = enc(counter_block(nonce, first_block + i // BLOCK))
        chunk = data[i:i + BLOCK]
        out += bytes(a ^ b for a, b in zip(chunk, ks))
    return bytes(out)


def cmd_checksum(raw16: bytes) -> int:
    s = 0x5A
    for b in raw16[1:16]:
        s = (s + b) & 0xFF
    return s


def mem_id_from_flags(flags: int) -> int:
    return (((flags >> 4) & 0xF) << 8) | ((flags >> 8) & 0xFF)


def _bcd_str(words) -> str:
    return ".".join("%X" % w for w in words)


def _is_bcd(w: int) -> bool:
    return all(((w >> s) & 0xF) <= 9 for s in (0, 4, 8, 12))


# ------------------------------------------------------------------------------------------------
# minimal DER / X.509 reader (RSA certificates only)
class _DerError(Exception):
    pass


def _tlv(buf: bytes, off: int):
    """Return (tag, header_len, value_len) of the TLV at ``off``."""
    if off + 2 > len(buf):
        raise _DerError("TLV header beyond the data")
    tag = buf[off]
    if tag & 0x1F == 0x1F:
        raise _DerError("high tag numbers are not used in X.509")
    first = buf[off + 1]
    if first < 0x80:
        hl, ln = 2, first
    else:
        n = first & 0x7F
        if n == 0 or n > 4 or off + 2 + n > len(buf):
            raise _DerError("bad length octets")
        ln = int.from_bytes(buf[off + 2:off + 2 + n], "big")
        hl = 2 + n
    if off + hl + ln > len(buf):
        raise _DerError("TLV value beyond the data")
    return tag, hl, ln


def _children(buf: bytes, off: int, end: int):
    out = []
    while off < end:
        tag, hl, ln = _tlv(buf, off)
        out.append((tag, off, hl, ln))
        off += hl + ln
    if off != end:
        raise _DerError("children do not fill the constructed value")
    return out


_SIG_OIDS = {
    bytes.fromhex("2a864886f70d010105"): "sha1",
    bytes.fromhex("2a864886f70d01010b"): "sha256",
    bytes.fromhex("2a864886f70d01010c"): "sha384",
    bytes.fromhex("2a864886f70d01010d"): "sha512",
}
_OID_RSA = bytes.fromhex("2a864886f70d010101")
_OID_BASIC_CONSTRAINTS = bytes.fromhex("551d13")


def parse_certificate(der: bytes) -> dict:
    """X.509 v3 certificate with an RSA key -> {tbs, sig_hash, signature, n, e, ca, subject, issuer, der}."""
    try:
        tag, hl, ln = _tlv(der, 0)
        if tag != 0x30 or hl + ln != len(der):
            raise _DerError("certificate is not one SEQUENCE filling the data")
        top = _children(der, hl, hl + ln)
        if len(top) != 3 or top[0][0] != 0x30 or top[1][0] != 0x30 or top[2][0] != 0x03:
            raise _DerError("Certificate ::= SEQUENCE { tbs, algorithm, BIT STRING } expected")
        t_tag, t_off, t_hl, t_ln = top[0]
        tbs = der[t_off:t_off + t_hl + t_ln]
        # signature algorithm
        a = _children(der, top[1][1] + top[1][2], top[1][1] + top[1][2] + top[1][3])
        oid = der[a[0][1] + a[0][2]:a[0][1] + a[0][2] + a[0][3]]
        if a[0][0] != 0x06 or oid not in _SIG_OIDS:
            raise _DerError("unsupported signature algorithm " + oid.hex())
        sig = der[top[2][1] + top[2][2]:top[2][1] + top[2][2] + top[2][3]]
        if not sig or sig[0] != 0:
            raise _DerError("signature BIT STRING with unused bits")
        sig = sig[1:]
        # tbsCertificate
        f = _children(der, t_off + t_hl, t_off + t_hl + t_ln)
        i = 0
        version = 1
        if f[0][0] == 0xA0:
            v = _children(der, f[0][1] + f[0][2], f[0][1] + f[0][2] + f[0][3])
            version = int.from_bytes(der[v[0][1] + v[0][2]:v[0][1] + v[0][2] + v[0][3]], "big") + 1
            i = 1
        # serial, signature, issuer, validity, subject, spki
        issuer = der[f[i + 2][1]:f[i + 2][1] + f[i + 2][2] + f[i + 2][3]]
        subject = der[f[i + 4][1]:f[i + 4][1] + f[i + 4][2] + f[i + 4][3]]
        spki = f[i + 5]
        s = _children(der, spki[1] + spki[2], spki[1] + spki[2] + spki[3])
        alg = _children(der, s[0][1] + s[0][2], s[0][1] + s[0][2] + s[0][3])
        if der[alg[0][1] + alg[0][2]:alg[0][1] + alg[0][2] + alg[0][3]] != _OID_RSA:
            raise _DerError("subject public key is not RSA")
        bits = der[s[1][1] + s[1][2]:s[1][1] + s[1][2] + s[1][3]]
        if s[1][0] != 0x03 or not bits or bits[0] != 0:
            raise _DerError("bad subjectPublicKey BIT STRING")
        key = bits[1:]
        k_tag, k_hl, k_ln = _tlv(key, 0)
        ints = _children(key, k_hl, k_hl + k_ln)
        if k_tag != 0x30 or len(ints) != 2 or ints[0][0] != 0x02 or ints[1][0] != 0x02:
            raise _DerError("RSAPublicKey ::= SEQUENCE { n, e } expected")
        n = int.from_bytes(key[ints[0][1] + ints[0][2]:ints[0][1] + ints[0][2] + ints[0][3]], "big")
        e = int.from_bytes(key[ints[1][1] + ints[1][2]:ints[1][1] + ints[1][2] + ints[1][3]], "big")
        ca = False
        for fld in f[i + 6:]:
            if fld[0] != 0xA3:
                continue
            exts = _children(der, fld[1] + fld[2], fld[1] + fld[2] + fld[3])
            for ext in _children(der, exts[0][1] + exts[0][2], exts[0][1] + exts[0][2] + exts[0][3]):
                parts = _children(der, ext[1] + ext[2], ext[1] + ext[2] + ext[3])
                if der[parts[0][1] + parts[0][2]:parts[0][1] + parts[0][2] + parts[0][3]] != _OID_BASIC_CONSTRAINTS:
                    continue
                octets = parts[-1]
                inner = der[octets[1] + octets[2]:octets[1] + octets[2] + octets[3]]
                b_tag, b_hl, b_ln = _tlv(inner, 0)
                for c in _children(inner, b_hl, b_hl + b_ln):
                    if c[0] == 0x01:
                        ca = inner[c[1] + c[2]] != 0
    except (_DerError, IndexError) as exc:
        raise RefReject("certificate-der", str(exc)) from None
    return {"tbs": tbs, "sig_hash": _SIG_OIDS[oid], "signature": sig, "n": n, "e": e, "ca": ca, "version": version,
            "subject": subject, "issuer": issuer, "der": bytes(der)}


def rsa_key_hash(n: int, e: int) -> bytes:
    """Root key hash: SHA-256(modulus || exponent), both minimal big-endian."""
    nb = n.to_bytes((n.bit_length() + 7) // 8, "big")
    eb = e.to_bytes((e.bit_length() + 7) // 8, "big")
    return hashlib.sha256(nb + eb).digest()


def parse_cert_block_v1(data: bytes, offset: int, alignment: int = 16) -> dict:
    """Certificate block v1 at ``offset``: header, certificate table, 4 x 32 root key hashes."""
    if offset + 32 > len(data):
        raise RefReject("truncated", "certificate block header beyond the file")
    sig, major, minor, hlen, flags, build, image_length, count, table_len = struct.unpack_from("<4s2H6I", data, offset)
    if sig != b"cert" or hlen != 32 or (major, minor) != (1, 0):
        raise RefReject("certblock-header", f"signature {sig!r} version {major}.{minor} header length {hlen}")
    if count < 1 or count > 4:
        raise RefReject("certblock-header", f"certificate count {count}")
    pos = offset + 32
    table_end = pos + table_len
    if table_end + 128 > len(data):
        raise RefReject("truncated", "certificate table / RKH table beyond the file")
    certs = []
    for _ in range(count):
        if pos + 4 > table_end:
            raise RefReject("certblock-table", "certificate entry beyond the table")
        ln = struct.unpack_from("<I", data, pos)[0]
        pos += 4
        if pos + ln > table_end:
            raise RefReject("certblock-table", "certificate beyond the table")
        raw = bytes(data[pos:pos + ln])
        # entries may be zero padded to a word: the DER length decides
        try:
            _t, hl, dl = _tlv(raw, 0)
        except _DerError as exc:
            raise RefReject("certificate-der", str(exc)) from None
        if any(raw[hl + dl:]):
            raise RefReject("certificate-der", "non-zero bytes after the certificate inside its entry")
        certs.append(parse_certificate(raw[:hl + dl]))
        pos += ln
    if pos != table_end:
        raise RefReject("certblock-table", f"entries end at {pos - offset - 32}, table length {table_len}")
    rkh = [bytes(data[pos + 32 * i:pos + 32 * i + 32]) for i in range(4)]
    raw_end = pos + 128
    size = raw_end - offset
    size += -size % alignment
    if offset + size > len(data):
        raise RefReject("truncated", "certificate block padding beyond the file")
    if any(data[raw_end:offset + size]):
        raise RefReject("certblock-table", "non-zero alignment padding")
    # root of trust: the first certificate's key must be in the table
    root_hash = rsa_key_hash(certs[0]["n"], certs[0]["e"])
    if root_hash not in rkh:
        raise RefReject("root-key-hash", "hash of the root certificate's key is not in the RKH table")
    # chain: root self-signed, each next one signed by its predecessor
    for i, c in enumerate(certs):
        parent = certs[i - 1] if i else c
        if not _rsa.verify_pkcs1v15(parent["n"], parent["e"], c["tbs"], c["signature"], c["sig_hash"]):
            raise RefReject("cert-chain", f"certificate {i} is not signed by {'itself' if i == 0 else 'certificate %d' % (i - 1)}")
    return {
        "offset": offset, "size": size, "flags": flags, "build_number": build, "image_length": image_length,
        "cert_count": count, "cert_table_length": table_len, "certificates": certs, "rkh": rkh,
        "rkth": hashlib.sha256(b"".join(rkh)).digest(), "used_root": rkh.index(root_hash),
        "signature_size": (certs[-1]["n"].bit_length() + 7) // 8,
    }


# ------------------------------------------------------------------------------------------------
def parse_header(data: bytes) -> dict:
    if len(data) < HEADER_SIZE:
        raise RefReject("truncated", "file shorter than the image header")
    f = struct.unpack_from(HEADER_FORMAT, data, 0)
    (nonce, pad0, sig1, major, minor, flags, image_blocks, first_tag, first_id, cert_off, header_blocks, kb_block,
     kb_count, max_macs, sig2, ts) = f[:16]
    ver_words = f[16:28]
    build, pad1 = f[28], f[29]
    if sig1 != b"STMP" or sig2 != b"sgtl":
        raise RefReject("header-signature", f"{sig1!r} / {sig2!r}")
    if major != 2 or minor not in (0, 1):
        raise RefReject("header-version", f"{major}.{minor}")
    # version words are stored big-endian BCD: undo the little-endian unpack
    def be(w):
        return ((w & 0xFF) << 8) | (w >> 8)
    pv = tuple(be(ver_words[i]) for i in (0, 2, 4))
    cv = tuple(be(ver_words[i]) for i in (6, 8, 10))
    return {
        "nonce": nonce, "header_padding": pad0 + pad1, "version": (major, minor), "flags": flags,
        "image_blocks": image_blocks, "first_boot_tag_block": first_tag, "first_boot_section_id": first_id,
        "offset_to_certificate_block": cert_off, "header_blocks": header_blocks, "key_blob_block": kb_block,
        "key_blob_block_count": kb_count, "max_section_mac_count": max_macs, "timestamp_us": ts,
        "timestamp_unix": EPOCH_2000 + ts / 1000000, "product_version_words": pv, "component_version_words": cv,
        "product_version": _bcd_str(pv), "component_version": _bcd_str(cv), "version_pad_words": tuple(ver_words[1::2]),
        "build_number": build,
    }


def decode_commands(plain: bytes, where: str = "") -> tuple[list, list]:
    """Plain command stream of one section -> (command tuples, raw header tuples)."""
    cmds, raws = [], []
    pos = 0
    while pos < len(plain):
        raw = plain[pos:pos + BLOCK]
        if len(raw) < BLOCK:
            raise RefReject("truncated", f"{where}command header cut at {pos}")
        chk, tag, flags, address, count, dword = struct.unpack(CMD_FORMAT, raw)
        if chk != cmd_checksum(raw):
            raise RefReject("command-checksum", f"{where}command at +{pos}: stored 0x{chk:02X}, computed 0x{cmd_checksum(raw):02X}")
        if tag not in TAG_NAMES:
            raise RefReject("command-tag", f"{where}command at +{pos}: tag {tag}")
        name = TAG_NAMES[tag]
        raws.append((tag, flags, address, count, dword))
        pos += BLOCK
        if name == "load":
            padded = count + (-count % BLOCK)
            body = plain[pos:pos + padded]
            if len(body) != padded:
                raise RefReject("load-overruns-section", f"{where}load at +{pos - BLOCK}: {count} bytes announced, {len(body)} left")
            crc = _crcs.crc32_mpeg2(body)
            if crc != dword:
                raise RefReject("load-crc", f"{where}load at +{pos - BLOCK}: stored 0x{dword:08X}, computed 0x{crc:08X}")
            cmds.append(("load", address, mem_id_from_flags(flags), count, bytes(body[:count])))
            pos += padded
        elif name == "nop":
            cmds.append(("nop",))
        elif name == "tag":
            cmds.append(("tag", flags, address, count, dword))
        elif name == "fill":
            cmds.append(("fill", address, dword, count))
        elif name == "jump":
            cmds.append(("jump", address, dword, count if flags & 0x2 else None))
        elif name == "call":
            cmds.append(("call", address, dword))
        elif name == "erase":
            cmds.append(("erase", address, count, mem_id_from_flags(flags), flags & 0xF))
        elif name == "reset":
            cmds.append(("reset",))
        elif name == "enable":
            cmds.append(("enable", address, count, mem_id_from_flags(flags)))
        elif name == "prog":
            cmds.append(("prog", address, (flags >> 8) & 0xFF, count, dword, flags & 0x1))
        elif name == "version_check":
            cmds.append(("version_check", address, count))
        else:  # keystore_to_nv / keystore_from_nv
            cmds.append((name, address, (flags >> 8) & 0xFF))
    return cmds, raws


class _Run:
    def __init__(self, diagnose: bool):
        self.diagnose = diagnose
        self.issues: list = []

    def fail(self, code: str, detail: str, recoverable: bool = False):
        assert code in CODES, code
        if self.diagnose and recoverable:
            self.issues.append((code, detail))
            return
        raise RefReject(code, detail)


def _section(run: _Run, data: bytes, off: int, hdr: dict, dek: bytes, mac: bytes, image_end: int, index: int) -> dict:
    nonce = hdr["nonce"]
    where = f"section {index} @0x{off:X}: "
    if off % BLOCK:
        raise RefReject("section-header", where + "not on a block boundary")
    if off + BLOCK + MAC_SIZE > len(data):
        raise RefReject("truncated", where + "tag header / header HMAC beyond the file")
    enc_hdr = data[off:off + BLOCK]
    if _hm(mac, enc_hdr) != data[off + BLOCK:off + BLOCK + MAC_SIZE]:
        raise RefReject("section-header-hmac", where + "HMAC of the encrypted tag header does not match")
    raw = ctr_crypt(dek, nonce, off // BLOCK, enc_hdr)
    chk, tag, flags, uid, count, n = struct.unpack(CMD_FORMAT, raw)
    if chk != cmd_checksum(raw):
        raise RefReject("command-checksum", where + "tag header checksum")
    if tag != 1:
        raise RefReject("section-header", where + f"tag {tag} instead of 1")
    return {"offset": off, "flags": flags, "uid": uid, "blocks": count, "hmac_count": n, "_where": where,
            "_table": off + BLOCK + MAC_SIZE}


def _boot_section(run: _Run, data: bytes, off: int, hdr: dict, dek: bytes, mac: bytes, image_end: int, index: int) -> dict:
    s = _section(run, data, off, hdr, dek, mac, image_end, index)
    where, n, count = s["_where"], s["hmac_count"], s["blocks"]
    if s["flags"] & SECT_CLEARTEXT or not s["flags"] & SECT_BOOTABLE:
        raise RefReject("section-header", where + f"flags 0x{s['flags']:04X}: a boot section must be bootable and encrypted")
    if n < 1 or n > hdr["max_section_mac_count"]:
        raise RefReject("section-hmac-count", where + f"{n} data HMACs, header allows {hdr['max_section_mac_count']}")
    if count < 1 or count // n < 1:
        raise RefReject("section-hmac-count", where + f"{count} blocks for {n} HMACs")
    table = s["_table"]
    body = table + MAC_SIZE * n
    end = body + count * BLOCK
    if end > len(data):
        raise RefReject("truncated", where + "ciphertext beyond the file")
    if end > image_end:
        run.fail("section-overruns-image", where + f"ends at block {end // BLOCK}, image_blocks = {image_end // BLOCK}", True)
    per = (count // n) * BLOCK
    p = body
    for k in range(n):
        q = end if k == n - 1 else p + per
        if _hm(mac, data[p:q]) != data[table + MAC_SIZE * k:table + MAC_SIZE * (k + 1)]:
            raise RefReject("section-hmac", where + f"data HMAC {k} over blocks {(p - body) // BLOCK}..{(q - body) // BLOCK} does not match")
        p = q
    plain = ctr_crypt(dek, hdr["nonce"], body // BLOCK, data[body:end])
    cmds, raws = decode_commands(plain, where)
    s.update({"end": end, "commands": cmds, "raw_commands": raws, "hmac_table": bytes(data[off + BLOCK:body]),
              "last": bool(s["flags"] & SECT_LAST)})
    del s["_where"], s["_table"]
    return s


def decode(data: bytes, kek: bytes, *, expect_signed=None, rkth=None, diagnose: bool = False) -> dict:  # noqa: C901
    """Process an SB 2.0 / 2.1 file like the ROM does.

    :param data: the file
    :param kek: key-encryption key (32 bytes) the device holds
    :param expect_signed: None = accept what the flags say; True/False = the device's policy
    :param rkth: optional 32-byte root key table hash fused in the device
    :param diagnose: keep going after an inconsistent locating field (see module docstring)
    :return: dict with header fields, ``dek``, ``mac``, ``cert_block`` (or None), ``signed``, ``signature_offset``,
        ``sections`` (list of dicts: uid, flags, hmac_count, blocks, offset, end, last, commands, raw_commands) and ``issues``
    :raises RefReject: the ROM would refuse the file
    """
    data = bytes(data)
    run = _Run(diagnose)
    hdr = parse_header(data)
    minor = hdr["version"][1]
    flags = hdr["flags"]
    for name in ("product_version_words", "component_version_words"):
        if not all(_is_bcd(w) for w in hdr[name]):
            run.fail("version-not-bcd", f"{name} {hdr[name]}", True)
    if minor == 0:
        if flags not in (FLAG_SIGNED, FLAG_UNSIGNED_V20):
            raise RefReject("flags", f"SB 2.0 flags 0x{flags:04X}")
        signed = flags == FLAG_SIGNED
    else:
        if not flags & FLAG_SIGNED or flags & ~(FLAG_SIGNED | FLAG_SHA):
            raise RefReject("flags", f"SB 2.1 flags 0x{flags:04X}")
        signed = True
    if expect_signed is not None and bool(expect_signed) != signed:
        raise RefReject("expect-signed", f"device expects signed={expect_signed}, file flags 0x{flags:04X}")
    sha = bool(minor == 1 and flags & FLAG_SHA)

    # fixed part: header | MAC | key blob
    hdr_end = hdr["header_blocks"] * BLOCK
    kb_off = hdr["key_blob_block"] * BLOCK
    kb_len = hdr["key_blob_block_count"] * BLOCK
    if hdr_end != HEADER_SIZE or kb_off != hdr_end + MAC_SIZE or kb_len != KEY_BLOB_SIZE:
        raise RefReject("header-layout", f"header_blocks {hdr['header_blocks']}, key_blob_block {hdr['key_blob_block']}, "
                                         f"key_blob_block_count {hdr['key_blob_block_count']}")
    kb_end = kb_off + kb_len
    if len(data) < kb_end:
        raise RefReject("truncated", "file ends inside the key blob")
    try:
        keys = _modes.key_unwrap(kek, data[kb_off:kb_off + WRAPPED_SIZE])
    except ValueError as exc:
        raise RefReject("key-blob-unwrap", str(exc)) from None
    dek, mac = keys[:32], keys[32:]
    header_mac = data[hdr_end:hdr_end + MAC_SIZE]
    image_end = hdr["image_blocks"] * BLOCK
    if image_end > len(data):
        raise RefReject("truncated", f"image_blocks {hdr['image_blocks']} but the file has {len(data) // BLOCK} blocks")
    sections_off = hdr["first_boot_tag_block"] * BLOCK
    cb = None
    sig_off = None

    if minor == 0:
        if _hm(mac, data[:hdr_end]) != header_mac:
            raise RefReject("header-mac", "HMAC(MAC key, header) does not match")
        expected_sections = kb_end
        if signed:
            s = _section(run, data, kb_end, hdr, dek, mac, image_end, -1)
            if s["flags"] != (SECT_CLEARTEXT | SECT_LAST) or s["uid"] != SIGN_MARK or s["hmac_count"] != 1:
                raise RefReject("sign-section", f"flags 0x{s['flags']:04X} id 0x{s['uid']:08X} HMACs {s['hmac_count']}")
            body = s["_table"] + MAC_SIZE
            cert_off = hdr["offset_to_certificate_block"]
            if cert_off != body:
                raise RefReject("cert-offset", f"offset_to_certificate_block {cert_off}, 'sign' section body at {body}")
            cb = parse_cert_block_v1(data, cert_off)
            if s["blocks"] * BLOCK != cb["size"]:
                raise RefReject("sign-section", f"{s['blocks']} blocks announced, certificate block has {cb['size'] // BLOCK}")
            if _hm(mac, data[body:body + cb["size"]]) != data[s["_table"]:s["_table"] + MAC_SIZE]:
                raise RefReject("section-hmac", "HMAC of the certificate block does not match")
            expected_sections = body + cb["size"]
            sig_off = image_end
            sig = data[sig_off:sig_off + cb["signature_size"]]
            leaf = cb["certificates"][-1]
            if len(sig) != cb["signature_size"] or not _rsa.verify_pkcs1v15(leaf["n"], leaf["e"], data[:sig_off], sig, "sha256"):
                raise RefReject("signature", f"RSA signature at block image_blocks = {hdr['image_blocks']} does not verify over the {sig_off} bytes before it")
    else:
        cert_off = hdr["offset_to_certificate_block"]
        if cert_off < kb_end or cert_off % 4:
            raise RefReject("cert-offset", f"offset_to_certificate_block {cert_off}")
        cb = parse_cert_block_v1(data, cert_off)
        cert_end = cert_off + cb["size"]
        covered = cert_end + (32 if sha else 0)
        leaf = cb["certificates"][-1]
        siglen = cb["signature_size"]

        def verifies(at):
            sg = data[at:at + siglen]
            return len(sg) == siglen and _rsa.verify_pkcs1v15(leaf["n"], leaf["e"], data[:at], sg, "sha256")

        sig_off = cb["image_length"]
        if not verifies(sig_off):
            if sig_off != covered and verifies(covered):
                run.fail("certblock-image-length",
                         f"certificate block image_length {sig_off}: no valid signature there; header|MAC|key blob|cert block"
                         f"{'|SHA-256' if sha else ''} is {covered} bytes and the signature at {covered} verifies over them", True)
                sig_off = covered
            else:
                raise RefReject("signature", f"RSA signature at image_length = {sig_off} does not verify over the bytes before it")
        elif sig_off < covered:
            raise RefReject("signature", f"signed length {sig_off} does not cover the certificate block{' and digest' if sha else ''} ({covered})")
        expected_sections = sig_off + siglen

    if rkth is not None and cb is not None and cb["rkth"] != bytes(rkth):
        raise RefReject("rkth", "hash of the RKH table differs from the device's RKTH")

    # boot sections: from first_boot_tag_block up to image_blocks
    sections = []
    try:
        first = _boot_section(run, data, sections_off, hdr, dek, mac, image_end, 0)
    except RefReject as exc:
        if exc.code != "section-header-hmac" or expected_sections == sections_off:
            raise
        try:  # is there a boot section where the rest of the layout says the sections start?
            first = _boot_section(_Run(True), data, expected_sections, hdr, dek, mac, image_end, 0)
        except RefReject:
            raise exc from None
        run.fail("first-boot-tag-block", f"first_boot_tag_block {hdr['first_boot_tag_block']}: no boot section there; "
                                         f"one starts at block {expected_sections // BLOCK}, right after the data before the sections", True)
        first = _boot_section(run, data, expected_sections, hdr, dek, mac, image_end, 0)
        sections_off = expected_sections
    sections.append(first)
    off = first["end"]
    while off < image_end:
        sec = _boot_section(run, data, off, hdr, dek, mac, image_end, len(sections))
        sections.append(sec)
        off = sec["end"]
    if off != image_end and not any(c == "section-overruns-image" for c, _ in run.issues):
        raise RefReject("image-blocks", f"sections end at block {off // BLOCK}, image_blocks {hdr['image_blocks']}")
    sections_end = off
    if minor == 1:
        table = first["hmac_table"]
        if _hm(mac, table) != header_mac:
            raise RefReject("header-mac", "HMAC(MAC key, HMAC table of the first boot section) does not match")
        if sha:
            digest = data[cert_end:cert_end + 32]
            if hashlib.sha256(data[sections_off:sections_end]).digest() != digest:
                raise RefReject("sections-digest", "SHA-256 of the boot sections differs from the digest after the certificate block")
    if first["uid"] != hdr["first_boot_section_id"]:
        run.fail("first-boot-section-id", f"header says 0x{hdr['first_boot_section_id']:X}, first section is 0x{first['uid']:X}", True)

    res = dict(hdr)
    res.update({
        "signed": signed, "sha": sha, "dek": dek, "mac": mac, "key_blob_padding": bytes(data[kb_off + WRAPPED_SIZE:kb_end]),
        "cert_block": cb, "signature_offset": sig_off, "sections_offset": sections_off, "sections_end": sections_end,
        "sections": sections, "issues": list(run.issues), "file_blocks": len(data) // BLOCK,
    })
    return res


# ------------------------------------------------------------------------------------------------
def authenticated_regions(res: dict, size: int) -> list:
    """Byte ranges [(start, end, name)] of a decoded file whose corruption the ROM must notice."""
    out = []
    signed_v20 = res["version"][1] == 0 and res["signed"]
    if res["version"][1] == 1:
        so = res["signature_offset"]
        out.append((0, so, "signed-area"))
        out.append((so, so + res["cert_block"]["signature_size"], "signature"))
        out.append((res["sections_offset"], res["sections_end"], "sections"))
    elif signed_v20:
        so = res["signature_offset"]
        out.append((0, so, "signed-area"))
        out.append((so, so + res["cert_block"]["signature_size"], "signature"))
    else:
        out.append((0, 96, "header"))
        out.append((96, 128, "header-mac"))
        out.append((128, 128 + WRAPPED_SIZE, "key-blob"))
        out.append((res["sections_offset"], res["sections_end"], "sections"))
    return [(a, min(b, size), n) for a, b, n in out if a < size]


def selftest(repo_root: str = "/repo") -> dict:
    """Decode third-party (elftosb-made) SB 2.1 files of the repository's test data; spot-check their content.

    ``legacy_real_example3_test_options.sb`` is decoded too but is NOT ground truth: its zero nonce / DEK / MAC, load
    counts padded to 16 and byte-reversed blobs show it was written by SPSDK itself (reported separately)."""
    import os

    base = os.path.join(repo_root, "tests", "nxpimage", "data", "sb_sources")
    with open(os.path.join(base, "keys", "SBkek_PUF.txt"), encoding="ascii") as f:
        kek = bytes.fromhex(f.read().strip())
    n_files = n_cmds = n_loads = 0
    summary = {}
    for name in ("legacy_real_example1.sb", "legacy_real_example2.sb", "legacy_real_example3.sb",
                 "legacy_real_example3_test_options.sb", "legacy_elftosb_no_sha.bin", "legacy_elftosb_sha.bin"):
        path = os.path.join(base, "SB_files", name)
        if not os.path.exists(path):
            continue
        with open(path, "rb") as f:
            blob = f.read()
        r = decode(blob, kek, expect_signed=True)
        assert not r["issues"], (name, r["issues"])
        assert r["version"] == (2, 1) and len(r["sections"]) >= 1, name
        assert r["sha"] == (name == "legacy_elftosb_sha.bin"), name
        assert r["file_blocks"] == r["image_blocks"], name
        summary[name] = [len(s["commands"]) for s in r["sections"]]
        if name == "legacy_real_example3_test_options.sb":
            assert r["nonce"] == bytes(16) and r["dek"] == bytes(32), "expected the SPSDK-made file with fixed test options"
            summary[name] = {"spsdk_made_not_ground_truth": summary[name]}
            continue
        n_files += 1
        for s in r["sections"]:
            n_cmds += len(s["commands"])
            n_loads += sum(1 for c in s["commands"] if c[0] == "load")
            # elftosb stores the exact data length of a load (padding only in the stream)
        assert all(c[3] == len(c[4]) for s in r["sections"] for c in s["commands"] if c[0] == "load"), name
        # wrong KEK and a flipped byte in each region must be refused
        try:
            decode(blob, bytes(32), expect_signed=True)
            raise AssertionError(name + ": accepted with a wrong KEK")
        except RefReject:
            pass
        for a, b, _n in authenticated_regions(r, len(blob)):
            for pos in (a, (a + b) // 2, b - 1):
                bad = bytearray(blob)
                bad[pos] ^= 0x40
                try:
                    decode(bytes(bad), kek, expect_signed=True)
                    raise AssertionError(f"{name}: corruption at {pos} accepted")
                except RefReject:
                    pass
        if name == "legacy_real_example3.sb":
            c = r["sections"][0]["commands"]
            kinds = [x[0] for x in c]
            # from real_example3.bd (elftosb input): version checks, fuse programming, group memory ids, erase, jump
            assert c[0] == ("version_check", 0, 0xAFBC) and c[1] == ("version_check", 1, 1), c[:2]
            assert ("prog", 0x01000188, 4, 1, 0, 0) in c, [x for x in c if x[0] == "prog"]
            assert any(x[0] == "load" and x[2] == 0x120 and x[3] == 4 and x[4] == bytes.fromhex("aabbccdd") for x in c), "load @288"
            assert any(x[0] == "load" and x[3] == 15068 for x in c), "exact (unpadded) load count of the application image"
            assert ("enable", 0x0010C000, 4, 0x120) in c and ("enable", 0x0010C000, 4, 9) in c, [x for x in c if x[0] == "enable"]
            assert ("erase", 0, 0, 0, 2) in c and ("erase", 0, 0, 8, 1) in c, [x for x in c if x[0] == "erase"]
            assert ("erase", 0x8001000, 0x80074A4 - 0x8001000, 0x120, 0) in c and ("erase", 0x8001000, 0x80074A4 - 0x8001000, 0x121, 0) in c
            assert ("jump", 0xFFFF0000, 0, None) in c and ("jump", 0x1000, 0x5A5A5A5A, 0x20000E00) in c, [x for x in c if x[0] == "jump"]
            assert "fill" in kinds or any(x[0] == "load" and x[1] == 0x0010C000 for x in c)
    assert n_files >= 4, f"only {n_files} elftosb goldens found"
    # counter wrap: block index pushes the nonce word over 2**32
    assert counter_block(bytes(12) + b"\xfe\xff\xff\xff", 3) == bytes(12) + b"\x01\x00\x00\x00"
    return {"elftosb_files": n_files, "commands": n_cmds, "loads": n_loads, "per_file": summary}
