"""HKDF (RFC 5869) on top of hashlib/hmac only."""

import hashlib
import hmac

__all__ = ["hkdf_extract", "hkdf_expand", "hkdf", "selftest"]


def _hash_len(hashname):
    return hashlib.new(hashname).digest_size


def hkdf_extract(salt, ikm, hashname="sha256"):
    if not salt:
        salt = bytes(_hash_len(hashname))
    return hmac.new(bytes(salt), bytes(ikm), hashname).digest()


def hkdf_expand(prk, info, length, hashname="sha256"):
    hlen = _hash_len(hashname)
    if length < 0 or length > 255 * hlen:
        raise ValueError("hkdf_expand: length %d out of range (max %d)" % (length, 255 * hlen))
    prk = bytes(prk)
    info = bytes(info or b"")
    okm = b""
    t = b""
    i = 0
    while len(okm) < length:
        i += 1
        t = hmac.new(prk, t + info + bytes([i]), hashname).digest()
        okm += t
    return okm[:length]


def hkdf(salt, ikm, info, length, hashname="sha256"):
    return hkdf_expand(hkdf_extract(salt, ikm, hashname), info, length, hashname)


# -------------------------------------------------------------- selftest ---

_VECTORS = [
    # (name, hash, ikm, salt, info, L, prk, okm)  -- RFC 5869 appendix A
    ("RFC5869-A.1", "sha256", "0b" * 22, "000102030405060708090a0b0c", "f0f1f2f3f4f5f6f7f8f9", 42,
     "077709362c2e32df0ddc3f0dc47bba6390b6c73bb50f9c3122ec844ad7c2b3e5",
     "3cb25f25faacd57a90434f64d0362f2a2d2d0a90cf1a5a4c5db02d56ecc4c5bf34007208d5b887185865"),
    ("RFC5869-A.2", "sha256",
     "".join("%02x" % i for i in range(0x00, 0x50)),
     "".join("%02x" % i for i in range(0x60, 0xB0)),
     "".join("%02x" % i for i in range(0xB0, 0x100)), 82,
     "06a6b88c5853361a06104c9ceb35b45cef760014904671014a193f40c15fc244",
     "b11e398dc80327a1c8e7f78c596a49344f012eda2d4efad8a050cc4c19afa97c59045a99cac7827271cb41c65e590e09"
     "da3275600c2f09b8367793a9aca3db71cc30c58179ec3e87c14c01d5c1f3434f1d87"),
    ("RFC5869-A.3", "sha256", "0b" * 22, "", "", 42,
     "19ef24a32c717b167f33a91d6f648bdf96596776afdb6377ac434c1c293ccb04",
     "8da4e775a563c18f715f802a063c5a31b8a11f5c5ee1879ec3454e5f3c738d2d9d201395faa4b61a96c8"),
    ("RFC5869-A.4", "sha1", "0b" * 11, "000102030405060708090a0b0c", "f0f1f2f3f4f5f6f7f8f9", 42,
     "9b6c18c432a7bf8f0e71c8eb88f4b30baa2ba243",
     "085a01ea1b10f36933068b56efa5ad81a4f14b822f5b091568a9cdd4f155fda2c22e422478d305f3f896"),
]


def selftest():
    """Run known-answer tests; return the number of assertions passed."""
    n = 0
    for name, h, ikm, salt, info, length, prk, okm in _VECTORS:
        ikm, salt, info = bytes.fromhex(ikm), bytes.fromhex(salt), bytes.fromhex(info)
        prk, okm = bytes.fromhex(prk), bytes.fromhex(okm)
        assert hkdf_extract(salt, ikm, h) == prk, name + " extract"
        assert hkdf_expand(prk, info, length, h) == okm, name + " expand"
        assert hkdf(salt, ikm, info, length, h) == okm, name + " one-shot"
        n += 3
    assert hkdf_expand(bytes(32), b"", 0) == b"", "HKDF zero length"
    n += 1
    try:
        hkdf_expand(bytes(32), b"", 255 * 32 + 1)
    except ValueError:
        n += 1
    else:
        raise AssertionError("HKDF over-long output accepted")
    return n


if __name__ == "__main__":
    print("kdf selftest:", selftest())
