"""Independent model of the boot ROM's acceptance checks for NXP Master Boot Images (MBI).

Imports nothing from spsdk.  Written from the format description (DESIGN.md, Appendix A "MBI" and
"Cert blocks"): IVT header words, CRC-32/MPEG-2 images, certificate block v1 (RSA / X.509), certificate
block v2.1 (ECDSA, ``chdr`` + ``imgm`` manifest), the HMAC / key-store block of the load-to-RAM images,
AES-CTR encrypted images, and the two IVT-less classes of the DSC parts (BCA CRC class, "Vx" signed
class).  Cryptography is pure Python (vf.refs.rsa / ecdsa / aes / modes / crcs + hashlib); DER is read
with ``asn1crypto`` (third party, not spsdk).

Usage::

    prof = Profile(cert="v1", hmac_types=(1, 3), tz_size=..., manifest=None)
    rep  = accept(data, prof, rkth=<32/48 B anchor>, user_key=<32 B>)      # raises Reject(reason)
    rep.regions      -> [(name, start, end, kind)]   kind: "auth" | "field" | "free"
    rep.signed       -> the exact byte string the signature covers (None for CRC / plain)
    rep.plaintext    -> decrypted image stream (encrypted class only)

``walk(data, prof)`` derives only the layout (no cryptography) - used by C01 for the length word.
Trust anchors are computed by the caller from raw public numbers with ``rkh_rsa/rkh_ecc/rkth_v1/rkth_v21``.
"""
from __future__ import annotations

import hashlib
import hmac as _hmac
import struct

from vf.refs import crcs, ecdsa, modes, rsa

try:  # the framework's exception type, so that run_case can catch one class
    from vf.core import RefReject as Reject
except Exception:  # pragma: no cover
    class Reject(Exception):
        pass

# ----------------------------------------------------------------------------------- constants
W_LENGTH, W_FLAGS, W_CRC_CERT, W_LOAD = 0x20, 0x24, 0x28, 0x34
RESERVED_WORDS = (W_LENGTH, W_FLAGS, W_CRC_CERT, W_LOAD)
T_PLAIN, T_SIGNED_RAM, T_CRC_RAM, T_ENC_RAM, T_SIGNED_XIP, T_CRC_XIP, T_SIGNED_NXP = 0, 1, 2, 3, 4, 5, 8
CRC_TYPES = (T_CRC_RAM, T_CRC_XIP)
SIGNED_TYPES = (T_SIGNED_RAM, T_ENC_RAM, T_SIGNED_XIP, T_SIGNED_NXP)
TZ_ENABLED, TZ_CUSTOM, TZ_DISABLED = 0, 1, 2
HMAC_OFFSET, HMAC_SIZE, KEY_STORE_SIZE = 0x40, 32, 1424
ENC_IVT_COPY, IV_SIZE = 56, 16
RELOC_MARKER = 0x4C54424C
CURVES = {1: ("p256", 32, "sha256"), 2: ("p384", 48, "sha384")}
DIGEST_ALGS = {1: "sha256", 2: "sha384", 3: "sha512"}
# DSC (no IVT) layout
VX_DIGEST, VX_SIG, VX_BCA, VX_FCF, VX_ISK, VX_ISK_HASH, VX_DATA = 0x360, 0x380, 0x3C0, 0x400, 0x410, 0x4A0, 0xC00
VX_ISK_CERT_SIZE = 136


class Profile:
    """What the ROM of one device knows by construction (not read from the image)."""

    def __init__(self, kind="ivt", cert=None, hmac_types=(), manifest=None, tz_size=0):
        self.kind = kind              # "ivt" | "bca_crc" | "vx" | "bare" (no header at all)
        self.cert = cert              # None | "v1" | "v21"
        self.hmac_types = tuple(hmac_types)  # image types carrying the HMAC [+ key store] block at 0x40
        self.manifest = manifest      # None | "crc" | "digest" | "plain"   (cert v2.1 only)
        self.tz_size = tz_size        # size of a custom TrustZone preset block of this device


class Report:
    def __init__(self):
        self.header = None
        self.regions = []      # (name, start, end, kind)
        self.signed = None     # bytes covered by the signature
        self.sig_offset = None
        self.sig_len = None
        self.derived_length = None
        self.plaintext = None
        self.info = {}

    def add(self, name, start, end, kind):
        if end > start:
            self.regions.append((name, start, end, kind))


def _u32(data, off):
    if off + 4 > len(data):
        raise Reject(f"image too short for a word at {off:#x}")
    return struct.unpack_from("<I", data, off)[0]


# ------------------------------------------------------------------------------- header words
def decode_header(data):
    """Decode the four IVT words the ROM reads."""
    if len(data) < 0x38:
        raise Reject("image shorter than the vector table (0x38)")
    flags = _u32(data, W_FLAGS)
    return {
        "total_length": _u32(data, W_LENGTH),
        "flags": flags,
        "type": flags & 0x3F,
        "subtype": (flags >> 6) & 0x3,
        "reserved_bits": flags & 0x0300,
        "version_flag": bool(flags & 0x400),
        "reloc": bool(flags & 0x800),
        "hw_key": bool(flags & 0x1000),
        "tz": (flags >> 13) & 0x3,
        "key_store": bool(flags & 0x8000),
        "image_version": (flags >> 16) & 0xFFFF,
        "word28": _u32(data, W_CRC_CERT),
        "load_address": _u32(data, W_LOAD),
    }


def expected_flags(image_type, subtype=0, tz=None, hw_key=False, key_store=False, reloc=False, image_version=0,
                   version_in_flags=True):
    """Flags word the format defines for a configuration (tz None = class has no TrustZone field: bits 0)."""
    f = image_type & 0x3F
    f |= (subtype & 3) << 6
    if tz is not None:
        f |= (tz & 3) << 13
    if hw_key:
        f |= 0x1000
    if key_store:
        f |= 0x8000
    if reloc:
        f |= 0x800
    if image_version and version_in_flags:
        f |= 0x400 | ((image_version & 0xFFFF) << 16)
    return f


# --------------------------------------------------------------------------------- root hashes
def _minimal(v):
    return v.to_bytes(max(1, (v.bit_length() + 7) // 8), "big")


def rkh_rsa(n, e):
    """SHA-256(modulus || exponent), both minimal big-endian."""
    return hashlib.sha256(_minimal(n) + _minimal(e)).digest()


def rkh_ecc(x, y, size):
    """SHA-256 / SHA-384 of fixed-width X || Y."""
    alg = {32: "sha256", 48: "sha384"}[size]
    return hashlib.new(alg, x.to_bytes(size, "big") + y.to_bytes(size, "big")).digest()


def rkth_v1(hashes):
    """hashes: up to four 32-byte values or None; table = 4 x 32 B zero padded; RKTH = SHA-256(table)."""
    table = b"".join((h if h else bytes(32)) for h in (list(hashes) + [None] * 4)[:4])
    return hashlib.sha256(table).digest()


def rkth_v21(hashes):
    """One key: its hash.  More: hash of the concatenated table (algorithm by hash length)."""
    hashes = list(hashes)
    if len(hashes) == 1:
        return hashes[0]
    alg = {32: "sha256", 48: "sha384"}[len(hashes[0])]
    return hashlib.new(alg, b"".join(hashes)).digest()


# ------------------------------------------------------------------------------------- X.509
def x509_parts(der):
    """(tbs bytes, signature algorithm name, hash name, signature bytes, (n, e), is_ca) of a DER certificate (RSA).

    In a certificate block the DER encoding is zero padded to a multiple of four bytes."""
    from asn1crypto import x509

    try:
        cert = x509.Certificate.load(bytes(der), strict=False)
        tbs = cert["tbs_certificate"].dump()
        sig_alg = cert["signature_algorithm"].signature_algo
        hash_alg = cert["signature_algorithm"].hash_algo
        sig = cert["signature_value"].native
        pk = cert["tbs_certificate"]["subject_public_key_info"]
        if pk["algorithm"]["algorithm"].native != "rsa":
            raise Reject("certificate key is not RSA")
        key = pk["public_key"].parsed
        n, e = key["modulus"].native, key["public_exponent"].native
        ca = bool(cert.ca)
        pad = bytes(der[len(cert.dump()):])
        if len(pad) > 3 or any(pad):
            raise Reject("certificate entry is longer than its DER encoding padded to 4")
    except Reject:
        raise
    except Exception as exc:  # malformed DER
        raise Reject(f"certificate does not parse: {type(exc).__name__}") from None
    return tbs, sig_alg, hash_alg, sig, (n, e), ca


def _modlen(n):
    return (n.bit_length() + 7) // 8


# ------------------------------------------------------------------------------ cert block v1
def parse_cert_v1(data, off):
    """Walk a certificate block v1 at ``off``.  Returns dict(header fields, certs, table, end)."""
    if off + 32 > len(data):
        raise Reject("certificate block header beyond the image")
    magic, major, minor, hlen, flags, build, image_length, count, table_len = struct.unpack_from("<4s2H6I", data, off)
    if magic != b"cert":
        raise Reject(f"no 'cert' magic at {off:#x}")
    if (major, minor) != (1, 0) or hlen != 32:
        raise Reject("certificate block header version/length")
    if count < 1 or count > 4:
        raise Reject(f"certificate count {count}")
    p = off + 32
    certs = []
    for _ in range(count):
        if p + 4 > len(data):
            raise Reject("certificate table truncated")
        ln = _u32(data, p)
        p += 4
        if ln == 0 or p + ln > len(data):
            raise Reject("certificate entry beyond the image")
        certs.append((p, ln))
        p += ln
    if p - (off + 32) != table_len:
        raise Reject(f"certificate table length {table_len} != walked {p - off - 32}")
    table_off = p
    if table_off + 128 > len(data):
        raise Reject("root key hash table beyond the image")
    end = table_off + 128
    end = off + ((end - off + 3) // 4) * 4   # the block is padded to a multiple of 4 in an MBI
    return {"off": off, "flags": flags, "build": build, "image_length": image_length, "count": count,
            "certs": certs, "table_off": table_off, "end": end}


def verify_cert_v1(data, cb, rkth):
    """Chain walk + root key hash table.  Returns (n, e) of the key that signs the image."""
    keys = []
    prev = None
    for i, (p, ln) in enumerate(cb["certs"]):
        tbs, sig_alg, hash_alg, sig, key, ca = x509_parts(data[p:p + ln])
        if sig_alg != "rsassa_pkcs1v15":
            raise Reject(f"certificate {i}: signature algorithm {sig_alg}")
        signer = key if i == 0 else prev
        if not rsa.verify_pkcs1v15(signer[0], signer[1], tbs, sig, hash_alg):
            raise Reject(f"certificate {i}: signature does not verify under {'itself' if i == 0 else 'its parent'}")
        keys.append(key)
        prev = key
    table = data[cb["table_off"]:cb["table_off"] + 128]
    root_hash = rkh_rsa(*keys[0])
    slots = [table[i:i + 32] for i in range(0, 128, 32)]
    if root_hash not in slots:
        raise Reject("root key hash is not in the embedded table")
    if rkth is not None and hashlib.sha256(table).digest() != bytes(rkth):
        raise Reject("SHA-256(root key hash table) != RKTH anchor")
    return keys[-1], slots.index(root_hash)


# ---------------------------------------------------------------------------- cert block v2.1
def parse_cert_v21(data, off):
    if off + 12 > len(data):
        raise Reject("chdr header beyond the image")
    magic, minor, major, size = struct.unpack_from("<4s2HL", data, off)
    if magic != b"chdr":
        raise Reject(f"no 'chdr' magic at {off:#x}")
    if (major, minor) != (2, 1):
        raise Reject(f"certificate block version {major}.{minor}")
    p = off + 12
    rec_off = p
    flags = _u32(data, p)
    p += 4
    curve = flags & 0xF
    if curve not in CURVES:
        raise Reject(f"root key record curve nibble {curve}")
    cname, csize, chash = CURVES[curve]
    count = (flags >> 4) & 0xF
    used = (flags >> 8) & 0xF
    ca = bool(flags & 0x80000000)
    if flags & 0x7FFFF000:
        raise Reject("root key record: reserved flag bits set")
    if not 1 <= count <= 4 or used >= count:
        raise Reject(f"root key record: count {count}, used {used}")
    table = []
    if count > 1:
        for _ in range(count):
            table.append(bytes(data[p:p + csize]))
            p += csize
    root_xy_off = p
    root_xy = bytes(data[p:p + 2 * csize])
    p += 2 * csize
    if p > len(data):
        raise Reject("root key record beyond the image")
    rec_end = p
    out = {"off": off, "size": size, "rec_off": rec_off, "rec_end": rec_end, "flags": flags, "curve": cname,
           "csize": csize, "hash": chash, "count": count, "used": used, "ca": ca, "table": table,
           "root_xy": root_xy, "root_xy_off": root_xy_off, "isk": None}
    if not ca:
        isk_off = p
        if p + 12 > len(data):
            raise Reject("ISK certificate beyond the image")
        sig_off, constraints, iflags = struct.unpack_from("<3L", data, p)
        icurve = iflags & 0xF
        if icurve not in CURVES:
            raise Reject(f"ISK curve nibble {icurve}")
        if iflags & 0x7FFFFFF0:
            raise Reject("ISK certificate: reserved flag bits set")
        iname, isize, ihash = CURVES[icurve]
        key_off = p + 12
        ud_off = key_off + 2 * isize
        ud_len = sig_off - 12 - 2 * isize
        if ud_len < 0:
            raise Reject("ISK signature offset inside the key")
        if bool(iflags & 0x80000000) != (ud_len > 0):
            raise Reject("ISK user-data flag disagrees with the signature offset")
        isk_sig_off = p + sig_off
        isk_end = isk_sig_off + 2 * csize
        if isk_end > len(data):
            raise Reject("ISK certificate signature beyond the image")
        out["isk"] = {"off": isk_off, "sig_off": isk_sig_off, "end": isk_end, "constraints": constraints,
                      "curve": iname, "csize": isize, "hash": ihash, "xy": bytes(data[key_off:key_off + 2 * isize]),
                      "user_data": bytes(data[ud_off:ud_off + ud_len])}
        p = isk_end
    out["end"] = p
    if size != p - off:
        raise Reject(f"chdr size {size} != walked {p - off}")
    return out


def _xy(raw, size):
    return int.from_bytes(raw[:size], "big"), int.from_bytes(raw[size:], "big")


def verify_cert_v21(data, cb, rkth):
    """Root key record + ISK certificate.  Returns (curve, (x, y), csize, hashname) of the image-signing key."""
    csize, chash = cb["csize"], cb["hash"]
    root_hash = hashlib.new(chash, cb["root_xy"]).digest()
    if cb["count"] > 1:
        if cb["table"][cb["used"]] != root_hash:
            raise Reject("hash of the root public key is not at its slot of the table")
        value = hashlib.new(chash, b"".join(cb["table"])).digest()
    else:
        value = root_hash
    if rkth is not None and value != bytes(rkth):
        raise Reject("root key table hash != RKTH anchor")
    root = _xy(cb["root_xy"], csize)
    if not ecdsa.on_curve(cb["curve"], *root):
        raise Reject("root public key is not on its curve")
    if cb["isk"] is None:
        return cb["curve"], root, csize, chash
    isk = cb["isk"]
    tbs = bytes(data[cb["rec_off"]:cb["rec_end"]]) + bytes(data[isk["off"]:isk["sig_off"]])
    r, s = ecdsa.raw_decode_sig(data[isk["sig_off"]:isk["end"]], csize)
    if not ecdsa.verify_message(cb["curve"], root, tbs, r, s, chash):
        raise Reject("ISK certificate signature does not verify under the selected root key")
    ixy = _xy(isk["xy"], isk["csize"])
    if not ecdsa.on_curve(isk["curve"], *ixy):
        raise Reject("ISK public key is not on its curve")
    return isk["curve"], ixy, isk["csize"], isk["hash"]


# ---------------------------------------------------------------------------------- the walk
def _strip_hmac(data, hdr, prof):
    """Return (image without the HMAC/key-store block, size of the removed block)."""
    if hdr["type"] not in prof.hmac_types:
        return bytes(data), 0
    blk = HMAC_SIZE + (KEY_STORE_SIZE if hdr["key_store"] else 0)
    if len(data) < HMAC_OFFSET + blk:
        raise Reject("image too short for the HMAC / key-store block")
    return bytes(data[:HMAC_OFFSET]) + bytes(data[HMAC_OFFSET + blk:]), blk


def walk(data, prof):
    """Derive the layout from the bytes (no cryptography).  Returns a Report with regions in FILE offsets."""
    data = bytes(data)
    rep = Report()
    if prof.kind == "bare":
        rep.derived_length = len(data)
        rep.add("image", 0, len(data), "free")
        return rep
    if prof.kind == "bca_crc":
        if len(data) < VX_DATA:
            raise Reject("image does not reach the CRC start 0xC00")
        rep.derived_length = len(data)
        rep.add("header area", 0, VX_BCA + 4, "free")
        rep.add("bca crc fields", VX_BCA + 4, VX_BCA + 0x10, "field")
        rep.add("rest of header area", VX_BCA + 0x10, VX_DATA, "free")
        rep.add("application", VX_DATA, len(data), "auth")
        return rep
    if prof.kind == "vx":
        if len(data) < VX_DATA:
            raise Reject("image does not reach the data start 0xC00")
        rep.derived_length = len(data)
        rep.add("vectors", 0, VX_DIGEST, "auth")
        rep.add("digest", VX_DIGEST, VX_SIG, "field")
        rep.add("signature", VX_SIG, VX_BCA, "field")
        rep.add("bca", VX_BCA, VX_FCF, "auth")
        rep.add("fcf", VX_FCF, VX_ISK, "free")
        rep.add("isk certificate", VX_ISK, VX_ISK + VX_ISK_CERT_SIZE, "field")
        rep.add("gap", VX_ISK + VX_ISK_CERT_SIZE, VX_ISK_HASH, "free")
        rep.add("isk hash", VX_ISK_HASH, VX_ISK_HASH + 16, "isk_hash")
        rep.add("wpc/duk area", VX_ISK_HASH + 16, VX_DATA, "free")
        rep.add("application", VX_DATA, len(data), "auth")
        rep.signed = data[:VX_DIGEST] + data[VX_BCA:VX_FCF] + data[VX_DATA:]
        return rep

    hdr = rep.header = decode_header(data)
    t = hdr["type"]
    if t == T_PLAIN:
        rep.derived_length = len(data)
        rep.add("image", 0, len(data), "free")
        return rep
    if t in CRC_TYPES:
        rep.derived_length = len(data)
        rep.add("image", 0, W_CRC_CERT, "auth")
        rep.add("crc word", W_CRC_CERT, W_CRC_CERT + 4, "field")
        rep.add("image", W_CRC_CERT + 4, len(data), "auth")
        return rep
    if t not in SIGNED_TYPES or prof.cert is None:
        raise Reject(f"image type {t} is not bootable on this device")

    img, blk = _strip_hmac(data, hdr, prof)     # coordinates of `img` = file coordinates minus the block after 0x40
    rep.info["hmac_block"] = blk

    def f(o):  # img offset of the START of a part -> file offset
        return o if o < HMAC_OFFSET or not blk else o + blk

    cert_off = hdr["word28"]
    if cert_off < 0x38 or cert_off % 4 or cert_off >= len(img):
        raise Reject(f"certificate block offset {cert_off:#x} outside the image")
    if blk and cert_off < HMAC_OFFSET:  # the HMAC block inserted at 0x40 would split the certificate block
        raise Reject("certificate block starts before the HMAC offset 0x40")
    tz_len = prof.tz_size if hdr["tz"] == TZ_CUSTOM else 0
    if hdr["tz"] == 3:
        raise Reject("TrustZone type 3 is undefined")

    if prof.cert == "v1":
        cb = parse_cert_v1(img, cert_off)
        rep.info["cert"] = cb
        p = cb["end"]
        enc = t == T_ENC_RAM
        if enc:
            rep.info["enc_ivt_off"] = p
            rep.info["iv_off"] = p + ENC_IVT_COPY
            p += ENC_IVT_COPY + IV_SIZE
        rep.info["tz_off"] = p if tz_len else None
        p += tz_len
        sig_off = p
        # signature length = modulus length of the key that verifies it (the last certificate)
        lp, ll = cb["certs"][-1]
        n, _e = x509_parts(img[lp:lp + ll])[4]
        sig_len = _modlen(n)
        if sig_off + sig_len > len(img):
            raise Reject("signature beyond the image")
        rep.sig_offset, rep.sig_len = sig_off, sig_len
        rep.signed = img[:sig_off]
        rep.derived_length = sig_off + sig_len + blk
        rep.info["img"] = img
        # regions (file coordinates)
        if blk:
            rep.add("ivt", 0, HMAC_OFFSET, "auth")
            rep.add("hmac", HMAC_OFFSET, HMAC_OFFSET + HMAC_SIZE, "field")
            rep.add("key store", HMAC_OFFSET + HMAC_SIZE, HMAC_OFFSET + blk, "free")
            rep.add("application", HMAC_OFFSET + blk, f(cert_off), "auth")
        else:
            rep.add("application", 0, cert_off, "auth")
        rep.add("cert header", f(cert_off), f(cert_off) + 32, "auth")
        rep.add("certificates", f(cert_off) + 32, f(cb["table_off"]), "auth")
        rep.add("rkh table", f(cb["table_off"]), f(cb["table_off"]) + 128, "auth")
        if enc:
            rep.add("encrypted ivt copy", f(rep.info["enc_ivt_off"]), f(rep.info["iv_off"]), "auth")
            rep.add("iv", f(rep.info["iv_off"]), f(rep.info["iv_off"]) + IV_SIZE, "auth")
        if tz_len:
            rep.add("trustzone", f(rep.info["tz_off"]), f(rep.info["tz_off"]) + tz_len, "auth")
        rep.add("signature", f(sig_off), f(sig_off) + sig_len, "field")
        return rep

    # cert block v2.1 + manifest
    cb = parse_cert_v21(img, cert_off)
    rep.info["cert"] = cb
    m_off = cb["end"]
    if m_off + 20 > len(img):
        raise Reject("manifest beyond the image")
    magic, version, fw_version, m_len, m_flags = struct.unpack_from("<4s4L", img, m_off)
    if magic != b"imgm":
        raise Reject(f"no 'imgm' magic directly after the certificate block ({m_off:#x})")
    if version != 0x00010000:
        raise Reject(f"manifest version {version:#x}")
    extra = m_len - 20 - (4 if prof.manifest == "crc" else 0)
    if extra not in (0, prof.tz_size) or (extra and not prof.tz_size):
        raise Reject(f"manifest total length {m_len} fits neither with nor without a TrustZone block")
    if (extra > 0) != (hdr["tz"] == TZ_CUSTOM):
        raise Reject("TrustZone flag bits disagree with the manifest contents")
    if prof.manifest != "digest" and m_flags:
        raise Reject(f"manifest flags {m_flags:#x} on a device without digest support")
    digest_alg = None
    if m_flags:
        if not m_flags & 0x80000000 or (m_flags & 0x7FFFFFF0) or (m_flags & 0xF) not in DIGEST_ALGS:
            raise Reject(f"manifest flags {m_flags:#x}")
        digest_alg = DIGEST_ALGS[m_flags & 0xF]
    sig_off = m_off + m_len
    signer = cb["isk"] or cb
    sig_len = 2 * signer["csize"]
    if sig_off + sig_len > len(img):
        raise Reject("signature beyond the image")
    dg_len = hashlib.new(digest_alg).digest_size if digest_alg else 0
    rep.sig_offset, rep.sig_len = sig_off, sig_len
    rep.signed = img[:sig_off]
    rep.derived_length = sig_off + sig_len + dg_len
    rep.info.update({"img": img, "manifest_off": m_off, "manifest_len": m_len, "fw_version": fw_version,
                     "manifest_flags": m_flags, "digest_alg": digest_alg, "tz_off": m_off + 20 if extra else None})
    rep.add("application", 0, cert_off, "auth")
    rep.add("chdr + root key record", cert_off, cb["rec_end"], "auth")
    if cb["isk"]:
        rep.add("isk certificate", cb["isk"]["off"], cb["isk"]["sig_off"], "auth")
        rep.add("isk signature", cb["isk"]["sig_off"], cb["isk"]["end"], "auth")
    rep.add("manifest", m_off, sig_off, "auth")
    rep.add("signature", sig_off, sig_off + sig_len, "field")
    rep.add("digest", sig_off + sig_len, sig_off + sig_len + dg_len, "field")
    return rep


# --------------------------------------------------------------------------------- acceptance
def hmac_key(user_key):
    return modes.ecb_encrypt(bytes(user_key), bytes(16))


def image_key(user_key, key_store_present):
    """AES-CTR key of an encrypted image: derived from the OTP master key unless a key store is used."""
    if key_store_present:
        return bytes(user_key)
    return modes.ecb_encrypt(bytes(user_key), bytes([1] + [0] * 15 + [2] + [0] * 15))


def check_crc(data):
    data = bytes(data)
    want = crcs.crc32_mpeg2(data[:W_CRC_CERT] + data[W_CRC_CERT + 4:])
    if want != _u32(data, W_CRC_CERT):
        raise Reject(f"CRC word {_u32(data, W_CRC_CERT):#010x} != CRC-32/MPEG-2 of the image without it {want:#010x}")


def accept(data, prof, rkth=None, user_key=None, root_xy=None, key_source=None):
    """Full ROM acceptance.  Raises Reject(reason); returns the Report of ``walk`` with crypto results added.

    ``key_source``: "otp" | "keystore" - where the device takes the image key from (device state, not in the
    image); None = key store exactly when the image carries one."""
    data = bytes(data)
    rep = walk(data, prof)
    if prof.kind == "bare":
        return rep
    if prof.kind == "bca_crc":
        start, count, want = struct.unpack_from("<3I", data, VX_BCA + 4)
        if start != VX_DATA:
            raise Reject(f"BCA crcStartAddress {start:#x} != 0xC00")
        if count != len(data) - VX_DATA:
            raise Reject(f"BCA crcByteCount {count} != {len(data) - VX_DATA}")
        got = crcs.crc32_mpeg2(data[start:start + count])
        if got != want:
            raise Reject(f"BCA expected CRC {want:#010x} != CRC-32/MPEG-2 of [0xC00, end) {got:#010x}")
        return rep
    if prof.kind == "vx":
        return _accept_vx(data, rep, root_xy)

    hdr = rep.header
    if hdr["total_length"] != rep.derived_length and not (hdr["type"] == T_PLAIN):
        raise Reject(f"length word {hdr['total_length']:#x} != length of the parts found {rep.derived_length:#x}")
    if hdr["type"] != T_PLAIN and rep.derived_length != len(data):
        raise Reject(f"file length {len(data):#x} != length of the parts found {rep.derived_length:#x}")
    t = hdr["type"]
    if t == T_PLAIN:
        return rep
    if t in CRC_TYPES:
        check_crc(data)
        return rep

    img = rep.info["img"]
    blk = rep.info["hmac_block"]
    if blk:
        if user_key is None:
            raise Reject("no user key to check the HMAC with")
        want = _hmac.new(hmac_key(user_key), data[:HMAC_OFFSET], hashlib.sha256).digest()
        if want != data[HMAC_OFFSET:HMAC_OFFSET + HMAC_SIZE]:
            raise Reject("HMAC-SHA-256 over the first 64 bytes does not match the field at 0x40")
    elif hdr["key_store"]:
        raise Reject("key-store flag on an image type without the HMAC / key-store block")
    cb = rep.info["cert"]
    sig = img[rep.sig_offset:rep.sig_offset + rep.sig_len]
    if prof.cert == "v1":
        if cb["image_length"] != rep.sig_offset:
            raise Reject(f"cert block image_length {cb['image_length']:#x} != offset of the signature {rep.sig_offset:#x}")
        (n, e), slot = verify_cert_v1(img, cb, rkth)
        rep.info["root_slot"] = slot
        if not rsa.verify_pkcs1v15(n, e, rep.signed, sig, "sha256"):
            raise Reject("PKCS#1 v1.5 / SHA-256 image signature does not verify under the last certificate")
        if t == T_ENC_RAM:
            if user_key is None:
                raise Reject("no user key to decrypt with")
            eo, io = rep.info["enc_ivt_off"], rep.info["iv_off"]
            tz_off = rep.info["tz_off"]
            stream = img[eo:eo + ENC_IVT_COPY] + img[ENC_IVT_COPY:hdr["word28"]]
            if tz_off is not None:
                stream += img[tz_off:tz_off + prof.tz_size]
            iv = img[io:io + IV_SIZE]
            use_ks = hdr["key_store"] if key_source is None else key_source == "keystore"
            plain = modes.ctr_crypt(image_key(user_key, use_ks), iv, stream)
            for w in RESERVED_WORDS:
                if plain[w:w + 4] != data[w:w + 4]:
                    raise Reject(f"decrypted header word {w:#x} differs from the plain header word of the image")
            rep.plaintext = plain
            rep.info["iv"] = iv
        return rep

    curve, pub, csize, hname = verify_cert_v21(img, cb, rkth)
    r, s = ecdsa.raw_decode_sig(sig, csize)
    if not ecdsa.verify_message(curve, pub, rep.signed, r, s, hname):
        raise Reject("ECDSA image signature does not verify under the ISK / root key")
    if prof.manifest == "crc":
        mo, ml = rep.info["manifest_off"], rep.info["manifest_len"]
        want = crcs.crc32_mpeg2(img[:mo + ml - 4])
        if want != _u32(img, mo + ml - 4):
            raise Reject("manifest CRC != CRC-32/MPEG-2 of the image up to the CRC field")
    alg = rep.info["digest_alg"]
    if alg:
        if alg != hname:
            raise Reject(f"manifest digest algorithm {alg} does not match the signing key's hash {hname}")
        dg = img[rep.sig_offset + rep.sig_len:]
        if hashlib.new(alg, rep.signed).digest() != dg:
            raise Reject("appended digest != hash of the signed bytes")
    return rep


def _accept_vx(data, rep, root_xy):
    tbs = rep.signed
    if hashlib.sha256(tbs).digest() != data[VX_DIGEST:VX_SIG]:
        raise Reject("SHA-256 of the to-be-signed bytes != digest at 0x360")
    length, fwv = struct.unpack_from("<2I", data, VX_BCA + 0x20)
    rep.info["fw_version"] = fwv
    if length != len(tbs):
        raise Reject(f"BCA image length {length:#x} != length of the to-be-signed bytes {len(tbs):#x}")
    cert = data[VX_ISK:VX_ISK + VX_ISK_CERT_SIZE]
    magic, version, constraints = struct.unpack_from("<HHI", cert, 0)
    if magic != 0x4D43 or version != 1:
        raise Reject("ISK certificate magic / version")
    rep.info["constraints"] = constraints
    ixy = _xy(cert[8:72], 32)
    if not ecdsa.on_curve("p256", *ixy):
        raise Reject("ISK public key is not on P-256")
    if root_xy is not None:
        r, s = ecdsa.raw_decode_sig(cert[72:136], 32)
        if not ecdsa.verify_message("p256", tuple(root_xy), cert[:72], r, s, "sha256"):
            raise Reject("ISK certificate signature does not verify under the root key")
    r, s = ecdsa.raw_decode_sig(data[VX_SIG:VX_BCA], 32)
    if not ecdsa.verify_message("p256", ixy, tbs, r, s, "sha256"):
        raise Reject("ECDSA image signature does not verify under the ISK")
    rep.info["isk_hash_ok"] = hashlib.sha256(cert).digest()[:16] == data[VX_ISK_HASH:VX_ISK_HASH + 16]
    rep.info["isk_hash"] = hashlib.sha256(cert).digest()[:16]
    return rep


# ------------------------------------------------------------------------ relocation table walk
def split_reloc(app_area):
    """app_area = application || images || entries || header.  Returns (application, [(dst, bytes, flags)]) or None."""
    d = bytes(app_area)
    if len(d) < 16:
        return None
    marker, version, n, ptr = struct.unpack_from("<4I", d, len(d) - 16)
    if marker != RELOC_MARKER or version != 0 or n == 0 or ptr + 16 * n + 16 != len(d):
        return None
    entries = []
    first = None
    for i in range(n):
        src, dst, size, flags = struct.unpack_from("<4I", d, ptr + 16 * i)
        if src + size > ptr:
            return None
        entries.append((dst, d[src:src + size], flags))
        first = src if first is None else min(first, src)
    return d[:first], entries


# ------------------------------------------------------------------------------------ selftest
def load_public(path):
    """Public numbers of a certificate / public key file (PEM or DER) without spsdk: ('rsa', n, e) | ('ecc', size, x, y)."""
    from asn1crypto import keys, pem, x509

    with open(path, "rb") as fh:
        raw = fh.read()
    if pem.detect(raw):
        _name, _hdrs, raw = pem.unarmor(raw)
    try:
        spki = x509.Certificate.load(raw)["tbs_certificate"]["subject_public_key_info"]
        spki.native  # force parsing
    except Exception:  # not a certificate: SubjectPublicKeyInfo
        spki = keys.PublicKeyInfo.load(raw)
    if spki["algorithm"]["algorithm"].native == "rsa":
        k = spki["public_key"].parsed
        return ("rsa", k["modulus"].native, k["public_exponent"].native)
    point = bytes(spki["public_key"].native)
    assert point[0] == 4
    size = (len(point) - 1) // 2
    return ("ecc", size, int.from_bytes(point[1:1 + size], "big"), int.from_bytes(point[1 + size:], "big"))


def selftest(tests_root):
    """Accept third-party (elftosb / NXP tool) golden MBIs of the repository's test data with their keys.

    Returns {"accepted": n, "flips_rejected": n, "classes": {...}}; raises AssertionError naming the golden."""
    import os

    idata = os.path.join(tests_root, "image", "mbi", "data")
    ikeys = os.path.join(idata, "keys_and_certs")
    ws = os.path.join(tests_root, "nxpimage", "data", "workspace")
    sbk = os.path.join(tests_root, "nxpimage", "data", "sb_sources", "keys_and_certs")
    out = os.path.join(ws, "output_images")
    kc = os.path.join(ws, "keys_certs")
    if not os.path.isdir(idata) or not os.path.isdir(out):
        raise AssertionError(f"golden directories missing under {tests_root}")
    user_key = bytes.fromhex("E39FD7AB61AE6DDDA37158A0FC3008C6D61100A03C7516EA1BE55A39F546BAD5")
    with open(os.path.join(ws, "keys", "userkey.txt"), encoding="utf-8") as fh:
        ws_user_key = bytes.fromhex(fh.read().strip())

    def rd(p):
        with open(p, "rb") as fh:
            return fh.read()

    def rsa_anchor(files, base):
        hs = []
        for f in files:
            if f is None:
                hs.append(None)
            else:
                _k, n, e = load_public(os.path.join(base, f))
                hs.append(rkh_rsa(n, e))
        return rkth_v1(hs)

    def ecc_anchor(files):
        hs = []
        for f in files:
            _k, size, x, y = load_public(os.path.join(kc, f))
            hs.append(rkh_ecc(x, y, size))
        return rkth_v21(hs)

    counts = {}
    flips = 0
    accepted = 0

    def run(tag, path, prof, flip=True, **kw):
        nonlocal flips, accepted
        data = rd(path)
        try:
            rep = accept(data, prof, **kw)
        except Reject as exc:
            raise AssertionError(f"golden {os.path.relpath(path, tests_root)} rejected: {exc.args[0]}") from None
        accepted += 1
        counts[tag] = counts.get(tag, 0) + 1
        if flip:  # the model must notice one flipped bit in the middle of every protected region
            for name, s, e, kind in rep.regions:
                if kind not in ("auth", "field"):
                    continue
                for pos in {s, (s + e) // 2, e - 1}:
                    mod = bytearray(data)
                    mod[pos] ^= 0x10
                    try:
                        accept(bytes(mod), prof, **kw)
                    except Reject:
                        flips += 1
                        continue
                    except Exception as exc:  # pylint: disable=broad-except
                        raise AssertionError(f"model crashed on a flipped golden ({name}@{pos:#x}): {exc!r}") from None
                    raise AssertionError(f"flip in region '{name}' at {pos:#x} of {os.path.basename(path)} accepted")
        return rep

    ivt = Profile("ivt")
    # 1. CRC images (elftosb "legacy" goldens and the tests/image/mbi set)
    for root, _d, files in sorted(os.walk(idata)):
        for fn in sorted(files):
            if "_crc_" in fn and fn.endswith("_mbi.bin"):
                run("crc", os.path.join(root, fn), ivt)
    for fam in ("lpc55s1x", "lpc55s6x", "rt5xx"):
        for fn in sorted(os.listdir(os.path.join(out, fam))):
            if "_crc" in fn and fn.endswith("_legacy.bin"):
                run("crc", os.path.join(out, fam, fn), ivt)
    # 2. certificate block v1, XIP (rt6xx): key sizes, several roots, chains
    v1 = Profile("ivt", cert="v1", hmac_types=(T_SIGNED_RAM, T_ENC_RAM), tz_size=0)
    for bits in ("2048", "3072", "4096"):
        run("v1-xip", os.path.join(idata, f"evkmimxrt685_testnormal_xip_signed{bits}_no_tz_mbi.bin"), v1,
            rkth=rsa_anchor([f"selfsign_{bits}_v3.der.crt"], ikeys))
    c4, c3, c2 = "selfsign_4096_v3.der.crt", "selfsign_3072_v3.der.crt", "selfsign_2048_v3.der.crt"
    run("v1-roots", os.path.join(idata, "evkmimxrt685_testnormal_xip_3_certs_no_tz_mbi.bin"), v1, rkth=rsa_anchor([c4, c3, c2], ikeys))
    run("v1-roots", os.path.join(idata, "evkmimxrt685_testnormal_xip_4_certs_no_tz_mbi.bin"), v1, rkth=rsa_anchor([c4, c3, c2, c3], ikeys))
    run("v1-roots", os.path.join(idata, "evkmimxrt685_testnormal_xip_2_certs_no_tz_mbi.bin"), v1, rkth=rsa_anchor([c4, None, None, c2], ikeys))
    run("v1-chain", os.path.join(idata, "evkmimxrt685_testnormal_xip_chain_2_no_tz_mbi.bin"), v1, rkth=rsa_anchor(["ca0_v3.der.crt"], ikeys))
    run("v1-chain", os.path.join(idata, "evkmimxrt685_testnormal_xip_chain_3_no_tz_mbi.bin"), v1, rkth=rsa_anchor(["ca0_v3.der.crt"], ikeys))
    # 3. HMAC / key store / encrypted
    a2048 = rsa_anchor([c2], ikeys)
    run("v1-hmac", os.path.join(idata, "evkmimxrt685_testnormal_ram_signed2048_no_tz_mbi.bin"), v1, rkth=a2048, user_key=user_key)
    run("v1-hmac-ks", os.path.join(idata, "evkmimxrt685_testnormal_ram_key_store_signed2048_no_tz_mbi.bin"), v1, rkth=a2048, user_key=user_key)
    app = rd(os.path.join(idata, "normal_boot.bin"))
    app += bytes(-len(app) % 4)
    for fn, src in (("none_keystore", "keystore"), ("otp", "otp"), ("keystore", "keystore")):
        p = os.path.join(idata, f"evkmimxrt685_testnormal_ram_encrypted2048_{fn}_no_tz_mbi.bin")
        rep = run("v1-encrypted", p, v1, rkth=a2048, user_key=user_key, key_source=src)
        plain = bytearray(rep.plaintext)
        for w in RESERVED_WORDS:
            plain[w:w + 4] = app[w:w + 4]
        if bytes(plain) != app:
            raise AssertionError(f"golden {os.path.basename(p)}: decrypted stream is not the application")
    # 4. elftosb goldens of the nxpimage workspace (4 roots, chain, HMAC + key store, encrypted)
    roots4 = [f"root_k{i}_signed_cert0_noca.der.cert" for i in range(4)]
    a4 = rsa_anchor(roots4, sbk)
    chain_roots = list(roots4)
    chain_roots[1] = "root_cert_0_ca_v3.der.crt"
    run("v1-xip", os.path.join(out, "lpc55s6x", "mb_xip_signed.bin"), v1, rkth=a4)
    run("v1-chain", os.path.join(out, "lpc55s6x", "mb_xip_signed_chain.bin"), v1, rkth=rsa_anchor(chain_roots, sbk))
    run("v1-xip", os.path.join(out, "lpc55s1x", "mb_xip_signed.bin"), v1, rkth=a4)
    run("v1-xip", os.path.join(out, "rt5xx", "mb_xip_signed_legacy.bin"), v1, rkth=a4)
    run("v1-hmac", os.path.join(out, "rt5xx", "mb_ram_signed_no_ks_legacy.bin"), v1, rkth=a4, user_key=ws_user_key)
    run("v1-hmac-ks", os.path.join(out, "rt5xx", "mb_ram_signed_ks_legacy.bin"), v1, rkth=a4, user_key=ws_user_key)
    run("v1-encrypted", os.path.join(out, "rt5xx", "mb_ram_encrypted_ks_legacy.bin"), v1, rkth=a4, user_key=ws_user_key)
    # 5. DSC classes
    run("bca-crc", os.path.join(out, "mc56f817xx", "mb_xip_crc.bin"), Profile("bca_crc"))
    _k, size, x, y = load_public(os.path.join(kc, "ec_secp256r1_sign_cert.pem"))
    for fn in ("mb_xip_signed.bin", "mb_xip_signed_no_hash.bin", "mb_xip_signed_oem_closed.bin"):
        run("vx", os.path.join(out, "mc56f818xx", fn), Profile("vx"), root_xy=(x, y))
    return {"accepted": accepted, "flips_rejected": flips, "classes": counts}


def selftest_v21(tests_root, tz_sizes):
    """Certificate block v2.1 goldens (made by NXP's tooling for the nxpimage tests); ``tz_sizes`` = {family dir: preset size}."""
    import os

    ws = os.path.join(tests_root, "nxpimage", "data", "workspace")
    out = os.path.join(ws, "output_images")
    kc = os.path.join(ws, "keys_certs")

    def anchor(curve, n=4):
        hs = []
        for i in range(n):
            _k, size, x, y = load_public(os.path.join(kc, f"ec_secp{curve}r1_cert{i}.pem"))
            hs.append(rkh_ecc(x, y, size))
        return rkth_v21(hs)

    n = 0
    for fam, manifest in (("mcxn9xx", "crc"), ("lpc55s3x", "digest"), ("kw45xx", "digest"), ("k32w1xx", "digest")):
        prof = Profile("ivt", cert="v21", manifest=manifest, tz_size=tz_sizes.get(fam, 0))
        for fn, curve in (("mb_xip_256_none.bin", "256"), ("mb_xip_384_256.bin", "384"), ("mb_xip_384_384.bin", "384")):
            p = os.path.join(out, fam, fn)
            if not os.path.exists(p):
                continue
            with open(p, "rb") as fh:
                data = fh.read()
            try:
                count = walk(data, prof).info["cert"]["count"]   # how many of the four key files the golden's table uses
                accept(data, prof, rkth=anchor(curve, count))
            except Reject as exc:
                raise AssertionError(f"golden {fam}/{fn} rejected: {exc.args[0]}") from None
            n += 1
    return {"accepted": n}


def build_reloc(start, entries):
    """Relocation block the format defines for ``entries`` = [(dst, image bytes)] placed at offset ``start``:
    images (each zero padded to 4) || 16-byte entries (src, dst, size, flags = 1 LOAD) || header (marker, 0, n, entries ptr)."""
    blob = b""
    recs = []
    src = start
    for dst, img in entries:
        padded = bytes(img) + bytes(-len(img) % 4)
        recs.append(struct.pack("<4I", src, dst & 0xFFFFFFFF, len(img), 1))
        blob += padded
        src += len(padded)
    return blob + b"".join(recs) + struct.pack("<4I", RELOC_MARKER, 0, len(recs), src)
