"""Independent model of a ROM loader for Secure Binary 3.1 containers (imports nothing from spsdk).

Written from the format description (DESIGN.md, Appendix A "SB 3.1" / "Cert blocks"), standard library
plus the pure-Python primitives of this package (AES/CBC/CMAC in ``modes``, textbook ECDSA in ``ecdsa``).

The loader is a *device*: what it knows beforehand is the device state, never anything from the tool
that built the file::

    img = load(data, rkth=<fused root key table hash>, pck=<part common key>,
               kdk_access_rights=<0..3>, encrypted=True)

It walks the file the way a loader has to - it *uses* the header fields to find things and then
checks that nothing is left over:

  block 0  = manifest (60 B) || hash(block 1) || certificate block v2.1 || signature
             manifest ``<4s2H3LQ4L16s``: "sbv3", minor 1, major 3, flags, block count, block size,
             timestamp (64 bit), firmware version, total length of block 0, image type (6 | 7),
             certificate block offset, description[16]
  cert blk = "chdr" minor 1 major 2 size || root key record || [ISK certificate]
             root key record: flags (CA 1<<31, used root <<8, count <<4, curve 1=P-256 2=P-384),
             table of count hashes (only if count > 1), root public key X||Y;
             hash(X||Y) must be entry [used root], RKTH = hash(table) (or hash(X||Y) for one key)
             must equal the fused value.
             ISK certificate (only when CA is clear): signature offset, constraints, flags
             (user data 1<<31 | curve), X||Y, user data, signature by the root key over
             root key record || ISK certificate[:signature offset].
  signature by the ISK (or by the root key when CA is set) over file[0 : signature offset];
             the curve of the signing key selects the hash (P-256/SHA-256, P-384/SHA-384) and
             with it block size 4+256+hash and the symmetric key length (128 / 256 bit).
  block i  = ``<L`` i (from 1) || hash(block i+1) || 256 payload bytes; hash(block i) must equal the
             value carried by its predecessor (block 0 for i = 1).  The field of the last block is
             not interpreted (there is no successor); it is covered by the block's own hash.
  payload  = AES-CBC(zero IV, block key i) of a 256-byte chunk when the device decrypts;
             KDK = KDF(PCK, timestamp, mode 1), block key = KDF(KDK, i, mode 2),
             KDF = AES-CMAC(key, label LE-12 || 8x00 || rights<<6 || 01|10 || 00 || 20|21 ||
             length BE-4 || iteration BE-4), iterations 1 (128 bit) or 1,2 (256 bit).
  stream   = section header ``<4L`` (uid 1, type 1, length, 0) || commands (length bytes) || zeros.
  command  = ``<4L`` 0x55AAAA55, word1, word2, tag (1..14) [|| 16-byte extension] [|| data padded to 16].

Every rejection raises :class:`Sb31Reject` (a ``RefReject``) with a stable ``code`` and a detail text.
"""
from __future__ import annotations

import functools
import hashlib
import struct
from typing import Any, Optional

from . import ecdsa, modes

try:  # the framework's exception type, so that run_case can treat all models alike
    from vf.core import RefReject
except Exception:  # pragma: no cover - stand-alone use

    class RefReject(Exception):  # type: ignore[no-redef]
        """A reference model rejects the artifact it was given."""


class Sb31Reject(RefReject):
    """The loader model refuses the container: ``code`` is stable, ``detail`` says what was seen."""

    def __init__(self, code: str, detail: str = "") -> None:
        super().__init__(f"{code}: {detail}" if detail else code)
        self.code = code
        self.detail = detail


MANIFEST_FMT = "<4s2H3LQ4L16s"
MANIFEST_SIZE = struct.calcsize(MANIFEST_FMT)
assert MANIFEST_SIZE == 60
CHUNK = 256
CMD_MARK = 0x55AAAA55
CURVE_BY_NIBBLE = {1: "p256", 2: "p384"}

# own table of the 14 command tags: name, layout
#   ext  : a 16-byte extension block follows the 16-byte header
#   data : "len" = data of word2 bytes follows, "words" = 4 * word2 bytes, "blob" = key blob header
#   tail : extra bytes after the (padded) data
COMMANDS: dict[int, dict[str, Any]] = {
    0x01: {"name": "erase", "ext": ("memory_id", 0, 0, 0)},
    0x02: {"name": "load", "ext": ("memory_id", 0, 0, 0), "data": "len"},
    0x03: {"name": "execute", "zero_len": True},
    0x04: {"name": "call", "zero_len": True},
    0x05: {"name": "programFuses", "data": "words"},
    0x06: {"name": "programIFR", "data": "len"},
    0x07: {"name": "loadCMAC", "ext": ("memory_id", 0, 0, 0), "data": "len"},
    0x08: {"name": "copy", "ext": ("destination_address", "memory_id_from", "memory_id_to", 0)},
    0x09: {"name": "loadHashLocking", "ext": ("memory_id", 0, 0, 0), "data": "len", "tail": 64},
    0x0A: {"name": "loadKeyBlob", "data": "blob"},
    0x0B: {"name": "configureMemory", "swap": ("memory_id", "address")},
    0x0C: {"name": "fillMemory", "ext": ("pattern", 0, 0, 0)},
    0x0D: {"name": "checkFwVersion", "swap": ("value", "counter_id")},
    0x0E: {"name": "reset", "zero_len": True, "zero_addr": True},
}
assert len(COMMANDS) == 14


# ------------------------------------------------------------------------------------------ KDF
def kdf_data(constant: int, rights: int, mode: int, key_bits: int, iteration: int) -> bytes:
    """Fixed input of one CMAC invocation of the counter-mode KDF (mode 1 = KDK, 2 = block key)."""
    if rights not in (0, 1, 2, 3) or key_bits not in (128, 256) or mode not in (1, 2):
        raise ValueError("kdf_data arguments out of range")
    return (
        constant.to_bytes(12, "little")
        + bytes(8)
        + bytes([rights << 6])
        + (b"\x01" if mode == 1 else b"\x10")
        + b"\x00"
        + (b"\x20" if key_bits == 128 else b"\x21")
        + key_bits.to_bytes(4, "big")
        + iteration.to_bytes(4, "big")
    )


def derive(key: bytes, constant: int, rights: int, mode: int, key_bits: int) -> bytes:
    out = modes.cmac(key, kdf_data(constant, rights, mode, key_bits, 1))
    if key_bits == 256:
        out += modes.cmac(key, kdf_data(constant, rights, mode, key_bits, 2))
    return out


def derive_kdk(pck: bytes, timestamp: int, rights: int, key_bits: int) -> bytes:
    return derive(pck, timestamp, rights, 1, key_bits)


def derive_block_key(kdk: bytes, block_number: int, rights: int, key_bits: int) -> bytes:
    return derive(kdk, block_number, rights, 2, key_bits)


# ---------------------------------------------------------------------------------------- ECDSA
@functools.lru_cache(maxsize=4096)
def _ecdsa_ok(curve: str, x: int, y: int, digest: bytes, r: int, s: int) -> bool:
    # a pure function of its arguments: memoised because bit-flip sweeps re-verify unchanged parts
    return bool(ecdsa.verify_digest(curve, (x, y), digest, r, s))


def _verify(curve: str, pub: bytes, message: bytes, signature: bytes) -> bool:
    c = ecdsa.get_curve(curve)
    if len(pub) != 2 * c.size or len(signature) != 2 * c.size:
        return False
    x, y = int.from_bytes(pub[: c.size], "big"), int.from_bytes(pub[c.size:], "big")
    r, s = int.from_bytes(signature[: c.size], "big"), int.from_bytes(signature[c.size:], "big")
    digest = hashlib.new(c.hashname, message).digest()
    return _ecdsa_ok(c.name, x, y, digest, r, s)


def rkth_of(curve: str, pubs: list[bytes]) -> bytes:
    """Root key table hash a device would have fused for these root public keys (X||Y each)."""
    c = ecdsa.get_curve(curve)
    hashes = [hashlib.new(c.hashname, p).digest() for p in pubs]
    if not 1 <= len(hashes) <= 4:
        raise ValueError("1..4 root keys")
    return hashes[0] if len(hashes) == 1 else hashlib.new(c.hashname, b"".join(hashes)).digest()


# ------------------------------------------------------------------------------------ cert block
def check_cert_block(data: bytes, base: int, rkth: bytes, regions: list) -> dict[str, Any]:
    """Authenticate the certificate block v2.1 at ``base``; returns its facts incl. the signing key."""
    if base + 12 > len(data):
        raise Sb31Reject("cert-block-truncated", f"no room for the header at {base}")
    magic, minor, major, size = struct.unpack_from("<4s2HL", data, base)
    if magic != b"chdr":
        raise Sb31Reject("cert-block-magic", repr(magic))
    if (major, minor) != (2, 1):
        raise Sb31Reject("cert-block-version", f"{major}.{minor}")
    if size < 16 or base + size > len(data):
        raise Sb31Reject("cert-block-size", f"size {size} at {base}, file {len(data)}")
    regions.append(("cert_header", base, base + 12))
    end = base + size
    p = base + 12
    (flags,) = struct.unpack_from("<L", data, p)
    nib = flags & 0xF
    if nib not in CURVE_BY_NIBBLE:
        raise Sb31Reject("root-record-curve", f"flags {flags:#x}")
    if flags & 0x7FFFF000:
        raise Sb31Reject("root-record-flags", f"undefined bits in {flags:#x}")
    root_curve = CURVE_BY_NIBBLE[nib]
    rc = ecdsa.get_curve(root_curve)
    count = (flags >> 4) & 0xF
    used = (flags >> 8) & 0xF
    ca = bool(flags >> 31)
    if not 1 <= count <= 4:
        raise Sb31Reject("root-record-count", str(count))
    if used >= count:
        raise Sb31Reject("root-record-used-index", f"used {used} of {count}")
    hl = hashlib.new(rc.hashname).digest_size
    q = p + 4
    table = b""
    if count > 1:
        table = data[q: q + count * hl]
        q += count * hl
    root_pub = data[q: q + 2 * rc.size]
    q += 2 * rc.size
    if q > end:
        raise Sb31Reject("cert-block-size", "root key record exceeds the block")
    if not ecdsa.on_curve(rc, int.from_bytes(root_pub[: rc.size], "big"), int.from_bytes(root_pub[rc.size:], "big")):
        raise Sb31Reject("root-key-not-on-curve", root_curve)
    h_root = hashlib.new(rc.hashname, root_pub).digest()
    if count > 1:
        if table[used * hl: (used + 1) * hl] != h_root:
            raise Sb31Reject("root-key-not-in-table", f"entry {used}")
        got_rkth = hashlib.new(rc.hashname, table).digest()
    else:
        got_rkth = h_root
    if got_rkth != bytes(rkth):
        raise Sb31Reject("rkth-mismatch", f"computed {got_rkth.hex()} fused {bytes(rkth).hex()}")
    record = data[p:q]
    regions.append(("root_key_record", p, q))
    out: dict[str, Any] = {
        "offset": base, "size": size, "flags": flags, "ca": ca, "root_count": count, "used_root": used,
        "root_curve": root_curve, "root_pub": root_pub, "rkth": got_rkth, "isk": None,
    }
    if ca:
        if q != end:
            raise Sb31Reject("cert-block-size", f"{end - q} bytes after the root key record of a CA block")
        out["sign_curve"], out["sign_pub"] = root_curve, root_pub
        return out
    # ISK certificate
    if q + 12 > end:
        raise Sb31Reject("isk-truncated", "no room for the ISK certificate header")
    sig_off, constraints, iflags = struct.unpack_from("<3L", data, q)
    inib = iflags & 0xF
    if inib not in CURVE_BY_NIBBLE:
        raise Sb31Reject("isk-curve", f"flags {iflags:#x}")
    if iflags & 0x7FFFFFF0:
        raise Sb31Reject("isk-flags", f"undefined bits in {iflags:#x}")
    isk_curve = CURVE_BY_NIBBLE[inib]
    ic = ecdsa.get_curve(isk_curve)
    fixed = 12 + 2 * ic.size
    has_ud = bool(iflags >> 31)
    if (has_ud and sig_off <= fixed) or (not has_ud and sig_off != fixed):
        raise Sb31Reject("isk-signature-offset", f"offset {sig_off}, fixed part {fixed}, user data flag {has_ud}")
    if q + sig_off + 2 * rc.size != end:
        raise Sb31Reject("cert-block-size", f"ISK certificate ends at {q + sig_off + 2 * rc.size}, block at {end}")
    isk_pub = data[q + 12: q + fixed]
    if not ecdsa.on_curve(ic, int.from_bytes(isk_pub[: ic.size], "big"), int.from_bytes(isk_pub[ic.size:], "big")):
        raise Sb31Reject("isk-key-not-on-curve", isk_curve)
    user_data = data[q + fixed: q + sig_off]
    isk_sig = data[q + sig_off: end]
    signed = record + data[q: q + sig_off]
    if not _verify(root_curve, root_pub, signed, isk_sig):
        raise Sb31Reject("isk-signature-invalid", f"root key {used} ({root_curve})")
    regions.append(("isk_certificate", q, q + sig_off))
    regions.append(("isk_signature", q + sig_off, end))
    out["isk"] = {
        "curve": isk_curve, "pub": isk_pub, "constraints": constraints, "flags": iflags, "user_data": user_data,
        "signature": isk_sig, "signed_data": signed,
    }
    out["sign_curve"], out["sign_pub"] = isk_curve, isk_pub
    return out


# -------------------------------------------------------------------------------------- commands
def decode_commands(stream: bytes) -> list[dict[str, Any]]:
    """Decode a command stream that must be consumed exactly."""
    cmds: list[dict[str, Any]] = []
    p = 0
    n = len(stream)
    while p < n:
        if p + 16 > n:
            raise Sb31Reject("command-truncated", f"{n - p} bytes left at {p}")
        mark, w1, w2, tag = struct.unpack_from("<4L", stream, p)
        if mark != CMD_MARK:
            raise Sb31Reject("command-marker", f"{mark:#010x} at {p}")
        spec = COMMANDS.get(tag)
        if spec is None:
            raise Sb31Reject("command-unknown-tag", f"{tag:#x} at {p}")
        cmd: dict[str, Any] = {"cmd": spec["name"], "offset": p}
        q = p + 16
        if "swap" in spec:
            cmd[spec["swap"][0]], cmd[spec["swap"][1]] = w1, w2
        elif spec.get("data") == "blob":
            # key blob header ``<L2H2L``: marker, offset (16 bit), key wrap id (16 bit), length, tag
            cmd["blob_offset"] = w1 & 0xFFFF
            cmd["key_wrap_id"] = w1 >> 16
            cmd["length"] = w2
        else:
            cmd["address"], cmd["length"] = w1, w2
            if spec.get("zero_len") and w2 != 0:
                raise Sb31Reject("command-reserved-nonzero", f"{spec['name']} length word {w2:#x}")
            if spec.get("zero_addr") and w1 != 0:
                raise Sb31Reject("command-reserved-nonzero", f"{spec['name']} address word {w1:#x}")
        if "ext" in spec:
            if q + 16 > n:
                raise Sb31Reject("command-truncated", f"{spec['name']} extension at {q}")
            words = struct.unpack_from("<4L", stream, q)
            for name, w in zip(spec["ext"], words):
                if name == 0:
                    if w != 0:
                        raise Sb31Reject("command-reserved-nonzero", f"{spec['name']} extension {words}")
                else:
                    cmd[name] = w
            q += 16
        kind = spec.get("data")
        if kind:
            ln = cmd["length"] * 4 if kind == "words" else cmd["length"]
            padded = (ln + 15) & ~15
            if q + padded > n:
                raise Sb31Reject("command-truncated", f"{spec['name']} data {ln} bytes at {q}, stream {n}")
            cmd["data"] = stream[q: q + ln]
            if any(stream[q + ln: q + padded]):
                raise Sb31Reject("command-padding-nonzero", f"{spec['name']} at {q + ln}")
            q += padded
        if "tail" in spec:
            if q + spec["tail"] > n:
                raise Sb31Reject("command-truncated", f"{spec['name']} tail at {q}")
            cmd["tail"] = stream[q: q + spec["tail"]]
            q += spec["tail"]
        cmd["size"] = q - p
        cmds.append(cmd)
        p = q
    return cmds


# ---------------------------------------------------------------------------------------- loader
def load(
    data: bytes,
    *,
    rkth: bytes,
    pck: Optional[bytes] = None,
    kdk_access_rights: int = 0,
    encrypted: bool = True,
    trust_total_length: bool = True,
) -> dict[str, Any]:
    """Process a whole container; returns what the loader learnt, raises Sb31Reject otherwise.

    ``trust_total_length=False`` is a *diagnostic* mode (used only after a rejection, to find out
    whether the "total length of block 0" field is the only thing wrong): the data blocks are then
    looked for right after the signature instead of where the manifest says.
    """
    data = bytes(data)
    regions: list[tuple[str, int, int]] = []
    if len(data) < MANIFEST_SIZE:
        raise Sb31Reject("manifest-truncated", f"{len(data)} bytes")
    (magic, minor, major, flags, block_count, block_size, timestamp, fw_version, total_length, image_type,
     cert_offset, description) = struct.unpack_from(MANIFEST_FMT, data, 0)
    if magic != b"sbv3":
        raise Sb31Reject("manifest-magic", repr(magic))
    if (major, minor) != (3, 1):
        raise Sb31Reject("manifest-version", f"{major}.{minor}")
    if block_size not in (4 + CHUNK + 32, 4 + CHUNK + 48):
        raise Sb31Reject("manifest-block-size", str(block_size))
    hl = block_size - 4 - CHUNK
    hname = {32: "sha256", 48: "sha384"}[hl]
    key_bits = {32: 128, 48: 256}[hl]
    if image_type not in (6, 7):
        raise Sb31Reject("manifest-image-type", str(image_type))
    if cert_offset != MANIFEST_SIZE + hl:
        raise Sb31Reject("manifest-cert-block-offset", f"{cert_offset}, manifest + hash end at {MANIFEST_SIZE + hl}")
    if block_count < 1:
        raise Sb31Reject("manifest-block-count", "no data block")
    regions.append(("manifest", 0, MANIFEST_SIZE))
    regions.append(("block1_hash", MANIFEST_SIZE, MANIFEST_SIZE + hl))
    header = {
        "flags": flags, "block_count": block_count, "block_size": block_size, "timestamp": timestamp,
        "firmware_version": fw_version, "image_total_length": total_length, "image_type": image_type,
        "cert_block_offset": cert_offset, "description": description, "hash": hname,
    }

    cb = check_cert_block(data, cert_offset, rkth, regions)
    sc = ecdsa.get_curve(cb["sign_curve"])
    if sc.size != hl:
        raise Sb31Reject("signing-curve-vs-block-size", f"{cb['sign_curve']} signs, block hash is {hname}")
    sig_off = cert_offset + cb["size"]
    sig_end = sig_off + 2 * sc.size
    if sig_end > len(data):
        raise Sb31Reject("signature-truncated", f"needs {sig_end}, file {len(data)}")
    signature = data[sig_off:sig_end]
    if not _verify(cb["sign_curve"], cb["sign_pub"], data[:sig_off], signature):
        raise Sb31Reject("signature-invalid", f"over [0,{sig_off}) with {'ISK' if cb['isk'] else 'root key'} {cb['sign_curve']}")
    regions.append(("signature", sig_off, sig_end))
    if total_length != sig_end:
        if trust_total_length:
            raise Sb31Reject("total-length-mismatch", f"manifest says block 0 is {total_length} bytes, it ends at {sig_end}")
        first = sig_end
    else:
        first = total_length
    if len(data) != first + block_count * block_size:
        raise Sb31Reject(
            "file-length-mismatch",
            f"file {len(data)}, block 0 {first} + {block_count} x {block_size} = {first + block_count * block_size}",
        )

    kdk = None
    if encrypted:
        if pck is None or len(pck) not in (16, 32):
            raise Sb31Reject("device-has-no-pck", "decryption requested without a 128/256-bit PCK")
        kdk = derive_kdk(bytes(pck), timestamp, kdk_access_rights, key_bits)
    # pass 1: the hash chain from block 0 (a loader streams - hash, then decrypt - block by block; the
    # verdict is the same, doing the cheap pass first only keeps bit-flip sweeps affordable)
    expected = data[MANIFEST_SIZE: MANIFEST_SIZE + hl]
    off = first
    payloads = []
    for i in range(1, block_count + 1):
        blk = data[off: off + block_size]
        if hashlib.new(hname, blk).digest() != expected:
            raise Sb31Reject("chain-hash-mismatch", f"block {i} does not hash to the value carried by block {i - 1}")
        (number,) = struct.unpack_from("<L", blk, 0)
        if number != i:
            raise Sb31Reject("block-number", f"block {i} is numbered {number}")
        expected = blk[4: 4 + hl]
        payloads.append(blk[4 + hl:])
        regions.append((f"block{i}_number", off, off + 4))
        regions.append((f"block{i}_next_hash", off + 4, off + 4 + hl))
        regions.append((f"block{i}_payload", off + 4 + hl, off + block_size))
        off += block_size
    # pass 2: decryption
    stream = bytearray()
    for i, payload in enumerate(payloads, start=1):
        if encrypted:
            payload = modes.cbc_decrypt(derive_block_key(kdk, i, kdk_access_rights, key_bits), bytes(16), payload)
        stream += payload
    last_next_hash = expected
    stream = bytes(stream)

    uid, stype, slen, spad = struct.unpack_from("<4L", stream, 0)
    if (uid, stype, spad) != (1, 1, 0):
        raise Sb31Reject("section-header", f"uid {uid:#x} type {stype:#x} pad {spad:#x}" + (" (wrong key?)" if encrypted else ""))
    if 16 + slen > len(stream):
        raise Sb31Reject("section-length", f"section of {slen} bytes in a stream of {len(stream)}")
    if (16 + slen + CHUNK - 1) // CHUNK != block_count:
        raise Sb31Reject("section-length", f"section of {slen} bytes does not need {block_count} blocks")
    commands = decode_commands(stream[16: 16 + slen])
    padding = stream[16 + slen:]
    if any(padding):
        raise Sb31Reject("tail-padding-nonzero", f"{len(padding)} bytes after the section")
    return {
        "header": header, "cert_block": cb, "signature": signature, "signed_region": (0, sig_off),
        "block0_end": sig_end, "blocks_at": first, "section": {"uid": uid, "type": stype, "length": slen},
        "commands": commands, "stream_length": 16 + slen, "padding_length": len(padding),
        "last_next_hash": last_next_hash, "regions": regions, "key_bits": key_bits, "kdk": kdk,
    }


# -------------------------------------------------------------------------------------- selftest
def selftest() -> int:
    """KDF known answers (tests/sbfile/sb31/test_functions.py - values from the NXP tooling) and the
    command decoder on hand-assembled streams.  Returns the number of assertions passed."""
    n = 0
    vec = [
        (15, 3, 2, 256, 1, "0F00000000000000000000000000000000000000c01000210000010000000001"),
        (15, 3, 2, 256, 2, "0F00000000000000000000000000000000000000c01000210000010000000002"),
        (0x27C0E97C, 3, 1, 256, 1, "7ce9c02700000000000000000000000000000000c00100210000010000000001"),
    ]
    for const, rights, mode, bits, it, want in vec:
        assert kdf_data(const, rights, mode, bits, it) == bytes.fromhex(want), f"kdf_data {const} {mode} {it}"
        n += 1
    pck = bytes.fromhex("24e517d4ac417737235b6efc9afced8224e517d4ac417737235b6efc9afced82")
    kdk = derive_kdk(pck, 0x27C0E97C, 3, 128)
    assert kdk == bytes.fromhex("751d0802bc9eb9adb42b68d40880aa6e"), "KDK vector"
    n += 1
    for blk, want in [(10, "40902f79dd0ec371307f7069590ad07a"), (13, "69362b5634b99b689a7c43df76f15b63"),
                      (6, "4c28803b5de193c21f31e6fa10c76b03")]:
        assert derive_block_key(kdk, blk, 3, 128) == bytes.fromhex(want), f"block key {blk}"
        n += 1
    # decoder: erase + load(5 bytes) + reset, then malformed variants must be rejected
    s = struct.pack("<8L", CMD_MARK, 0x100, 0x200, 1, 7, 0, 0, 0)
    s += struct.pack("<8L", CMD_MARK, 0x20, 5, 2, 3, 0, 0, 0) + b"abcde" + bytes(11)
    s += struct.pack("<4L", CMD_MARK, 0, 0, 14)
    got = decode_commands(s)
    assert [c["cmd"] for c in got] == ["erase", "load", "reset"] and got[1]["data"] == b"abcde" and got[0]["memory_id"] == 7
    n += 1
    for bad in (s[:-1], s[:20] + b"\x01" + s[21:], s.replace(b"abcde" + bytes(11), b"abcde" + bytes(10) + b"\x01"),
                s[:12] + b"\x0f" + s[13:], b"\x00" + s[1:]):
        try:
            decode_commands(bad)
        except Sb31Reject:
            n += 1
        else:
            raise AssertionError("decoder accepted a malformed stream")
    return n


if __name__ == "__main__":  # pragma: no cover
    print({"sb31_rom": selftest()})
