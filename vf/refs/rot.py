"""Root-of-trust reference model (C03): RoT hashes, SRK tables and certificate blocks from raw public numbers.

Imports nothing from spsdk and nothing from ``cryptography``: ``hashlib`` + ``struct`` only.  A key is a
plain dict in the format of ``vf.pki.numbers``::

    {"type": "rsa", "n": int, "e": int}                      (bits is derived from n)
    {"type": "ecc", "x": int, "y": int, "size": 32|48|66}    (size = coordinate bytes: P-256/P-384/P-521)

Constructions (DESIGN.md C03 and Appendix A "Cert blocks", "AHAB", "HAB"):

* RSA key hash  = SHA-256(modulus || exponent), both minimal big-endian.
* ECC key hash  = SHA-256 / SHA-384 / SHA-512 (P-256 / P-384 / P-521) of fixed-width X || Y.
* cert block v1 : table = 4 x 32 B key hashes, zero padded; RKTH = SHA-256(table); fuses = 8 LE words of the RKTH.
* cert block 2.1: one key -> RKTH = its key hash, no table; else table = hashes, RKTH = hash(table) with the
  keys' hash algorithm.
* AHAB          : SRK record  E1 | len16 | sign alg | hash | key size | 0 | flags(0x80 = CA) | len1 | len2 | params
                  (RSA: modulus || 4-byte exponent, ECC: X || Y);  table D7 | len16 | 42 | 4 records;
                  SRK hash = SHA-256(table).   Version 2 (table version 43): the record carries the hash of the
                  "SRK data" container (5D-tagged, key material) zero-extended to 64 B; SRK hash = SHA-512(table).
* HAB           : entry E1 | len16 BE | alg (21 PKCS1, 27 ECDSA) | 0 0 0 flag ... ; fuses = SHA-256(cat SHA-256(entry_i)).

``Unsupported`` is raised where the construction itself does not exist for the key set (a P-384 key in a
v1 table, P-521 in a certificate block, mixed key kinds ...): the code under test is expected to *refuse*.
Whole-block readers (``parse_cert_block_v1/_v21``) raise ``Malformed`` with the reason.
A minimal DER reader (``der_public_numbers``, ``cert_info``) recovers raw numbers, BasicConstraints.cA and
KeyUsage.keyCertSign from X.509 / SubjectPublicKeyInfo so that third-party ground truth (CST certificates and
SRK tables in the repository's test data) can be used by ``selftest``.
"""
from __future__ import annotations

import base64
import hashlib
import os
import re
import struct

__all__ = [
    "Unsupported", "Malformed", "rsa_key", "ecc_key", "key_hash", "key_hash_name", "raw_public",
    "v1_table", "v1_rkth", "v1_fuses", "v21_table", "v21_rkth",
    "ahab_srk_record", "ahab_srk_table", "ahab_srk_hash", "ahab_v2_srk_data", "ahab_v2_srk_record",
    "ahab_v2_srk_table", "ahab_v2_srk_hash", "ahab_split_table",
    "hab_srk_entry", "hab_srk_table", "hab_fuses", "hab_split_table", "hab_fuses_from_table",
    "rkr_v21", "parse_cert_block_v21", "parse_cert_block_v1", "isk_signed_data",
    "pem_to_der", "der_public_numbers", "cert_info", "selftest",
]


class Unsupported(Exception):
    """The construction does not exist for this key set (the code under test should refuse)."""


class Malformed(Exception):
    """A binary artifact does not follow the format."""


# ------------------------------------------------------------------------------------------ keys
ECC_HASH = {32: "sha256", 48: "sha384", 66: "sha512"}


def rsa_key(n: int, e: int = 65537) -> dict:
    return {"type": "rsa", "n": int(n), "e": int(e)}


def ecc_key(x: int, y: int, size: int) -> dict:
    if size not in ECC_HASH:
        raise ValueError(f"coordinate size {size}")
    return {"type": "ecc", "x": int(x), "y": int(y), "size": int(size)}


def _min_be(v: int) -> bytes:
    if v <= 0:
        raise ValueError("positive integer expected")
    return v.to_bytes((v.bit_length() + 7) // 8, "big")


def rsa_bits(key: dict) -> int:
    return (key["n"].bit_length() + 7) // 8 * 8


def raw_public(key: dict) -> bytes:
    """The bytes that get hashed: modulus || exponent (minimal) or fixed-width X || Y."""
    if key["type"] == "rsa":
        return _min_be(key["n"]) + _min_be(key["e"])
    if key["type"] == "ecc":
        s = key["size"]
        return key["x"].to_bytes(s, "big") + key["y"].to_bytes(s, "big")
    raise ValueError(f"unknown key type {key['type']}")


def key_hash_name(key: dict) -> str:
    return "sha256" if key["type"] == "rsa" else ECC_HASH[key["size"]]


def key_hash(key: dict) -> bytes:
    return hashlib.new(key_hash_name(key), raw_public(key)).digest()


def _same_kind(keys: list) -> str:
    """All keys RSA (any size) or all on one curve; returns the hash name."""
    if not 1 <= len(keys) <= 4:
        raise Unsupported(f"{len(keys)} keys")
    kinds = {(k["type"], k.get("size")) if k["type"] == "ecc" else ("rsa", None) for k in keys}
    if len(kinds) != 1:
        raise Unsupported("mixed key kinds")
    return key_hash_name(keys[0])


# ------------------------------------------------------------------------------ certificate block v1
def v1_table(keys: list) -> bytes:
    if _same_kind(keys) != "sha256":
        raise Unsupported("certificate block v1 holds 32-byte hashes only")
    t = b"".join(key_hash(k) for k in keys)
    return t + bytes(128 - len(t))


def v1_rkth(keys: list) -> bytes:
    return hashlib.sha256(v1_table(keys)).digest()


def v1_fuses(rkth: bytes) -> list:
    return [int.from_bytes(rkth[i:i + 4], "little") for i in range(0, len(rkth), 4)]


# ---------------------------------------------------------------------------- certificate block v2.1
def v21_table(keys: list) -> bytes:
    name = _same_kind(keys)
    if name == "sha512":
        raise Unsupported("P-521 is not defined for certificate block 2.1")
    return b"".join(key_hash(k) for k in keys) if len(keys) > 1 else b""


def v21_rkth(keys: list) -> bytes:
    t = v21_table(keys)
    return hashlib.new(key_hash_name(keys[0]), t).digest() if t else key_hash(keys[0])


CURVE_NIBBLE = {32: 1, 48: 2}
NIBBLE_SIZE = {1: 32, 2: 48}


def rkr_v21(keys: list, used: int, ca_flag: bool) -> bytes:
    """Root key record: flags || [table] || public key of the used root."""
    if any(k["type"] != "ecc" for k in keys):
        raise Unsupported("certificate block 2.1 records hold ECC keys")
    table = v21_table(keys)
    if not 0 <= used < len(keys):
        raise Unsupported("used root index out of range")
    flags = (0x80000000 if ca_flag else 0) | (used << 8) | (len(keys) << 4) | CURVE_NIBBLE[keys[0]["size"]]
    return struct.pack("<L", flags) + table + raw_public(keys[used])


def parse_cert_block_v21(data: bytes) -> dict:
    """Independent reader of a certificate block 2.1.  Returns every field and the byte ranges."""
    data = bytes(data)
    if len(data) < 16:
        raise Malformed("shorter than header + flags")
    magic, minor, major, size = struct.unpack_from("<4s2HL", data, 0)
    if magic != b"chdr":
        raise Malformed(f"magic {magic!r}")
    out = {"minor": minor, "major": major, "size": size}
    (flags,) = struct.unpack_from("<L", data, 12)
    nib = flags & 0xF
    if nib not in NIBBLE_SIZE:
        raise Malformed(f"curve nibble {nib}")
    if flags & 0x7FFFF000:
        raise Malformed(f"reserved flag bits set: {flags:#x}")
    csize = NIBBLE_SIZE[nib]
    hlen = csize  # SHA-256 / SHA-384 digest length equals the coordinate size
    count = (flags >> 4) & 0xF
    used = (flags >> 8) & 0xF
    if not 1 <= count <= 4 or used >= count:
        raise Malformed(f"count {count} / used {used}")
    off = 16
    table = b""
    if count > 1:
        table = data[off:off + hlen * count]
        off += hlen * count
    root_pub = data[off:off + 2 * csize]
    off += 2 * csize
    if len(root_pub) != 2 * csize or len(table) != (hlen * count if count > 1 else 0):
        raise Malformed("truncated root key record")
    out.update({"flags": flags, "ca": bool(flags >> 31), "count": count, "used": used, "curve_size": csize,
                "table": table, "root_pub": root_pub, "rkr": data[12:off], "rkr_end": off})
    hname = ECC_HASH[csize]
    out["rkth"] = hashlib.new(hname, table).digest() if count > 1 else hashlib.new(hname, root_pub).digest()
    if count > 1 and hashlib.new(hname, root_pub).digest() != table[used * hlen:(used + 1) * hlen]:
        raise Malformed("the used root key does not hash to its table slot")
    if out["ca"]:
        out["isk"] = None
        out["end"] = off
    else:
        if len(data) < off + 12:
            raise Malformed("ISK certificate header missing")
        sig_off, constraints, iflags = struct.unpack_from("<3L", data, off)
        inib = iflags & 0xF
        if inib not in NIBBLE_SIZE:
            raise Malformed(f"ISK curve nibble {inib}")
        if iflags & 0x7FFFFFF0:
            raise Malformed(f"ISK reserved flag bits set: {iflags:#x}")
        isize = NIBBLE_SIZE[inib]
        body = off + 12
        isk_pub = data[body:body + 2 * isize]
        ud_start = body + 2 * isize
        sig_start = off + sig_off
        if sig_start < ud_start:
            raise Malformed("signature offset inside the ISK public key")
        user_data = data[ud_start:sig_start]
        sig = data[sig_start:sig_start + 2 * csize]
        if len(sig) != 2 * csize or len(isk_pub) != 2 * isize or len(user_data) != sig_start - ud_start:
            raise Malformed("truncated ISK certificate")
        out["isk"] = {"sig_offset": sig_off, "constraints": constraints, "flags": iflags, "user_data_flag": bool(iflags >> 31),
                      "curve_size": isize, "pub": isk_pub, "user_data": user_data, "signature": sig,
                      "signed": data[12:sig_start]}
        out["end"] = sig_start + 2 * csize
    return out


def isk_signed_data(rkr: bytes, isk_pub: bytes, user_data: bytes, constraints: int, isk_curve_size: int) -> bytes:
    """Exactly what the selected root key signs: root key record || ISK header || ISK public key || user data."""
    iflags = (0x80000000 if user_data else 0) | CURVE_NIBBLE[isk_curve_size]
    sig_off = 12 + len(isk_pub) + len(user_data)
    return rkr + struct.pack("<3L", sig_off, constraints, iflags) + isk_pub + user_data


def parse_cert_block_v1(data: bytes, alignment: int = 16) -> dict:
    data = bytes(data)
    if len(data) < 32 + 128:
        raise Malformed("shorter than header + table")
    sig, major, minor, hsize, flags, build, image_len, count, table_len = struct.unpack_from("<4s2H6I", data, 0)
    if sig != b"cert" or hsize != 32:
        raise Malformed(f"signature {sig!r} header size {hsize}")
    off = 32
    certs = []
    for _ in range(count):
        if off + 4 > len(data):
            raise Malformed("certificate table truncated")
        (ln,) = struct.unpack_from("<I", data, off)
        off += 4
        c = data[off:off + ln]
        if len(c) != ln:
            raise Malformed("certificate truncated")
        certs.append(c)
        off += ln
    if off != 32 + table_len:
        raise Malformed(f"certificate table length {table_len} != {off - 32}")
    table = data[off:off + 128]
    off += 128
    if len(table) != 128:
        raise Malformed("RKH table truncated")
    want = (off + alignment - 1) // alignment * alignment
    if len(data) != want or any(data[off:]):
        raise Malformed(f"length {len(data)} != aligned {want} or non-zero padding")
    return {"version": (major, minor), "flags": flags, "build_number": build, "image_length": image_len,
            "certs": certs, "table": table, "rkth": hashlib.sha256(table).digest()}


# --------------------------------------------------------------------------------------------- AHAB
AHAB_RSA_SIZE = {2048: 5, 3072: 6, 4096: 7}
AHAB_ECC_SIZE = {32: 1, 48: 2, 66: 3}
AHAB_HASH = {"sha256": 0, "sha384": 1, "sha512": 2}
AHAB_SIGN_RSA_PSS = 0x22
AHAB_SIGN_ECDSA = 0x27


def _ahab_params(key: dict):
    """(sign alg, hash id, key size id, len1, len2, crypto params)."""
    if key["type"] == "rsa":
        bits = rsa_bits(key)
        if bits not in AHAB_RSA_SIZE:
            raise Unsupported(f"RSA-{bits} in an AHAB SRK record")
        p1 = key["n"].to_bytes(bits // 8, "big")
        p2 = key["e"].to_bytes(4, "big")
        return AHAB_SIGN_RSA_PSS, AHAB_HASH["sha256"], AHAB_RSA_SIZE[bits], p1, p2
    s = key["size"]
    return (AHAB_SIGN_ECDSA, AHAB_HASH[ECC_HASH[s]], AHAB_ECC_SIZE[s],
            key["x"].to_bytes(s, "big"), key["y"].to_bytes(s, "big"))


def ahab_srk_record(key: dict, ca: bool = False) -> bytes:
    alg, hid, ksz, p1, p2 = _ahab_params(key)
    body = struct.pack("<4B2H", hid, ksz, 0, 0x80 if ca else 0, len(p1), len(p2)) + p1 + p2
    return struct.pack("<BHB", 0xE1, 4 + len(body), alg) + body


def _ahab_same(keys: list) -> None:
    if len(keys) != 4:
        raise Unsupported("an AHAB SRK table has exactly four records")
    kinds = {(k["type"], rsa_bits(k) if k["type"] == "rsa" else k["size"]) for k in keys}
    if len(kinds) != 1:
        raise Unsupported("all SRK records must be of the same type and size")


def ahab_srk_table(keys: list, ca: bool = False) -> bytes:
    _ahab_same(keys)
    recs = b"".join(ahab_srk_record(k, ca) for k in keys)
    return struct.pack("<BHB", 0xD7, 4 + len(recs), 0x42) + recs


def ahab_srk_hash(keys: list, ca: bool = False) -> bytes:
    return hashlib.sha256(ahab_srk_table(keys, ca)).digest()


def ahab_v2_srk_data(key: dict, srk_id: int) -> bytes:
    _, _, _, p1, p2 = _ahab_params(key)
    body = struct.pack("<4B", srk_id, 0, 0, 0) + p1 + p2
    return struct.pack("<BHB", 0x00, 4 + len(body), 0x5D) + body  # version, length, tag


def ahab_v2_srk_record(key: dict, srk_id: int, ca: bool = False) -> bytes:
    alg, hid, ksz, p1, p2 = _ahab_params(key)
    hname = {v: k for k, v in AHAB_HASH.items()}[hid]
    digest = hashlib.new(hname, ahab_v2_srk_data(key, srk_id)).digest()
    body = struct.pack("<4B2H", hid, ksz, 0, 0x80 if ca else 0, len(p1), len(p2)) + digest + bytes(64 - len(digest))
    return struct.pack("<BHB", 0xE1, 4 + len(body), alg) + body


def ahab_v2_srk_table(keys: list, ca: bool = False) -> bytes:
    _ahab_same(keys)
    recs = b"".join(ahab_v2_srk_record(k, i, ca) for i, k in enumerate(keys))
    return struct.pack("<BHB", 0xD7, 4 + len(recs), 0x43) + recs


def ahab_v2_srk_hash(keys: list, ca: bool = False) -> bytes:
    return hashlib.sha512(ahab_v2_srk_table(keys, ca)).digest()


def ahab_split_table(table: bytes) -> dict:
    """Read a version-0x42 SRK table back into keys + CA flags (used on stored third-party containers)."""
    table = bytes(table)
    tag, ln, ver = struct.unpack_from("<BHB", table, 0)
    if tag != 0xD7 or ver != 0x42 or ln > len(table):
        raise Malformed("not an SRK table")
    off, keys, cas = 4, [], []
    while off < ln:
        rtag, rlen, alg = struct.unpack_from("<BHB", table, off)
        hid, ksz, _z, flags, l1, l2 = struct.unpack_from("<4B2H", table, off + 4)
        if rtag != 0xE1 or rlen != 12 + l1 + l2:
            raise Malformed("SRK record header")
        p1 = int.from_bytes(table[off + 12:off + 12 + l1], "big")
        p2 = int.from_bytes(table[off + 12 + l1:off + 12 + l1 + l2], "big")
        if alg == AHAB_SIGN_ECDSA:
            keys.append(ecc_key(p1, p2, l1))
        elif alg in (0x21, AHAB_SIGN_RSA_PSS):
            keys.append(rsa_key(p1, p2))
        else:
            raise Unsupported(f"signing algorithm {alg:#x}")
        cas.append(bool(flags & 0x80))
        off += rlen
    return {"keys": keys, "ca": cas, "table": table[:ln]}


# ---------------------------------------------------------------------------------------------- HAB
HAB_CURVE_ID = {32: 0x4B, 48: 0x4D, 66: 0x4E}
HAB_KEY_BITS = {32: 256, 48: 384, 66: 521}


def hab_srk_entry(key: dict, ca: bool = False) -> bytes:
    flag = 0x80 if ca else 0
    if key["type"] == "rsa":
        n, e = _min_be(key["n"]), _min_be(key["e"])
        body = struct.pack(">4B2H", 0, 0, 0, flag, len(n), len(e)) + n + e
        alg = 0x21
    else:
        s = key["size"]
        body = struct.pack(">5BBH", 0, 0, 0, flag, HAB_CURVE_ID[s], 0, HAB_KEY_BITS[s]) + raw_public(key)
        alg = 0x27
    return struct.pack(">BHB", 0xE1, 4 + len(body), alg) + body


def hab_srk_table(entries: list, version: int = 0x40) -> bytes:
    body = b"".join(entries)
    return struct.pack(">BHB", 0xD7, 4 + len(body), version) + body


def hab_fuses(entries: list) -> bytes:
    """SHA-256 over the SHA-256 digests of the SRK entries (a hashed entry EE contributes its stored digest)."""
    acc = b""
    for ent in entries:
        acc += ent[4:36] if ent[0] == 0xEE else hashlib.sha256(ent).digest()
    return hashlib.sha256(acc).digest()


def hab_split_table(table: bytes) -> list:
    table = bytes(table)
    tag, ln, _ver = struct.unpack_from(">BHB", table, 0)
    if tag != 0xD7 or ln > len(table):
        raise Malformed("not a HAB SRK table")
    off, out = 4, []
    while off < ln:
        etag, elen, _alg = struct.unpack_from(">BHB", table, off)
        if etag not in (0xE1, 0xEE) or elen < 4 or off + elen > ln:
            raise Malformed("SRK entry header")
        out.append(table[off:off + elen])
        off += elen
    return out


def hab_fuses_from_table(table: bytes) -> bytes:
    return hab_fuses(hab_split_table(table))


# ------------------------------------------------------------------------------------ minimal DER
def pem_to_der(data: bytes) -> bytes:
    data = bytes(data)
    m = re.search(rb"-----BEGIN ([A-Z0-9 ]+)-----(.*?)-----END \1-----", data, re.S)
    if not m:
        return data
    return base64.b64decode(b"".join(m.group(2).split()))


def _tlv(data: bytes, pos: int):
    """(tag, content start, content end) of the TLV at pos."""
    if pos + 2 > len(data):
        raise Malformed("DER truncated")
    tag = data[pos]
    ln = data[pos + 1]
    pos += 2
    if ln & 0x80:
        k = ln & 0x7F
        if k == 0 or k > 4 or pos + k > len(data):
            raise Malformed("DER length")
        ln = int.from_bytes(data[pos:pos + k], "big")
        pos += k
    if pos + ln > len(data):
        raise Malformed("DER content truncated")
    return tag, pos, pos + ln


def _children(data: bytes, start: int, end: int) -> list:
    out, pos = [], start
    while pos < end:
        tag, s, e = _tlv(data, pos)
        out.append((tag, s, e, pos))
        pos = e
    return out


OID_RSA = bytes.fromhex("2a864886f70d010101")
OID_EC = bytes.fromhex("2a8648ce3d0201")
OID_CURVES = {bytes.fromhex("2a8648ce3d030107"): 32, bytes.fromhex("2b81040022"): 48, bytes.fromhex("2b81040023"): 66}
OID_BASIC_CONSTRAINTS = bytes.fromhex("551d13")
OID_KEY_USAGE = bytes.fromhex("551d0f")


def _spki_numbers(data: bytes, s: int, e: int) -> dict:
    kids = _children(data, s, e)
    if len(kids) != 2 or kids[0][0] != 0x30 or kids[1][0] != 0x03:
        raise Malformed("SubjectPublicKeyInfo shape")
    alg = _children(data, kids[0][1], kids[0][2])
    oid = data[alg[0][1]:alg[0][2]]
    bs, be = kids[1][1], kids[1][2]
    if data[bs] != 0:
        raise Malformed("unused bits in the key BIT STRING")
    key = data[bs + 1:be]
    if oid == OID_RSA:
        tag, qs, qe = _tlv(key, 0)
        ints = _children(key, qs, qe)
        if tag != 0x30 or len(ints) != 2 or ints[0][0] != 2 or ints[1][0] != 2:
            raise Malformed("RSAPublicKey shape")
        return rsa_key(int.from_bytes(key[ints[0][1]:ints[0][2]], "big"), int.from_bytes(key[ints[1][1]:ints[1][2]], "big"))
    if oid == OID_EC:
        curve = data[alg[1][1]:alg[1][2]]
        if curve not in OID_CURVES:
            raise Unsupported("curve OID " + curve.hex())
        size = OID_CURVES[curve]
        if len(key) != 1 + 2 * size or key[0] != 4:
            raise Malformed("uncompressed EC point expected")
        return ecc_key(int.from_bytes(key[1:1 + size], "big"), int.from_bytes(key[1 + size:], "big"), size)
    raise Unsupported("key algorithm OID " + oid.hex())


def cert_info(data: bytes) -> dict:
    """{'key': numbers, 'ca': BasicConstraints.cA, 'key_cert_sign': KeyUsage bit 5 or None when absent} of a certificate."""
    der = pem_to_der(data)
    tag, s, e = _tlv(der, 0)
    top = _children(der, s, e)
    if tag != 0x30 or len(top) != 3:
        raise Malformed("not a certificate")
    tbs = _children(der, top[0][1], top[0][2])
    i = 1 if tbs[0][0] == 0xA0 else 0
    # serial, signature alg, issuer, validity, subject, subjectPublicKeyInfo
    spki = tbs[i + 5]
    info = {"key": _spki_numbers(der, spki[1], spki[2]), "ca": False, "key_cert_sign": None, "der": der}
    for t in tbs[i + 6:]:
        if t[0] != 0xA3:
            continue
        _, qs, qe = _tlv(der, t[1])
        for ext in _children(der, qs, qe):
            parts = _children(der, ext[1], ext[2])
            oid = der[parts[0][1]:parts[0][2]]
            val = parts[-1]
            if oid == OID_BASIC_CONSTRAINTS:
                _, bs, be = _tlv(der, val[1])
                inner = _children(der, bs, be)
                info["ca"] = bool(inner and inner[0][0] == 0x01 and der[inner[0][1]] != 0)
            elif oid == OID_KEY_USAGE:
                btag, bs, be = _tlv(der, val[1])
                if btag != 0x03 or be - bs < 2:
                    raise Malformed("KeyUsage BIT STRING")
                info["key_cert_sign"] = bool(der[bs + 1] & 0x04)
    return info


def der_public_numbers(data: bytes) -> dict:
    """Raw numbers from a certificate or a SubjectPublicKeyInfo (PEM or DER)."""
    der = pem_to_der(data)
    try:
        return cert_info(der)["key"]
    except (Malformed, IndexError):
        tag, s, e = _tlv(der, 0)
        if tag != 0x30:
            raise
        return _spki_numbers(der, s, e)


# --------------------------------------------------------------------------------------- self test
def selftest(repo_tests: str = "/repo/tests", pki=None) -> dict:
    """Ground truth that SPSDK did not compute: CST-generated HAB SRK tables / fuse files with their certificates,
    stored RKTH / RoT hash constants of the repository tests (elftosb- and CST-era values), stored AHAB SRK tables.
    Returns counts; raises AssertionError naming the failing vector."""
    n = {"hab_cst": 0, "stored_rkth": 0, "ahab_tables": 0, "der_pool": 0, "structure": 0}

    def rd(*p):
        with open(os.path.join(repo_tests, *p), "rb") as f:
            return f.read()

    def have(*p):
        return os.path.exists(os.path.join(repo_tests, *p))

    # 1. CST: certificates -> table -> fuses  (RSA-4096 with keyCertSign => flag 0x80)
    if have("image", "secret", "data", "SRK_1_2_3_4_table.bin"):
        infos = [cert_info(rd("image", "secret", "data", f"SRK{i}_sha256_4096_65537_v3_ca_crt.pem")) for i in (1, 2, 3, 4)]
        ents = [hab_srk_entry(c["key"], bool(c["key_cert_sign"])) for c in infos]
        table = rd("image", "secret", "data", "SRK_1_2_3_4_table.bin")
        assert hab_srk_table(ents) == table, "HAB: CST SRK_1_2_3_4_table.bin not reproduced from the four certificates"
        assert hab_fuses(ents) == rd("image", "secret", "data", "SRK_1_2_3_4_fuse.bin"), "HAB: CST SRK_1_2_3_4_fuse.bin"
        mixed = rd("image", "secret", "data", "SRK_1_2_H3_H4_table.bin")
        assert hab_fuses_from_table(mixed) == rd("image", "secret", "data", "SRK_1_2_3_4_fuse.bin"), "HAB: hashed entries"
        assert hab_fuses_from_table(rd("image", "secret", "data", "SRK_prime256v1_table.bin")) == rd(
            "image", "secret", "data", "SRK_prime256v1_fuse.bin"), "HAB: CST prime256v1 table -> fuse"
        n["hab_cst"] += 4
    if have("mcu_examples", "data", "rt10xx", "srk", "SRK_fuses.bin"):
        infos = [cert_info(rd("mcu_examples", "data", "rt10xx", "crts", f"SRK{i}_sha256_2048_65537_v3_ca_crt.pem")) for i in (1, 2, 3, 4)]
        ents = [hab_srk_entry(c["key"], bool(c["key_cert_sign"])) for c in infos]
        assert hab_srk_table(ents) == rd("mcu_examples", "data", "rt10xx", "srk", "SRK_hash_table.bin"), "HAB: rt10xx SRK table"
        assert hab_fuses(ents) == rd("mcu_examples", "data", "rt10xx", "srk", "SRK_fuses.bin"), "HAB: rt10xx SRK_fuses.bin"
        n["hab_cst"] += 2
    # every stored CST table re-serialises from its own entries and has 32-byte fuses (structure of the splitter)
    hab_dir = os.path.join(repo_tests, "nxpimage", "data", "hab", "export")
    if os.path.isdir(hab_dir):
        for d in sorted(os.listdir(hab_dir)):
            g = os.path.join(hab_dir, d, "gen_hab_certs")
            if not os.path.isdir(g):
                continue
            for f in sorted(os.listdir(g)):
                t = open(os.path.join(g, f), "rb").read()
                ents = hab_split_table(t)
                assert hab_srk_table(ents, t[3]) == t and 1 <= len(ents) <= 4, f"HAB: {d}/{f} does not re-serialise"
                for ent in ents:  # rebuild each entry from the numbers it carries
                    if ent[3] == 0x21:
                        ml, el = struct.unpack_from(">2H", ent, 8)
                        k = rsa_key(int.from_bytes(ent[12:12 + ml], "big"), int.from_bytes(ent[12 + ml:12 + ml + el], "big"))
                    else:
                        cs = {v: s for s, v in HAB_CURVE_ID.items()}[ent[8]]
                        k = ecc_key(int.from_bytes(ent[12:12 + cs], "big"), int.from_bytes(ent[12 + cs:12 + 2 * cs], "big"), cs)
                    assert hab_srk_entry(k, bool(ent[7] & 0x80)) == ent, f"HAB: entry of {d}/{f} not reproduced"
                n["structure"] += 1
    # 2. stored hashes of the repository tests
    ck = os.path.join("utils", "crypto", "data", "certs_and_keys")
    if have(ck, "root_k0_signed_cert0_noca.der.cert"):
        k = [cert_info(rd(ck, f"root_k{i}_signed_cert0_noca.der.cert"))["key"] for i in (0, 1, 2)]
        vec = [([k[0], k[1], k[2], k[0]], "46375246bab50ecdd35014b6782f1e81fc4f8a047705f11274031f7297a6ae86"),
               ([k[0], k[1]], "5905022784a39901b0dc0860c9455cd1b83c5336a2e973825759961554664c89"),
               ([k[0]], "db31d46c717711a8231cbc38b1de8a6e8657e1f733e04c2ee4b62fcea59149fa")]
        for keys, want in vec:
            assert v1_rkth(keys).hex() == want, f"v1 RKTH of {len(keys)} stored RSA-2048 certificates"
            n["stored_rkth"] += 1
        assert v1_table([k[0]])[:32].hex() == "49ad24eb3d2bdd52a8ef1bdfca612d531061fc1376ffd4ac56457ed08380a627", "v1 RKH"
    if have(ck, "ecc_256_r1_0.pub"):
        e256 = [der_public_numbers(rd(ck, f"ecc_256_r1_{i}.pub")) for i in range(4)]
        e384 = [der_public_numbers(rd(ck, f"ecc_384_r1_{i}.pub")) for i in range(4)]
        vec = [(e256, "e1d7904f1e83517f7055a33bfe63cadfbb575976cde671678ba4c991bbc4005c"),
               (e256[:2], "4ef1933909dac83e1c61b83a82ba8e6a349e2472c10eae30ce750a88a2e6a2c2"),
               (e256[:1], "dba61f744e0656a51c321f121ef7a8c66c45582d264bc462727a8871cbd0a956"),
               (e384, "d2cd7c4ce827fef9365e8b3ecc0da14d29fef0b6f971e2123fe9336e6c212d54c37b643d3d3bef9c15d66107854b5bac"),
               (e384[:2], "6070afef25e2b3f7882e0021bf6013c2e5299dbcb78e8bd1bf1d5a7030712e90a58b4b321cc83f47b9542a7467cf9314"),
               (e384[:1], "632898678aacaaeca777eaf6db3fd6fd1e70442cc1346c2093b10afd7b1a9eb8c3e05bab08131776192077138c46ea5a")]
        for keys, want in vec:
            assert v21_rkth(keys).hex() == want, f"v2.1 RKTH of {len(keys)} stored keys ({keys[0]['size']})"
            n["stored_rkth"] += 1
    nd = os.path.join("nxpcrypto", "data")
    if have(nd, "ec_secp256r1_cert0.pem"):
        c = [cert_info(rd(nd, f"ec_secp256r1_cert{i}.pem")) for i in range(4)]
        ks = [x["key"] for x in c]
        # family lpc55s0x is a certificate-block-v1 device: P-256 keys in the 4 x 32 B table
        assert v1_rkth(ks).hex() == "3f1f71ccd8dfcbcff3e445c21f003a974f8c40ce9aa7d8c567416b9ab45d1655", "nxpcrypto v1 4 P-256 keys"
        assert v1_rkth(ks[:2]).hex() == "3e3bfcd794c998eeaef6347a2a438ec36e5e5132d350d31fcbd927bfcc120c9e", "nxpcrypto v1 2 P-256 keys"
        assert v1_rkth(ks[:1]).hex() == "7eb98e20a565ba54e866a3920967c3a56a1acf07043ab08fc36a90d55a6e0eb0", "nxpcrypto v1 1 P-256 key"
        assert ahab_srk_hash(ks, all(x["ca"] for x in c)).hex() == "34f1cd4517440f815cf57ae9f80346c74cff8804f8f5fb02b202657271e94d81", "nxpcrypto AHAB"
        assert ahab_srk_table(ks, all(x["ca"] for x in c)) == rd(nd, "rot_mimxrt1189.bin"), "nxpcrypto AHAB table file"
        n["stored_rkth"] += 5
        if have(nd, "SRK1_sha256_secp384r1_v3_ca_crt.pem"):
            c = [cert_info(rd(nd, f"SRK{i}_sha256_secp384r1_v3_ca_crt.pem")) for i in (1, 2, 3, 4)]
            ents = [hab_srk_entry(x["key"], bool(x["key_cert_sign"])) for x in c]
            assert hab_fuses(ents).hex() == "bcd8f444bd7f9ccd8048a8bcf8c2764f085058ed527c6978037a94ffb81c14e8", "nxpcrypto HAB P-384"
            assert hab_srk_table(ents) == rd(nd, "rot_mimxrt1176.bin"), "nxpcrypto HAB table file"
            n["stored_rkth"] += 2
    kd = os.path.join("_data", "keys", "ecc256")
    if have(kd, "srk0_ecc256.pub"):
        ks = [der_public_numbers(rd(kd, f"srk{i}_ecc256.pub")) for i in range(4)]
        assert ahab_srk_hash(ks).hex().upper() == "CB2CC774B2DCEC92C840ECA0646B78F8D3661D3A43ED265A490A13ACA75E190A", "AHAB fuse constant"
        n["stored_rkth"] += 1
    # 3. stored AHAB containers: every SRK table found is rebuilt byte for byte from the numbers it carries
    adir = os.path.join(repo_tests, "nxpimage", "data", "ahab")
    if os.path.isdir(adir):
        for f in sorted(os.listdir(adir)):
            p = os.path.join(adir, f)
            if not (os.path.isfile(p) and f.endswith(".bin")):
                continue
            d = open(p, "rb").read()
            i = d.find(b"\xd7")
            while i >= 0:
                if i + 16 <= len(d) and d[i + 3] == 0x42 and d[i + 4] == 0xE1 and d[i + 7] in (0x22, 0x27):
                    ln = struct.unpack_from("<H", d, i + 1)[0]
                    if 100 < ln < 3000 and i + ln <= len(d):
                        t = ahab_split_table(d[i:i + ln])
                        assert len(set(t["ca"])) == 1 and ahab_srk_table(t["keys"], t["ca"][0]) == t["table"], f"AHAB table in {f}@{i}"
                        n["ahab_tables"] += 1
                i = d.find(b"\xd7", i + 1)
    # 4. the DER reader against the raw numbers of the committed pool (written by another library at fixture time)
    if pki is not None:
        for kind in pki.KINDS:
            for name in pki.names(kind):
                num = pki.numbers(name)
                want = rsa_key(num["n"], num["e"]) if num["type"] == "rsa" else ecc_key(num["x"], num["y"], num["size"])
                for what in ("pub", "cert", "nonca"):
                    for fmt in ("pem", "der"):
                        got = der_public_numbers(pki.data(name, what, fmt))
                        assert got == want, f"DER reader: {name}.{what}.{fmt}"
                        n["der_pool"] += 1
                ci, cn = cert_info(pki.data(name, "cert", "der")), cert_info(pki.data(name, "nonca", "der"))
                assert ci["ca"] is True and cn["ca"] is False and ci["key_cert_sign"] is None, f"cert flags of {name}"
    # 5. internal structure
    k = ecc_key(1, 2, 32)
    assert len(ahab_srk_record(k)) == 76 and len(ahab_srk_table([k] * 4)) == 308
    assert len(ahab_v2_srk_record(k, 0)) == 76 and ahab_v2_srk_data(k, 3)[:8] == bytes([0, 72, 0, 0x5D, 3, 0, 0, 0])
    r = rsa_key((1 << 2047) | 12345, 65537)
    assert len(ahab_srk_record(r)) == 12 + 256 + 4 and len(hab_srk_entry(r)) == 12 + 256 + 3
    assert v1_fuses(bytes(range(32)))[0] == 0x03020100 and len(v1_table([r])) == 128
    n["structure"] += 5
    if n["hab_cst"] == 0 or n["stored_rkth"] == 0:
        raise AssertionError("no third-party ground truth found under " + repo_tests)
    return n
