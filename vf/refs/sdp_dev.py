"""Reference model of the i.MX ROM Serial Download Protocol (SDP) and of SDPS, as seen by a host.

Written from the public description of the protocol (i.MX 6/7/RT reference manuals, "Serial Downloader",
and the MX28 / i.MX8-9 "SDPS" boot ROM chapters); standard library only, imports nothing from ``spsdk``.

SDP: a 16-byte big-endian command ``tag16 address32 format8 count32 data32 reserved8``.  The ROM answers every
command with the four-byte HAB mode word (0x56787856 open, 0x12343412 closed), followed by

* READ_REGISTER   0x0101: ``count`` bytes of data,
* WRITE_REGISTER  0x0202: status word 0x128A8A12,
* WRITE_FILE      0x0404: (after ``count`` data bytes from the host) status word 0x88888888,
* ERROR_STATUS    0x0505: four-byte error status,
* WRITE_CSF 0x0606 / WRITE_DCD 0x0A0A: (after the data) status word 0x128A8A12,
* JUMP_ADDRESS    0x0B0B: nothing more when the jump is taken,
* SKIP_DCD_HEADER 0x0C0C: status word 0x900DD009,
* SET_BAUDRATE    0x0D0D: status word 0x09D00D90.

UART: raw bytes.  USB-HID: report 1 = command, report 2 = data (up to 1024 bytes per report), report 3 = HAB
word (4 bytes), report 4 = response / data (always 64 bytes, zero padded).

SDPS: optional 31-byte "BLTC" command block (MX28/MX815 class: carries the total length), then the image in
data reports of ``pack_size`` bytes; the ROM sends nothing back.
"""
from __future__ import annotations

import random
import struct

HAB_OPEN = 0x56787856
HAB_CLOSED = 0x12343412
WRITE_DATA_OK = 0x128A8A12
WRITE_FILE_OK = 0x88888888
SKIP_DCD_OK = 0x900DD009
BAUDRATE_OK = 0x09D00D90
HAB_SUCCESS = 0xF0F0F0F0

T_READ, T_WRITE, T_WRITE_FILE, T_ERROR_STATUS, T_WRITE_CSF, T_WRITE_DCD, T_JUMP, T_SKIP_DCD, T_SET_BAUD = (
    0x0101, 0x0202, 0x0404, 0x0505, 0x0606, 0x0A0A, 0x0B0B, 0x0C0C, 0x0D0D)

ACCESS_DENIED = 0x33220000  # any word other than the success marker means failure to the host


class SdpCore:
    """Transport independent ROM model."""

    RAM_BASE, RAM_SIZE = 0x0090_0000, 0x3_0000
    REG_BASE, REG_SIZE = 0x400D_8000, 0x1000

    def __init__(self, seed: int = 0, hab_closed: bool = False):
        rnd = random.Random(f"sdp-dev/{seed}")
        self.hab_word = HAB_CLOSED if hab_closed else HAB_OPEN
        self.regions = {
            "ram": (self.RAM_BASE, bytearray(rnd.randbytes(self.RAM_SIZE))),
            "regs": (self.REG_BASE, bytearray(rnd.randbytes(self.REG_SIZE))),
        }
        self.error_status = rnd.choice([HAB_SUCCESS, 0x33180AF0, 0x69000000 | rnd.getrandbits(24)])
        self.dcd = None
        self.csf = None
        self.jumps: list[int] = []
        self.baudrate = 115200
        self.dcd_skipped = False
        self.journal: list[dict] = []
        self.anomalies: list[str] = []
        self.pending = None  # data phase in progress
        # plans
        self.status_plan: dict[int, int] = {}  # command index -> status word sent instead of the regular one
        self.hab_plan: dict[int, int] = {}  # command index -> HAB word sent instead of the regular one
        self.short_plan: dict[int, int] = {}  # command index -> read data bytes withheld

    def _span(self, addr: int, length: int):
        for base, buf in self.regions.values():
            if base <= addr and addr + length <= base + len(buf):
                return buf, addr - base
        return None

    def peek(self, addr: int, length: int) -> bytes:
        sp = self._span(addr, length)
        if sp is None:
            raise KeyError(f"model has no memory at {addr:#x}+{length}")
        return bytes(sp[0][sp[1]:sp[1] + length])

    def command(self, raw: bytes) -> list:
        """A 16-byte command arrived; returns emissions [(kind, bytes)] with kind hab | data | status."""
        idx = len(self.journal)
        if self.pending is not None:
            self.pending["entry"]["abandoned"] = True
            self.pending = None
        entry = {"i": idx, "raw": bytes(raw), "tag": None, "data_in": None, "data_out": None, "hab": None, "status": None,
                 "abandoned": False}
        self.journal.append(entry)
        if len(raw) != 16:
            self.anomalies.append(f"command {idx}: {len(raw)} bytes")
            return []
        tag, addr, fmt, count, value, rsvd = struct.unpack(">HIBIIB", raw)
        entry.update(tag=tag, address=addr, format=fmt, count=count, value=value, reserved=rsvd)
        hab = self.hab_plan.get(idx, self.hab_word)
        entry["hab"] = hab
        out = [("hab", struct.pack(">I", hab))]

        def status(word: int) -> None:
            word = self.status_plan.get(idx, word)
            entry["status"] = word
            out.append(("status", struct.pack(">I", word)))

        if tag == T_READ:
            sp = self._span(addr, count)
            if sp is None or fmt not in (8, 16, 32):
                entry["data_out"] = b""
                return out  # the ROM sends no data for a refused access
            data = bytes(sp[0][sp[1]:sp[1] + count])
            if idx in self.short_plan:
                data = data[:max(0, len(data) - self.short_plan[idx])]
            entry["data_out"] = data
            if data:
                out.append(("data", data))
            return out
        if tag == T_WRITE:
            sp = self._span(addr, fmt // 8 if fmt in (8, 16, 32) else 4)
            ok = sp is not None and fmt in (8, 16, 32) and idx not in self.status_plan
            if ok:
                n = fmt // 8
                sp[0][sp[1]:sp[1] + n] = (value & ((1 << fmt) - 1)).to_bytes(n, "little")
                entry["applied"] = True
            status(WRITE_DATA_OK if sp is not None and fmt in (8, 16, 32) else ACCESS_DENIED)
            return out
        if tag in (T_WRITE_FILE, T_WRITE_DCD, T_WRITE_CSF):
            entry["data_in"] = b""
            self.pending = {"entry": entry, "remaining": count, "buf": bytearray(), "out": out, "status": status,
                            "tag": tag, "addr": addr, "idx": idx}
            if count == 0:
                return self._finish()
            return []
        if tag == T_ERROR_STATUS:
            status(self.error_status)
            return out
        if tag == T_SKIP_DCD:
            if idx not in self.status_plan:
                self.dcd_skipped = True
            status(SKIP_DCD_OK)
            return out
        if tag == T_JUMP:
            self.jumps.append(addr)
            return out
        if tag == T_SET_BAUD:
            if idx not in self.status_plan:
                self.baudrate = addr
            status(BAUDRATE_OK)
            return out
        self.anomalies.append(f"command {idx}: unknown tag {tag:#06x}")
        return out

    def data(self, chunk: bytes) -> list:
        """Data bytes of a write-file / DCD / CSF data phase."""
        p = self.pending
        if p is None:
            if any(chunk):
                self.anomalies.append(f"{len(chunk)} data bytes outside a data phase")
            return []
        take = chunk[:p["remaining"]]
        p["buf"] += take
        p["remaining"] -= len(take)
        p["entry"]["data_in"] = bytes(p["buf"])
        if p["remaining"] == 0:
            return self._finish()
        return []

    def _finish(self) -> list:
        p, self.pending = self.pending, None
        data = bytes(p["buf"])
        entry = p["entry"]
        entry["data_in"] = data
        tag, addr, idx = p["tag"], p["addr"], p["idx"]
        sp = self._span(addr, len(data))
        okw = WRITE_FILE_OK if tag == T_WRITE_FILE else WRITE_DATA_OK
        if sp is None:
            p["status"](ACCESS_DENIED)
        else:
            if idx not in self.status_plan:
                sp[0][sp[1]:sp[1] + len(data)] = data
                entry["applied"] = True
                if tag == T_WRITE_DCD:
                    self.dcd = data
                elif tag == T_WRITE_CSF:
                    self.csf = data
            p["status"](okw)
        return p["out"]


class SdpUart:
    """Raw byte stream in front of an ``SdpCore``."""

    def __init__(self, core: SdpCore):
        self.core = core
        self.rx = bytearray()
        self.out: list = []

    def take(self) -> list:
        out, self.out = self.out, []
        return out

    def host_write(self, data: bytes) -> None:
        self.rx += data
        while self.rx:
            if self.core.pending is not None:
                n = min(len(self.rx), self.core.pending["remaining"])
                chunk = bytes(self.rx[:n])
                del self.rx[:n]
                self.out += self.core.data(chunk)
                continue
            if len(self.rx) < 16:
                return
            cmd = bytes(self.rx[:16])
            del self.rx[:16]
            self.out += self.core.command(cmd)


class SdpHid:
    """USB-HID reports in front of an ``SdpCore``."""

    DATA_REPORT = 1024

    def __init__(self, core: SdpCore, exact_last: bool = False):
        self.core = core
        self.out: list = []
        self.host_reports: list = []
        self.exact_last = exact_last  # do not pad the report-4 payloads (some ROM versions send short last reports)

    def take(self) -> list:
        out, self.out = self.out, []
        return out

    def _send(self, ems: list) -> None:
        for kind, raw in ems:
            if kind == "hab":
                self.out.append((kind, b"\x03" + raw))
            elif kind == "status":
                self.out.append((kind, b"\x04" + raw + (b"" if self.exact_last else bytes(60))))
            else:
                for i in range(0, len(raw), 64):
                    chunk = raw[i:i + 64]
                    if not self.exact_last:
                        chunk = chunk + bytes(64 - len(chunk))
                    self.out.append((kind, b"\x04" + chunk))

    def host_write(self, report: bytes) -> None:
        if not report:
            self.core.anomalies.append("empty report")
            return
        rid, payload = report[0], report[1:]
        self.host_reports.append((rid, len(payload)))
        if len(payload) > self.DATA_REPORT:
            self.core.anomalies.append(f"report {rid} carries {len(payload)} bytes (> {self.DATA_REPORT})")
        if rid == 1:
            if len(payload) < 16 or any(payload[16:]):
                self.core.anomalies.append(f"command report with {len(payload)} payload bytes / non-zero padding")
            self._send(self.core.command(bytes(payload[:16])))
        elif rid == 2:
            p = self.core.pending
            if p is not None and len(payload) < min(p["remaining"], self.DATA_REPORT):
                self.core.anomalies.append("short data report in the middle of a data phase")
            if p is not None and any(payload[p["remaining"]:]):
                self.core.anomalies.append("non-zero padding after the last data byte")
            self._send(self.core.data(bytes(payload)))
        else:
            self.core.anomalies.append(f"unexpected report id {rid}")


class SdpsHid:
    """SDPS boot ROM: swallows an optional BLTC command block and the image, never answers."""

    def __init__(self, no_cmd: bool, pack_size: int):
        self.no_cmd = no_cmd
        self.pack_size = pack_size
        self.cbw = None
        self.announced = None
        self.received = bytearray()
        self.reports: list = []
        self.anomalies: list[str] = []

    def take(self) -> list:
        return []

    def host_write(self, report: bytes) -> None:
        rid, payload = report[0], report[1:]
        self.reports.append((rid, len(payload)))
        if len(payload) > self.pack_size:
            self.anomalies.append(f"report {rid} carries {len(payload)} bytes (> pack size {self.pack_size})")
        if rid == 1:
            if self.no_cmd:
                self.anomalies.append("command block sent to a ROM that takes none")
            if self.cbw is not None or self.received:
                self.anomalies.append("command block is not the first report")
            body = bytes(payload[:31])
            if len(payload) < 31 or any(payload[31:]):
                self.anomalies.append("command block report shorter than 31 bytes or with non-zero padding")
            sig, tag, xfer, flags, cdb_cmd, cdb_len = struct.unpack_from("<3IB2xb", body)[:5] + (struct.unpack_from(">I", body, 16)[0],)
            self.cbw = {"signature": sig, "tag": tag, "length": xfer, "flags": flags, "command": cdb_cmd, "cdb_length": cdb_len}
            self.announced = xfer
        elif rid == 2:
            if not self.no_cmd and self.cbw is None:
                self.anomalies.append("data before the command block")
            self.received += payload
        else:
            self.anomalies.append(f"unexpected report id {rid}")

    def image(self) -> bytes:
        """What the ROM takes for the image: the announced length when there is a command block."""
        if self.announced is not None:
            return bytes(self.received[: self.announced])
        return bytes(self.received)


def selftest() -> dict:
    n = 0
    core = SdpCore(seed=3)
    u = SdpUart(core)
    # write-file in three pieces, then read back
    data = bytes(range(200))
    u.host_write(struct.pack(">HIBIIB", T_WRITE_FILE, core.RAM_BASE + 8, 0, 200, 0, 0))
    assert u.take() == []
    u.host_write(data[:50])
    u.host_write(data[50:199])
    assert u.take() == []
    u.host_write(data[199:])
    assert u.take() == [("hab", struct.pack(">I", HAB_OPEN)), ("status", struct.pack(">I", WRITE_FILE_OK))]
    u.host_write(struct.pack(">HIBIIB", T_READ, core.RAM_BASE + 8, 32, 200, 0, 0))
    em = u.take()
    assert em[0][0] == "hab" and em[1] == ("data", data)
    n += 3
    # register write, little-endian in memory, 16-bit access leaves the neighbours alone
    before = core.peek(core.REG_BASE, 8)
    u.host_write(struct.pack(">HIBIIB", T_WRITE, core.REG_BASE + 2, 16, 2, 0xAABBCCDD, 0))
    assert u.take()[1] == ("status", struct.pack(">I", WRITE_DATA_OK))
    assert core.peek(core.REG_BASE, 8) == before[:2] + b"\xdd\xcc" + before[4:]
    n += 2
    # HID: reports are padded, HAB closed device
    core = SdpCore(seed=4, hab_closed=True)
    h = SdpHid(core)
    h.host_write(b"\x01" + struct.pack(">HIBIIB", T_READ, core.RAM_BASE, 32, 70, 0, 0) + bytes(1008))
    em = h.take()
    assert em[0] == ("hab", b"\x03" + struct.pack(">I", HAB_CLOSED)) and [len(e[1]) for e in em[1:]] == [65, 65]
    assert (em[1][1][1:] + em[2][1][1:])[:70] == core.peek(core.RAM_BASE, 70) and not core.anomalies
    n += 2
    # SDPS with command block (test vector of the MX28 ROM description: "BLTC", tag 1, length, flags 0, command 2, big-endian length)
    s = SdpsHid(no_cmd=False, pack_size=1024)
    cbw = b"BLTC" + struct.pack("<II", 1, 100) + b"\x00\x00\x00\x02" + struct.pack(">I", 100) + bytes(11)
    assert len(cbw) == 31
    s.host_write(b"\x01" + cbw + bytes(1024 - 31))
    s.host_write(b"\x02" + b"\xad" * 100 + bytes(924))
    assert s.image() == b"\xad" * 100 and s.cbw["command"] == 2 and s.cbw["cdb_length"] == 100 and not s.anomalies, s.anomalies
    n += 1
    return {"vectors": n}


# Report payload the ROM of each SDPS family takes per HID transfer, and whether it wants the BLTC command block first
# (NXP mfgtools / uuu ROM table: the ROMs that receive on interrupt endpoint 1 take 1020 bytes, the ones that receive on the
# control endpoint 1024).  Independent of the database under test; a family that is not listed is not judged by it.
SDPS_ROM_TABLE = {
    "mimx28": (1024, True), "mimx8x": (1024, False), "mimx8mn": (1020, False), "mimx8mp": (1020, False), "mimx8ulp": (1020, False),
    "mimx9131": (1020, False), "mimx9352": (1020, False), "mimx943": (1020, False), "mimx9596": (1020, False),
}
