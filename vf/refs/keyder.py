"""Independent reader for serialised asymmetric keys (standard library only, nothing from spsdk
or cryptography): strict DER (X.690), PEM armour (RFC 7468), SubjectPublicKeyInfo (RFC 5280 /
RFC 3279 / RFC 5480), PKCS#1 RSAPublicKey / RSAPrivateKey (RFC 8017 A.1), SEC 1 ECPrivateKey
(RFC 5915), PKCS#8 PrivateKeyInfo (RFC 5208) and EncryptedPrivateKeyInfo with PBES2 /
PBKDF2-HMAC-SHA* / AES-CBC (RFC 8018; PBKDF2 from hashlib, AES-CBC from vf.refs.modes), and the
outer layer of an X.509 certificate (tbsCertificate bytes, SubjectPublicKeyInfo, signature).

Used by C08 as the oracle for "the exported bytes contain exactly these numbers".  Every decoder
raises :class:`ValueError` for anything that is not strict DER of the expected shape and returns
plain dicts of ints::

    {"type": "rsa", "n", "e"[, "d", "p", "q", "dp", "dq", "qi"]}
    {"type": "ecc", "curve": "p256"|"p384"|"p521", "x", "y"[, "d", "d_len"]}
"""
from __future__ import annotations

import base64
import hashlib
import re

from . import modes

__all__ = [
    "tlv", "seq_items", "unarmor", "parse_spki", "parse_rsa_public_pkcs1", "parse_public_any",
    "parse_pkcs8", "is_encrypted_pkcs8", "decrypt_pkcs8", "parse_certificate", "selftest",
]

OID_RSA = "1.2.840.113549.1.1.1"
OID_EC = "1.2.840.10045.2.1"
OID_CURVES = {"1.2.840.10045.3.1.7": "p256", "1.3.132.0.34": "p384", "1.3.132.0.35": "p521"}
COORD = {"p256": 32, "p384": 48, "p521": 66}
OID_PBES2 = "1.2.840.113549.1.5.13"
OID_PBKDF2 = "1.2.840.113549.1.5.12"
OID_HMAC = {"1.2.840.113549.2.7": "sha1", "1.2.840.113549.2.9": "sha256", "1.2.840.113549.2.10": "sha384",
            "1.2.840.113549.2.11": "sha512"}
OID_AES_CBC = {"2.16.840.1.101.3.4.1.2": 16, "2.16.840.1.101.3.4.1.22": 24, "2.16.840.1.101.3.4.1.42": 32}
OID_SIG = {
    "1.2.840.113549.1.1.5": ("rsa-v15", "sha1"), "1.2.840.113549.1.1.11": ("rsa-v15", "sha256"),
    "1.2.840.113549.1.1.12": ("rsa-v15", "sha384"), "1.2.840.113549.1.1.13": ("rsa-v15", "sha512"),
    "1.2.840.113549.1.1.10": ("rsa-pss", None),
    "1.2.840.10045.4.3.2": ("ecdsa", "sha256"), "1.2.840.10045.4.3.3": ("ecdsa", "sha384"),
    "1.2.840.10045.4.3.4": ("ecdsa", "sha512"), "1.2.840.10045.4.1": ("ecdsa", "sha1"),
}


# ------------------------------------------------------------------------------- DER ---
def tlv(data: bytes, pos: int = 0) -> tuple[int, bytes, int]:
    """Read one definite-length DER element at ``pos``: (tag byte, contents, position after it)."""
    if pos + 2 > len(data):
        raise ValueError("DER: truncated header")
    tag = data[pos]
    if tag & 0x1F == 0x1F:
        raise ValueError("DER: high tag numbers not supported")
    first = data[pos + 1]
    pos += 2
    if first < 0x80:
        length = first
    else:
        cnt = first & 0x7F
        if cnt == 0 or cnt > 4 or pos + cnt > len(data):
            raise ValueError("DER: bad length form")
        if data[pos] == 0:
            raise ValueError("DER: non-minimal length")
        length = int.from_bytes(data[pos:pos + cnt], "big")
        if length < 0x80:
            raise ValueError("DER: non-minimal length")
        pos += cnt
    if pos + length > len(data):
        raise ValueError("DER: contents run past the end")
    return tag, bytes(data[pos:pos + length]), pos + length


def seq_items(contents: bytes) -> list[tuple[int, bytes, bytes]]:
    """All elements inside a constructed value: list of (tag, contents, whole element bytes)."""
    out = []
    pos = 0
    while pos < len(contents):
        tag, val, nxt = tlv(contents, pos)
        out.append((tag, val, contents[pos:nxt]))
        pos = nxt
    return out


def _whole(data: bytes, want_tag: int, what: str) -> bytes:
    tag, val, nxt = tlv(data, 0)
    if tag != want_tag:
        raise ValueError(f"{what}: tag {tag:#x}, expected {want_tag:#x}")
    if nxt != len(data):
        raise ValueError(f"{what}: {len(data) - nxt} trailing bytes")
    return val


def _uint(tag: int, val: bytes, what: str) -> int:
    if tag != 0x02 or not val:
        raise ValueError(f"{what}: INTEGER expected")
    if val[0] & 0x80:
        raise ValueError(f"{what}: negative INTEGER")
    if len(val) > 1 and val[0] == 0 and not val[1] & 0x80:
        raise ValueError(f"{what}: non-minimal INTEGER")
    return int.from_bytes(val, "big")


def _oid(tag: int, val: bytes) -> str:
    if tag != 0x06 or not val:
        raise ValueError("OBJECT IDENTIFIER expected")
    arcs = []
    acc = 0
    for i, b in enumerate(val):
        acc = (acc << 7) | (b & 0x7F)
        if not b & 0x80:
            arcs.append(acc)
            acc = 0
        elif i == len(val) - 1:
            raise ValueError("OID: truncated arc")
    first = arcs[0]
    head = [0, first] if first < 40 else ([1, first - 40] if first < 80 else [2, first - 80])
    return ".".join(str(a) for a in head + arcs[1:])


def _bitstring(tag: int, val: bytes, what: str) -> bytes:
    if tag != 0x03 or not val or val[0] != 0:
        raise ValueError(f"{what}: BIT STRING with 0 unused bits expected")
    return val[1:]


def unarmor(pem: bytes) -> tuple[str, bytes]:
    """RFC 7468: the first armoured block -> (label, DER)."""
    text = bytes(pem).decode("ascii")
    m = re.search(r"-----BEGIN ([A-Z0-9 ]+)-----\r?\n(.*?)-----END \1-----", text, re.S)
    if not m:
        raise ValueError("PEM: no armoured block")
    body = "".join(m.group(2).split())
    return m.group(1), base64.b64decode(body, validate=True)


# ------------------------------------------------------------------------- public keys ---
def _algorithm(alg_contents: bytes) -> tuple[str, list]:
    items = seq_items(alg_contents)
    if not items:
        raise ValueError("AlgorithmIdentifier: empty")
    return _oid(items[0][0], items[0][1]), items[1:]


def parse_rsa_public_pkcs1(der: bytes) -> dict:
    items = seq_items(_whole(der, 0x30, "RSAPublicKey"))
    if len(items) != 2:
        raise ValueError("RSAPublicKey: two INTEGERs expected")
    return {"type": "rsa", "n": _uint(*items[0][:2], "n"), "e": _uint(*items[1][:2], "e")}


def _ec_point(curve: str, point: bytes) -> tuple[int, int]:
    size = COORD[curve]
    if len(point) != 1 + 2 * size or point[0] != 0x04:
        raise ValueError(f"EC point: uncompressed point of {1 + 2 * size} bytes expected, got {len(point)}")
    return int.from_bytes(point[1:1 + size], "big"), int.from_bytes(point[1 + size:], "big")


def _named_curve(params: list) -> str:
    if len(params) != 1:
        raise ValueError("EC parameters: namedCurve expected")
    oid = _oid(params[0][0], params[0][1])
    if oid not in OID_CURVES:
        raise ValueError(f"EC parameters: unknown curve {oid}")
    return OID_CURVES[oid]


def parse_spki(der: bytes) -> dict:
    items = seq_items(_whole(der, 0x30, "SubjectPublicKeyInfo"))
    if len(items) != 2 or items[0][0] != 0x30:
        raise ValueError("SubjectPublicKeyInfo: SEQUENCE { algorithm, BIT STRING } expected")
    oid, params = _algorithm(items[0][1])
    key = _bitstring(items[1][0], items[1][1], "subjectPublicKey")
    if oid == OID_RSA:
        if len(params) != 1 or params[0][0] != 0x05 or params[0][1]:
            raise ValueError("rsaEncryption: NULL parameters expected")
        return parse_rsa_public_pkcs1(key)
    if oid == OID_EC:
        curve = _named_curve(params)
        x, y = _ec_point(curve, key)
        return {"type": "ecc", "curve": curve, "x": x, "y": y}
    raise ValueError(f"SubjectPublicKeyInfo: unsupported algorithm {oid}")


def parse_public_any(data: bytes) -> dict:
    """PEM or DER; SubjectPublicKeyInfo or PKCS#1 RSAPublicKey.  Adds "form": spki | pkcs1 and "armor"."""
    data = bytes(data)
    armor = None
    if data.lstrip().startswith(b"-----BEGIN"):
        armor, data = unarmor(data)
        if armor not in ("PUBLIC KEY", "RSA PUBLIC KEY"):
            raise ValueError(f"PEM label {armor!r} is not a public key")
    try:
        out = parse_spki(data)
        out["form"] = "spki"
    except ValueError:
        out = parse_rsa_public_pkcs1(data)
        out["form"] = "pkcs1"
    if armor is not None and (armor == "RSA PUBLIC KEY") != (out["form"] == "pkcs1"):
        raise ValueError("PEM label does not match the structure")
    out["armor"] = armor
    return out


# ------------------------------------------------------------------------ private keys ---
def _parse_rsa_private(der: bytes) -> dict:
    items = seq_items(_whole(der, 0x30, "RSAPrivateKey"))
    if len(items) != 9:
        raise ValueError(f"RSAPrivateKey: 9 INTEGERs expected, got {len(items)}")
    vals = [_uint(t, v, "RSAPrivateKey") for t, v, _ in items]
    if vals[0] != 0:
        raise ValueError("RSAPrivateKey: version 0 expected")
    return dict(zip(("n", "e", "d", "p", "q", "dp", "dq", "qi"), vals[1:]), type="rsa")


def _parse_ec_private(der: bytes, curve: str | None) -> dict:
    items = seq_items(_whole(der, 0x30, "ECPrivateKey"))
    if len(items) < 2 or _uint(items[0][0], items[0][1], "ECPrivateKey.version") != 1 or items[1][0] != 0x04:
        raise ValueError("ECPrivateKey: version 1 and OCTET STRING expected")
    out = {"type": "ecc", "d": int.from_bytes(items[1][1], "big"), "d_len": len(items[1][1])}
    for tag, val, _ in items[2:]:
        if tag == 0xA0:
            inner = _named_curve(seq_items(val))
            if curve is not None and inner != curve:
                raise ValueError("ECPrivateKey: curve differs from the PKCS#8 algorithm parameters")
            curve = inner
        elif tag == 0xA1:
            sub = seq_items(val)
            if len(sub) != 1:
                raise ValueError("ECPrivateKey.publicKey: one BIT STRING expected")
            out["_point"] = _bitstring(sub[0][0], sub[0][1], "ECPrivateKey.publicKey")
        else:
            raise ValueError(f"ECPrivateKey: unexpected element {tag:#x}")
    if curve is None:
        raise ValueError("ECPrivateKey: no curve")
    out["curve"] = curve
    if out["d_len"] != COORD[curve]:
        # RFC 5915 section 3: the octet string has length ceil(log2(n) / 8)
        raise ValueError(f"ECPrivateKey: private key octet string has {out['d_len']} bytes, {COORD[curve]} required")
    if "_point" in out:
        out["x"], out["y"] = _ec_point(curve, out.pop("_point"))
    return out


def is_encrypted_pkcs8(der: bytes) -> bool:
    """True for EncryptedPrivateKeyInfo, False for PrivateKeyInfo, ValueError for neither."""
    items = seq_items(_whole(der, 0x30, "PKCS#8"))
    if len(items) == 2 and items[0][0] == 0x30 and items[1][0] == 0x04:
        return True
    if len(items) >= 3 and items[0][0] == 0x02 and items[1][0] == 0x30 and items[2][0] == 0x04:
        return False
    raise ValueError("neither PrivateKeyInfo nor EncryptedPrivateKeyInfo")


def parse_pkcs8(der: bytes) -> dict:
    """Unencrypted PKCS#8 PrivateKeyInfo -> numbers."""
    items = seq_items(_whole(der, 0x30, "PrivateKeyInfo"))
    if len(items) < 3 or items[1][0] != 0x30 or items[2][0] != 0x04:
        raise ValueError("PrivateKeyInfo: SEQUENCE { version, algorithm, OCTET STRING } expected")
    if _uint(items[0][0], items[0][1], "PrivateKeyInfo.version") not in (0, 1):
        raise ValueError("PrivateKeyInfo: version")
    oid, params = _algorithm(items[1][1])
    if oid == OID_RSA:
        return _parse_rsa_private(items[2][1])
    if oid == OID_EC:
        return _parse_ec_private(items[2][1], _named_curve(params))
    raise ValueError(f"PrivateKeyInfo: unsupported algorithm {oid}")


def decrypt_pkcs8(der: bytes, password: bytes) -> bytes:
    """EncryptedPrivateKeyInfo (PBES2, PBKDF2-HMAC-SHAx, AES-CBC) -> PrivateKeyInfo DER.

    A wrong password shows as ValueError (bad padding or not a PrivateKeyInfo)."""
    items = seq_items(_whole(der, 0x30, "EncryptedPrivateKeyInfo"))
    if len(items) != 2 or items[0][0] != 0x30 or items[1][0] != 0x04:
        raise ValueError("EncryptedPrivateKeyInfo: SEQUENCE { algorithm, OCTET STRING } expected")
    oid, params = _algorithm(items[0][1])
    if oid != OID_PBES2 or len(params) != 1 or params[0][0] != 0x30:
        raise ValueError(f"unsupported encryption scheme {oid}")
    kdf_enc = seq_items(params[0][1])
    if len(kdf_enc) != 2:
        raise ValueError("PBES2-params")
    kdf_oid, kdf_params = _algorithm(kdf_enc[0][1])
    enc_oid, enc_params = _algorithm(kdf_enc[1][1])
    if kdf_oid != OID_PBKDF2 or len(kdf_params) != 1:
        raise ValueError(f"unsupported KDF {kdf_oid}")
    kp = seq_items(kdf_params[0][1])
    if len(kp) < 2 or kp[0][0] != 0x04:
        raise ValueError("PBKDF2-params: specified salt expected")
    salt = kp[0][1]
    iterations = _uint(kp[1][0], kp[1][1], "iterationCount")
    prf = "sha1"
    rest = kp[2:]
    if rest and rest[0][0] == 0x02:
        rest = rest[1:]  # optional keyLength
    if rest:
        prf_oid, _ = _algorithm(rest[0][1])
        if prf_oid not in OID_HMAC:
            raise ValueError(f"unsupported PRF {prf_oid}")
        prf = OID_HMAC[prf_oid]
    if enc_oid not in OID_AES_CBC or len(enc_params) != 1 or enc_params[0][0] != 0x04 or len(enc_params[0][1]) != 16:
        raise ValueError(f"unsupported cipher {enc_oid}")
    key = hashlib.pbkdf2_hmac(prf, bytes(password), salt, iterations, OID_AES_CBC[enc_oid])
    plain = modes.cbc_decrypt(key, enc_params[0][1], items[1][1])
    out = modes.pkcs7_unpad(plain)
    if is_encrypted_pkcs8(out):
        raise ValueError("decrypted data is not a PrivateKeyInfo")
    return out


# ------------------------------------------------------------------------- certificate ---
def parse_certificate(der: bytes) -> dict:
    """Outer layer of an X.509 certificate: {"tbs": bytes, "spki": bytes, "key": numbers,
    "sig_alg": (scheme, hash) or oid string, "signature": bytes, "serial": int}."""
    items = seq_items(_whole(der, 0x30, "Certificate"))
    if len(items) != 3 or items[0][0] != 0x30 or items[1][0] != 0x30:
        raise ValueError("Certificate: SEQUENCE { tbs, algorithm, BIT STRING } expected")
    tbs = seq_items(items[0][1])
    idx = 1 if tbs and tbs[0][0] == 0xA0 else 0
    if len(tbs) < idx + 6:
        raise ValueError("tbsCertificate: too few fields")
    serial = int.from_bytes(tbs[idx][1], "big", signed=True)
    spki = tbs[idx + 5][2]
    oid, _ = _algorithm(items[1][1])
    inner_oid, _ = _algorithm(tbs[idx + 1][1])
    if oid != inner_oid:
        raise ValueError("Certificate: signatureAlgorithm differs from tbsCertificate.signature")
    return {"tbs": items[0][2], "spki": spki, "key": parse_spki(spki), "sig_alg": OID_SIG.get(oid, oid),
            "signature": _bitstring(items[2][0], items[2][1], "signatureValue"), "serial": serial}


# ---------------------------------------------------------------------------- selftest ---
# RFC 5915-shaped / RFC 8017-shaped examples assembled by hand from RFC 6979 A.2.5 key material (P-256)
_P256_D = "C9AFA9D845BA75166B5C215767B1D6934E50C3DB36E89B127B8A622B120F6721"
_P256_X = "60FED4BA255A9D31C961EB74C6356D68C049B8923B61FA6CE669622E60F29FB6"
_P256_Y = "7903FE1008B8BC99A41AE9E95628BC64F2F1B20C2D7E9F5177A3C294D4462299"


def _enc(tag: int, body: bytes) -> bytes:
    n = len(body)
    if n < 0x80:
        return bytes([tag, n]) + body
    lb = n.to_bytes((n.bit_length() + 7) // 8, "big")
    return bytes([tag, 0x80 | len(lb)]) + lb + body


def selftest(pool_dir: str | None = None) -> int:
    """Known-structure tests + (when the committed pool is present) every pool file against index.json."""
    cnt = 0
    oid_ec = bytes.fromhex("06072a8648ce3d0201")
    oid_p256 = bytes.fromhex("06082a8648ce3d030107")
    point = b"\x04" + bytes.fromhex(_P256_X) + bytes.fromhex(_P256_Y)
    spki = _enc(0x30, _enc(0x30, oid_ec + oid_p256) + _enc(0x03, b"\x00" + point))
    got = parse_spki(spki)
    assert got == {"type": "ecc", "curve": "p256", "x": int(_P256_X, 16), "y": int(_P256_Y, 16)}, "hand-made SPKI"
    ecpriv = _enc(0x30, b"\x02\x01\x01" + _enc(0x04, bytes.fromhex(_P256_D)) + _enc(0xA1, _enc(0x03, b"\x00" + point)))
    p8 = _enc(0x30, b"\x02\x01\x00" + _enc(0x30, oid_ec + oid_p256) + _enc(0x04, ecpriv))
    got = parse_pkcs8(p8)
    assert got["d"] == int(_P256_D, 16) and got["x"] == int(_P256_X, 16) and got["curve"] == "p256", "hand-made PKCS#8"
    assert is_encrypted_pkcs8(p8) is False
    cnt += 3
    assert _oid(0x06, bytes.fromhex("2a864886f70d010101")) == OID_RSA and _oid(0x06, bytes.fromhex("2b81040023")) == "1.3.132.0.35"
    cnt += 2
    label, der = unarmor(b"-----BEGIN PUBLIC KEY-----\n" + base64.encodebytes(spki) + b"-----END PUBLIC KEY-----\n")
    assert (label, der) == ("PUBLIC KEY", spki), "PEM armour"
    cnt += 1
    # short private-key octet string must be rejected (RFC 5915: fixed length)
    short = _enc(0x30, b"\x02\x01\x01" + _enc(0x04, bytes.fromhex(_P256_D)[1:]))
    for label, bad in (("short d", _enc(0x30, b"\x02\x01\x00" + _enc(0x30, oid_ec + oid_p256) + _enc(0x04, short))),
                       ("trailing", spki + b"\x00"), ("truncated", spki[:-1]), ("non-minimal length", b"\x30\x81\x03\x02\x01\x00"),
                       ("empty", b"")):
        try:
            parse_pkcs8(bad) if label == "short d" else parse_spki(bad)
        except ValueError:
            cnt += 1
        else:
            raise AssertionError("malformed input accepted: " + label)
    # PBES2 known answer: RFC 7914 section 11 style is scrypt; use PBKDF2 vector from RFC 7914 section 11 (PBKDF2-HMAC-SHA-256)
    assert hashlib.pbkdf2_hmac("sha256", b"passwd", b"salt", 1, 64).hex().startswith("55ac046e56e3089fec1691c22544b605"), "PBKDF2"
    cnt += 1
    if pool_dir:
        import json
        import os

        with open(os.path.join(pool_dir, "index.json"), encoding="utf-8") as f:
            idx = json.load(f)["keys"]
        for name, v in sorted(idx.items()):
            want_pub = {k: (int(v[k], 16) if isinstance(v[k], str) else v[k]) for k in ("n", "e", "x", "y") if k in v}
            want_d = int(v["d"], 16)

            def rd(suffix, name=name):
                with open(os.path.join(pool_dir, name + suffix), "rb") as f:
                    return f.read()

            for suffix in (".pub.der", ".pub.pem"):
                got = parse_public_any(rd(suffix))
                assert all(got[k] == w for k, w in want_pub.items()) and got["type"] == v["type"], name + suffix
                cnt += 1
            for suffix in (".der", ".pem"):
                raw = rd(suffix)
                if suffix == ".pem":
                    label, raw = unarmor(raw)
                    assert label == "PRIVATE KEY", name + suffix
                got = parse_pkcs8(raw)
                assert got["d"] == want_d and all(got[k] == w for k, w in want_pub.items()), name + suffix
                if v["type"] == "rsa":
                    assert got["p"] * got["q"] == got["n"] and got["d"] * got["e"] % ((got["p"] - 1) * (got["q"] - 1) // _gcd(got["p"] - 1, got["q"] - 1)) == 1, name + " RSA relations"
                cnt += 1
            for suffix in (".crt.der", ".nonca.crt.der"):
                got = parse_certificate(rd(suffix))["key"]
                assert all(got[k] == w for k, w in want_pub.items()), name + suffix
                cnt += 1
    return cnt


def _gcd(a: int, b: int) -> int:
    while b:
        a, b = b, a % b
    return a


if __name__ == "__main__":
    import os

    print("keyder selftest:", selftest(os.path.join(os.path.dirname(os.path.dirname(os.path.dirname(os.path.abspath(__file__)))), "fixtures", "pki")))
