"""Independent CMS SignedData / X.509 checks for the HAB reference model (RFC 5652, RFC 5280).

Imports nothing from spsdk and nothing from `cryptography`.  ASN.1 *decoding* is done with the
third-party `asn1crypto` package; every cryptographic step is pure Python:
``vf.refs.rsa`` (RSASSA-PKCS1-v1_5 / PSS), ``vf.refs.ecdsa`` (NIST curves), ``hashlib`` digests and
``vf.refs.modes`` (AES-CCM).

What is checked for a detached SignedData blob (`verify_signed_data`):
  * ContentInfo.contentType = signedData, encapContentInfo.eContentType = data and *no* eContent;
  * exactly one SignerInfo; its digest algorithm is listed in digestAlgorithms;
  * signedAttrs present, with content-type = data and a message-digest attribute equal to the digest
    of the detached content (the concatenated blocks the caller hands in);
  * the signature verifies over the DER encoding of signedAttrs with the IMPLICIT [0] tag replaced by
    the universal SET OF tag 0x31 (RFC 5652 section 5.4), under the given public key;
  * when the signer's certificate is known: sid = issuerAndSerialNumber of that certificate.
`verify_certificate` checks the signature of a certificate's TBSCertificate under an issuer key.
"""
from __future__ import annotations

import hashlib
from typing import Any, Optional

from asn1crypto import cms as a_cms
from asn1crypto import x509 as a_x509

from vf.refs import ecdsa as r_ecdsa
from vf.refs import modes as r_modes
from vf.refs import rsa as r_rsa
from vf.refs.hab_ref import RefReject

CURVES = {"secp256r1": "p256", "secp384r1": "p384", "secp521r1": "p521"}
HASHES = {"sha1", "sha224", "sha256", "sha384", "sha512"}


def _need(cond: bool, code: str, **detail: Any) -> None:
    if not cond:
        raise RefReject(code, detail)


def _pubkey(pki) -> dict:
    algo = pki.algorithm
    if algo == "rsa":
        k = pki["public_key"].parsed
        return {"type": "rsa", "n": int(k["modulus"].native), "e": int(k["public_exponent"].native)}
    if algo == "ec":
        kind, name = pki.curve
        _need(kind == "named" and name in CURVES, "certificate-curve-unsupported", curve=str(name))
        x, y = pki["public_key"].to_coords()
        return {"type": "ecc", "curve": CURVES[name], "x": int(x), "y": int(y)}
    raise RefReject("certificate-key-algorithm-unsupported", {"algorithm": algo})


def parse_certificate(der: bytes) -> dict:
    """X.509 certificate -> the fields the HAB model needs (raises RefReject if it is not DER X.509)."""
    der = bytes(der)
    try:
        cert = a_x509.Certificate.load(der, strict=True)
        tbs = cert["tbs_certificate"]
        tbs_der = tbs.dump()
        sig_algo = cert["signature_algorithm"].signature_algo
        try:
            hash_algo = cert["signature_algorithm"].hash_algo
        except ValueError:
            hash_algo = None
        out = {
            "der": der,
            "tbs": tbs_der,
            "issuer_der": tbs["issuer"].dump(),
            "subject_der": tbs["subject"].dump(),
            "serial": int(tbs["serial_number"].native),
            "sig_algo": sig_algo,
            "hash_algo": hash_algo,
            "signature": bytes(cert["signature_value"].native),
            "pub": _pubkey(tbs["subject_public_key_info"]),
            "ca": bool(cert.ca),
            "key_cert_sign": bool(cert.key_usage_value and "key_cert_sign" in cert.key_usage_value.native),
            "subject": cert.subject.human_friendly,
        }
    except RefReject:
        raise
    except Exception as e:  # pylint: disable=broad-except
        raise RefReject("certificate-not-parsable", {"error": f"{type(e).__name__}: {e}"[:200]}) from e
    _need(tbs_der in der, "certificate-tbs-not-verbatim")
    return out


def verify_raw(pub: dict, message: bytes, signature: bytes, sig_algo: str, hash_algo: str) -> bool:
    """One signature over ``message`` (hashed with ``hash_algo``) under a raw public key."""
    if hash_algo not in HASHES:
        return False
    if pub["type"] == "rsa":
        if sig_algo == "rsassa_pkcs1v15":
            return bool(r_rsa.verify_pkcs1v15(pub["n"], pub["e"], message, signature, hash_algo))
        if sig_algo == "rsassa_pss":
            return bool(r_rsa.verify_pss(pub["n"], pub["e"], message, signature, hash_algo, hashlib.new(hash_algo).digest_size))
        return False
    if pub["type"] == "ecc":
        if sig_algo != "ecdsa":
            return False
        try:
            r, s = r_ecdsa.der_decode_sig(signature)
        except ValueError:
            return False
        return bool(r_ecdsa.verify_message(pub["curve"], (pub["x"], pub["y"]), message, r, s, hash_algo))
    return False


def verify_certificate(cert: dict, issuer_pub: dict) -> None:
    """The certificate's signature must verify under the issuer's public key."""
    _need(cert["hash_algo"] is not None, "certificate-signature-hash-unknown", sig_algo=cert["sig_algo"])
    algo_family = "rsa" if cert["sig_algo"].startswith("rsassa") else ("ecc" if cert["sig_algo"] == "ecdsa" else "?")
    _need(algo_family == issuer_pub["type"], "certificate-not-issued-by-installed-key", why="algorithm family differs",
          sig_algo=cert["sig_algo"], issuer_key=issuer_pub["type"], subject=cert["subject"])
    ok = verify_raw(issuer_pub, cert["tbs"], cert["signature"], cert["sig_algo"], cert["hash_algo"])
    _need(ok, "certificate-not-issued-by-installed-key", why="signature does not verify", subject=cert["subject"])


def _retag_set(implicit_der: bytes) -> bytes:
    """[0] IMPLICIT SET OF -> universal SET OF (only the identifier octet changes)."""
    _need(len(implicit_der) > 2 and implicit_der[0] == 0xA0, "cms-signed-attrs-tag", first=implicit_der[:1].hex())
    return b"\x31" + implicit_der[1:]


def _elements(contents: bytes) -> list[bytes]:
    """Split the contents octets of a constructed value into its TLVs (definite lengths only)."""
    out = []
    pos = 0
    while pos < len(contents):
        start = pos
        pos += 1  # identifier (single octet tags only - enough for Attribute ::= SEQUENCE)
        first = contents[pos]
        pos += 1
        if first < 0x80:
            ln = first
        else:
            k = first & 0x7F
            ln = int.from_bytes(contents[pos:pos + k], "big")
            pos += k
        pos += ln
        out.append(contents[start:pos])
    return out


def verify_signed_data(blob: bytes, content: bytes, signer_pub: dict, signer_cert: Optional[dict] = None, what: str = "") -> dict:
    """Detached CMS SignedData over ``content`` under ``signer_pub``; raises RefReject(code)."""
    blob = bytes(blob)
    try:
        ci = a_cms.ContentInfo.load(blob)
        consumed = len(ci.dump())
    except Exception as e:  # pylint: disable=broad-except
        raise RefReject("cms-not-parsable", {"what": what, "error": f"{type(e).__name__}: {e}"[:200]}) from e
    _need(blob[:consumed] == ci.dump() and not any(blob[consumed:]), "cms-trailing-garbage", what=what, blob=len(blob), der=consumed)
    try:
        _need(ci["content_type"].native == "signed_data", "cms-content-type", what=what, got=ci["content_type"].native)
        sd = ci["content"]
        eci = sd["encap_content_info"]
        _need(eci["content_type"].native == "data", "cms-encap-content-type", what=what, got=eci["content_type"].native)
        _need(eci["content"].native is None, "cms-not-detached", what=what)
        sis = sd["signer_infos"]
        _need(len(sis) == 1, "cms-signer-count", what=what, count=len(sis))
        si = sis[0]
        dalg = si["digest_algorithm"]["algorithm"].native
        listed = [d["algorithm"].native for d in sd["digest_algorithms"]]
        _need(dalg in HASHES, "cms-digest-algorithm", what=what, got=dalg)
        _need(dalg in listed, "cms-digest-algorithm-not-listed", what=what, got=dalg, listed=listed)
        attrs = si["signed_attrs"]
        _need(attrs is not None and len(attrs) > 0, "cms-no-signed-attrs", what=what)
        by_type: dict[str, list] = {}
        for a in attrs:
            by_type.setdefault(a["type"].native, []).append(a["values"])
        _need(len(by_type.get("content_type", [])) == 1 and len(by_type["content_type"][0]) == 1
              and by_type["content_type"][0][0].native == "data", "cms-attr-content-type", what=what)
        _need(len(by_type.get("message_digest", [])) == 1 and len(by_type["message_digest"][0]) == 1, "cms-attr-message-digest-missing", what=what)
        md = bytes(by_type["message_digest"][0][0].native)
        want = hashlib.new(dalg, content).digest()
        _need(md == want, "cms-message-digest-mismatch", what=what, in_blob=md.hex(), over_content=want.hex(), content_len=len(content))
        signing_time = None
        if "signing_time" in by_type:
            signing_time = by_type["signing_time"][0][0].native.isoformat()
        raw_attrs = attrs.dump()
        to_verify = _retag_set(raw_attrs)
        # DER wants SET OF elements sorted by encoding; observation only (the ROM hashes the bytes as stored)
        hdr = 2 if raw_attrs[1] < 0x80 else 2 + (raw_attrs[1] & 0x7F)
        els = _elements(raw_attrs[hdr:])
        attrs_sorted = els == sorted(els)
        sig_algo = si["signature_algorithm"].signature_algo
        signature = bytes(si["signature"].native)
        sid = si["sid"]
        if signer_cert is not None:
            _need(sid.name == "issuer_and_serial_number", "cms-sid-kind", what=what, got=sid.name)
            _need(sid.chosen["issuer"].dump() == signer_cert["issuer_der"] and int(sid.chosen["serial_number"].native) == signer_cert["serial"],
                  "cms-sid-does-not-name-installed-certificate", what=what)
    except RefReject:
        raise
    except Exception as e:  # pylint: disable=broad-except
        raise RefReject("cms-not-parsable", {"what": what, "error": f"{type(e).__name__}: {e}"[:200]}) from e
    fam = "rsa" if sig_algo.startswith("rsassa") else ("ecc" if sig_algo == "ecdsa" else sig_algo)
    _need(fam == signer_pub["type"], "cms-signature-algorithm-vs-key", what=what, sig_algo=sig_algo, key=signer_pub["type"])
    ok = verify_raw(signer_pub, to_verify, signature, sig_algo, dalg)
    _need(ok, "cms-signature-invalid", what=what, sig_algo=sig_algo, digest=dalg, sig_len=len(signature))
    return {"digest_algorithm": dalg, "sig_algo": sig_algo, "signing_time": signing_time, "attrs_sorted": attrs_sorted,
            "message_digest": md, "sig_len": len(signature)}


def ccm_decrypt(key: bytes, nonce: bytes, ciphertext: bytes, mac: bytes) -> bytes:
    """AES-CCM (no associated data) - returns the plaintext or raises RefReject('ccm-tag-mismatch')."""
    _need(len(key) in (16, 24, 32), "ccm-key-length", key_len=len(key))
    try:
        return r_modes.ccm_decrypt(bytes(key), bytes(nonce), bytes(ciphertext) + bytes(mac), b"", len(mac))
    except ValueError as e:
        raise RefReject("ccm-tag-mismatch", {"error": str(e), "nonce_len": len(nonce), "mac_len": len(mac), "data_len": len(ciphertext)}) from e


def selftest() -> int:
    """Negative controls on a hand-made structure are done from the property module (needs files)."""
    n = 0
    assert _retag_set(b"\xa0\x03\x02\x01\x05") == b"\x31\x03\x02\x01\x05"
    n += 1
    assert _elements(bytes.fromhex("020105" "30820001aa")) == [bytes.fromhex("020105"), bytes.fromhex("30820001aa")]
    n += 1
    return n
