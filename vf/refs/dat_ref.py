"""Independent field-level model of the NXP debug-authentication (DAT) artifacts.

Imports nothing from spsdk and nothing from ``cryptography``: layouts are written out with
``struct``, hashes come from ``hashlib``, signatures are checked with the pure-Python verifiers in
``vf.refs.rsa`` / ``vf.refs.ecdsa``.  Keys are plain dicts of raw numbers as returned by
``vf.pki.numbers``::

    {"type": "rsa", "n": int, "e": int}            (bits derived from n)
    {"type": "ecc", "curve": "p256|p384|p521", "x": int, "y": int}

Credential classes (``klass``)
------------------------------
``rsa``   protocol 1.0 (RSA-2048) / 1.1 (RSA-4096), LPC55S0x/1x/2x/6x, RT5xx/6xx class::

    <2H version | L SOCC | 16s UUID | 128s RoT meta (4 x SHA-256(n||e), zero filled) |
    DCK n||e(4 bytes) | L CC_SOCU | L CC_VU | L CC_BEACON | RoTK n||e(4 bytes) | signature

``ecc``   protocol 2.0 / 2.1 / 2.2 (P-256 / P-384 / P-521), LPC55S3x, MCX, KW45, RW61x class::

    <2H version | L SOCC | 16s UUID | L CC_SOCU | L CC_VU | L CC_BEACON |
    L flags (bit31 | used << 8 | count << 4) [| count x SHA-n(X||Y)  when count > 1] |
    RoTK X||Y | DCK X||Y | signature r||s

``ele``   EdgeLock-enclave class, version-1 container (i.MX 8ULP/93/95-A, RT118x)::

    <2H version | L SOCC | 16s UUID | L CC_SOCU | L CC_VU | L CC_BEACON |
    L flags | AHAB SRK table (4 records) | DCK (X||Y or n||e minimal) | signature by SRK[used]

``ele2``  EdgeLock-enclave class, version-2 container: the credential is an AHAB *certificate*
          (version 2, tag 0xAF), permission "debug" (0x02), permission data = <LLL SOCC, SOCU, beacon.

In every class the signature is the tail of the credential and covers **all** preceding bytes.
Signature schemes: RSASSA-PKCS1-v1_5 / SHA-256 in the ``rsa`` class, RSASSA-PSS (SHA-256, salt 32,
MGF1-SHA-256) wherever an EdgeLock device verifies; ECDSA raw r||s with SHA-256/384/512 by curve.

RoT hash (what is burnt into the device and sent in the challenge)
------------------------------------------------------------------
rsa: SHA-256 of the 128-byte table; ecc: one key -> SHA-n(X||Y), otherwise SHA-n(table) with n by
curve (256/384/512); ele: SHA-256 of the SRK table; ele2: not part of the credential.

Response (DAR): ``DC || <L authentication beacon || signature`` (protocol 1.x) or ``DC || <L beacon ||
16s UUID || signature`` (protocol 2.x); the signature is made by the DCK over ``DC || beacon ||
challenge`` (1.x) or ``DC || beacon || UUID (the device's, from the challenge) || challenge`` (2.x).  EdgeLock version 2: an AHAB signed-message container
(tag 0x89) with the DAT_AUTHENTICATION_REQ message, see :func:`decode_dar_v2`.

Challenge (DAC): ``<2H version | L SOCC | 16s UUID | L revocation | RoT hash (32/48/64) |
L CC_SOC_PINNED | L CC_SOC_DEFAULT | L CC_VU | 32s challenge``.
"""
from __future__ import annotations

import hashlib
import struct

from . import ecdsa as _ecdsa
from . import rsa as _rsa

__all__ = [
    "Reject", "proto_version", "key_from_fields", "rsa_pub_field", "ecc_pub_field", "key_hash",
    "rot_meta", "rot_hash", "srk_table_v1", "decode_srk_table_v1", "build_dc_body", "decode_dc",
    "verify", "signature_size", "build_dac", "decode_dac", "dar_message", "decode_dar",
    "decode_cert_v2", "decode_dar_v2", "selftest",
]


class Reject(Exception):
    """The model rejects the artifact (args[0] = reason)."""


CURVE_OF_MINOR = {0: "p256", 1: "p384", 2: "p521"}
COORD = {"p256": 32, "p384": 48, "p521": 66}
CURVE_HASH = {"p256": "sha256", "p384": "sha384", "p521": "sha512"}
RSA_BITS_OF_MINOR = {0: 2048, 1: 4096}

# AHAB constants (container specification)
SRK_TABLE_TAG, SRK_TABLE_VER = 0xD7, 0x42
SRK_RECORD_TAG = 0xE1
SIGN_RSA, SIGN_RSA_PSS, SIGN_ECDSA = 0x21, 0x22, 0x27  # 0x21 = RSA (PKCS#1 v1.5 padding), not used by the DAT tools
AHAB_HASH = {0: "sha256", 1: "sha384", 2: "sha512"}
AHAB_HASH_ID = {v: k for k, v in AHAB_HASH.items()}
AHAB_CURVE = {1: "p256", 2: "p384", 3: "p521"}
AHAB_CURVE_ID = {v: k for k, v in AHAB_CURVE.items()}
AHAB_RSA = {5: 2048, 6: 3072, 7: 4096}
AHAB_RSA_ID = {v: k for k, v in AHAB_RSA.items()}
SRK_FLAG_CA = 0x80
CERT_TAG, CERT_VER = 0xAF, 0x02
SRK_DATA_TAG = 0x5D
SIGNATURE_TAG = 0xD8
SIGBLOCK_TAG = 0x90
SRK_ARRAY_TAG = 0x5A
SIGNED_MSG_TAG = 0x89
PERM_DEBUG = 0x02
CMD_DAT_AUTH = 0xC8


# ------------------------------------------------------------------------------------------
# keys
def _bits(key) -> int:
    return key["n"].bit_length()


def proto_version(key) -> tuple:
    """Protocol version implied by the RoT key type."""
    if key["type"] == "rsa":
        b = _bits(key)
        if b == 2048:
            return (1, 0)
        if b == 4096:
            return (1, 1)
        raise Reject(f"RSA-{b} is not a DAT protocol key")
    return (2, {"p256": 0, "p384": 1, "p521": 2}[key["curve"]])


def _be(v: int, n: int) -> bytes:
    return v.to_bytes(n, "big")


def _min_be(v: int) -> bytes:
    return v.to_bytes(max(1, (v.bit_length() + 7) // 8), "big")


def rsa_pub_field(key, exp_len=None) -> bytes:
    """modulus || exponent, exponent minimal or of the given length."""
    n = _be(key["n"], (_bits(key) + 7) // 8)
    return n + (_min_be(key["e"]) if exp_len is None else _be(key["e"], exp_len))


def ecc_pub_field(key) -> bytes:
    c = COORD[key["curve"]]
    return _be(key["x"], c) + _be(key["y"], c)


def key_from_fields(kind: str, raw: bytes, curve=None):
    """Rebuild a key dict from a public-key field ('rsa': n||e with n a multiple of 128 bytes)."""
    if kind == "rsa":
        nlen = len(raw) // 128 * 128
        if nlen not in (256, 384, 512) or not 1 <= len(raw) - nlen <= 4:
            raise Reject(f"RSA public key field of {len(raw)} bytes")
        return {"type": "rsa", "n": int.from_bytes(raw[:nlen], "big"), "e": int.from_bytes(raw[nlen:], "big")}
    c = COORD[curve]
    if len(raw) != 2 * c:
        raise Reject(f"ECC public key field of {len(raw)} bytes for {curve}")
    return {"type": "ecc", "curve": curve, "x": int.from_bytes(raw[:c], "big"), "y": int.from_bytes(raw[c:], "big")}


def same_key(a, b) -> bool:
    if a["type"] != b["type"]:
        return False
    if a["type"] == "rsa":
        return a["n"] == b["n"] and a["e"] == b["e"]
    return a["curve"] == b["curve"] and a["x"] == b["x"] and a["y"] == b["y"]


def key_hash(key) -> bytes:
    """Root key hash as used in the RoT tables: RSA SHA-256(n || e minimal); ECC SHA-n(X || Y)."""
    if key["type"] == "rsa":
        return hashlib.sha256(rsa_pub_field(key)).digest()
    return hashlib.new(CURVE_HASH[key["curve"]], ecc_pub_field(key)).digest()


def signature_size(key) -> int:
    return (_bits(key) + 7) // 8 if key["type"] == "rsa" else 2 * COORD[key["curve"]]


def verify(key, message: bytes, signature: bytes, pss: bool = False) -> bool:
    """Signature check with the pure-Python verifiers (never raises for a bad signature)."""
    message, signature = bytes(message), bytes(signature)
    if key["type"] == "rsa":
        if pss:
            return bool(_rsa.verify_pss(key["n"], key["e"], message, signature, "sha256", salt_len=32))
        return bool(_rsa.verify_pkcs1v15(key["n"], key["e"], message, signature, "sha256"))
    c = COORD[key["curve"]]
    if len(signature) != 2 * c:
        return False
    r, s = int.from_bytes(signature[:c], "big"), int.from_bytes(signature[c:], "big")
    return bool(_ecdsa.verify_message(key["curve"], (key["x"], key["y"]), message, r, s, CURVE_HASH[key["curve"]]))


# ------------------------------------------------------------------------------------------
# AHAB SRK table, version 1 containers
def srk_record_v1(key, flags: int = 0) -> bytes:
    if key["type"] == "rsa":
        bits = _bits(key)
        p1, p2 = _be(key["n"], bits // 8), _be(key["e"], 4)
        head = (SIGN_RSA_PSS, AHAB_HASH_ID["sha256"], AHAB_RSA_ID[bits])
    else:
        cv = key["curve"]
        p1, p2 = _be(key["x"], COORD[cv]), _be(key["y"], COORD[cv])
        head = (SIGN_ECDSA, AHAB_HASH_ID[CURVE_HASH[cv]], AHAB_CURVE_ID[cv])
    length = 12 + len(p1) + len(p2)
    return struct.pack("<BHBBBBBHH", SRK_RECORD_TAG, length, head[0], head[1], head[2], 0, flags, len(p1), len(p2)) + p1 + p2


def srk_table_v1(keys, flag_ca=False) -> bytes:
    """``flag_ca``: one bool for all records or a list with one bool per record."""
    ca = list(flag_ca) if isinstance(flag_ca, (list, tuple)) else [bool(flag_ca)] * len(keys)
    if len(ca) != len(keys):
        raise Reject("one CA flag per key")
    recs = b"".join(srk_record_v1(k, SRK_FLAG_CA if c else 0) for k, c in zip(keys, ca))
    return struct.pack("<BHB", SRK_TABLE_TAG, 4 + len(recs), SRK_TABLE_VER) + recs


def decode_srk_table_v1(data: bytes):
    """-> (table_length, [ (key, flags) x 4 ]); strict about tags, lengths and parameter sizes."""
    if len(data) < 4:
        raise Reject("SRK table truncated")
    tag, length, ver = struct.unpack_from("<BHB", data)
    if tag != SRK_TABLE_TAG or ver != SRK_TABLE_VER:
        raise Reject(f"SRK table header tag {tag:#x} version {ver:#x}")
    if length > len(data):
        raise Reject("SRK table longer than the data")
    pos, out = 4, []
    while pos < length:
        if pos + 12 > length:
            raise Reject("SRK record truncated")
        rtag, rlen, alg, hsh, ksz, rsv, flags, l1, l2 = struct.unpack_from("<BHBBBBBHH", data, pos)
        if rtag != SRK_RECORD_TAG or rsv != 0 or rlen != 12 + l1 + l2 or pos + rlen > length:
            raise Reject(f"SRK record header at {pos}: tag {rtag:#x} len {rlen} l1 {l1} l2 {l2}")
        p1, p2 = data[pos + 12:pos + 12 + l1], data[pos + 12 + l1:pos + rlen]
        if alg == SIGN_RSA_PSS:
            if ksz not in AHAB_RSA or l1 != AHAB_RSA[ksz] // 8 or l2 != 4 or AHAB_HASH.get(hsh) != "sha256":
                raise Reject(f"SRK record RSA parameters key size id {ksz} l1 {l1} l2 {l2} hash {hsh}")
            key = {"type": "rsa", "n": int.from_bytes(p1, "big"), "e": int.from_bytes(p2, "big")}
            if _bits(key) != AHAB_RSA[ksz]:
                raise Reject("SRK record RSA modulus has leading zeros")
        elif alg == SIGN_ECDSA:
            cv = AHAB_CURVE.get(ksz)
            if cv is None or l1 != COORD[cv] or l2 != COORD[cv] or AHAB_HASH.get(hsh) != CURVE_HASH[cv]:
                raise Reject(f"SRK record ECDSA parameters curve id {ksz} l1 {l1} l2 {l2} hash {hsh}")
            key = {"type": "ecc", "curve": cv, "x": int.from_bytes(p1, "big"), "y": int.from_bytes(p2, "big")}
        else:
            raise Reject(f"SRK record signing algorithm {alg:#x}")
        out.append((key, flags))
        pos += rlen
    if pos != length or len(out) != 4:
        raise Reject(f"SRK table: {len(out)} records, consumed {pos} of {length}")
    return length, out


# ------------------------------------------------------------------------------------------
# RoT meta and RoT hash
def rot_flags(used: int, count: int) -> int:
    return (1 << 31) | (used << 8) | (count << 4)


def rot_meta(klass: str, keys, used: int, flag_ca=False) -> bytes:
    if klass == "rsa":
        if not 1 <= len(keys) <= 4:
            raise Reject("1..4 root keys")
        return b"".join(key_hash(k) for k in keys).ljust(128, b"\x00")
    flags = struct.pack("<L", rot_flags(used, len(keys)))
    if klass == "ecc":
        return flags + (b"".join(key_hash(k) for k in keys) if len(keys) > 1 else b"")
    if klass == "ele":
        if len(keys) != 4:
            raise Reject("EdgeLock needs exactly four super root keys")
        return flags + srk_table_v1(keys, flag_ca)
    raise Reject(f"no RoT meta in class {klass}")


def rot_hash(klass: str, keys, used: int = 0, flag_ca=False) -> bytes:
    """RoT key (table) hash constructed from the raw numbers."""
    if klass == "rsa":
        return hashlib.sha256(rot_meta("rsa", keys, used)).digest()
    if klass == "ecc":
        hname = CURVE_HASH[keys[0]["curve"]]
        if any(k["type"] != "ecc" or k["curve"] != keys[0]["curve"] for k in keys):
            raise Reject("mixed root key types")
        if len(keys) == 1:
            return key_hash(keys[0])
        return hashlib.new(hname, b"".join(key_hash(k) for k in keys)).digest()
    if klass == "ele":
        return hashlib.sha256(srk_table_v1(keys, flag_ca)).digest()
    if klass == "ele2":
        return b""
    raise Reject(f"unknown class {klass}")


# ------------------------------------------------------------------------------------------
# credential: construction of the signed body and strict decoding
def _dck_field(klass: str, dck) -> bytes:
    if klass == "rsa":
        return rsa_pub_field(dck, 4)
    if dck["type"] == "rsa":
        return rsa_pub_field(dck)  # EdgeLock: modulus || minimal exponent
    return ecc_pub_field(dck)


def build_dc_body(klass, version, socc, uuid, cc_socu, cc_vu, beacon, keys, used, dck, flag_ca=False) -> bytes:
    """Everything the RoT key signs (= the credential without its signature) for rsa/ecc/ele."""
    if len(uuid) != 16:
        raise Reject("UUID must be 16 bytes")
    head = struct.pack("<2HL16s", version[0], version[1], socc, uuid)
    cc = struct.pack("<3L", cc_socu, cc_vu, beacon)
    if klass == "rsa":
        return head + rot_meta("rsa", keys, used) + rsa_pub_field(dck, 4) + cc + rsa_pub_field(keys[used], 4)
    if klass == "ecc":
        return head + cc + rot_meta("ecc", keys, used) + ecc_pub_field(keys[used]) + ecc_pub_field(dck)
    if klass == "ele":
        return head + cc + rot_meta("ele", keys, used, flag_ca) + _dck_field("ele", dck)
    raise Reject(f"unknown class {klass}")


def decode_dc(data: bytes, klass: str) -> dict:
    """Strict field-level decoder.  The whole input must be consumed.

    Result keys: version, socc, uuid, cc_socu, cc_vu, beacon, used, count, rot_items (hashes or
    SRK keys), srk_flags (ele), rot_pub, dck_pub, signature, signed (bytes the signature covers),
    rot_meta (raw bytes).
    """
    data = bytes(data)
    if klass == "ele2":
        return decode_cert_v2(data)
    if len(data) < 36:
        raise Reject("credential shorter than its fixed head")
    major, minor, socc, uuid = struct.unpack_from("<2HL16s", data)
    out = {"version": (major, minor), "socc": socc, "uuid": uuid}
    if klass == "rsa":
        if major != 1 or minor not in RSA_BITS_OF_MINOR:
            raise Reject(f"version {major}.{minor} in the RSA layout")
        bits = RSA_BITS_OF_MINOR[minor]
        klen, slen = bits // 8 + 4, bits // 8
        total = 24 + 128 + klen + 12 + klen + slen
        if len(data) != total:
            raise Reject(f"RSA credential length {len(data)}, layout needs {total}")
        meta = data[24:152]
        items = [meta[i:i + 32] for i in range(0, 128, 32)]
        cnt = 4
        while cnt and not any(items[cnt - 1]):
            cnt -= 1
        if any(not any(it) for it in items[:cnt]):
            raise Reject("hole in the RoT meta table")
        pos = 152
        dck_raw = data[pos:pos + klen]
        pos += klen
        out["cc_socu"], out["cc_vu"], out["beacon"] = struct.unpack_from("<3L", data, pos)
        pos += 12
        rot_raw = data[pos:pos + klen]
        pos += klen
        out.update(count=cnt, used=None, rot_items=items[:cnt], rot_meta=meta,
                   dck_pub=key_from_fields("rsa", dck_raw), rot_pub=key_from_fields("rsa", rot_raw),
                   signature=data[pos:], signed=data[:pos])
        for k in (out["dck_pub"], out["rot_pub"]):
            if _bits(k) != bits:
                raise Reject(f"RSA key of {_bits(k)} bits in a {bits}-bit credential")
        hits = [i for i, it in enumerate(items[:cnt]) if it == key_hash(out["rot_pub"])]
        out["used"] = hits[0] if hits else None
        return out
    if major != 2 and klass == "ecc":
        raise Reject(f"version {major}.{minor} in the ECC layout")
    out["cc_socu"], out["cc_vu"], out["beacon"] = struct.unpack_from("<3L", data, 24)
    if len(data) < 40:
        raise Reject("credential shorter than its RoT meta flags")
    (flags,) = struct.unpack_from("<L", data, 36)
    if not flags & (1 << 31) or flags & ~((1 << 31) | 0xFF0):
        raise Reject(f"RoT meta flags {flags:#010x}")
    used, cnt = (flags >> 8) & 0xF, (flags >> 4) & 0xF
    if not 1 <= cnt <= 4 or used >= cnt:
        raise Reject(f"RoT meta flags used {used} count {cnt}")
    out.update(used=used, count=cnt)
    pos = 40
    if klass == "ecc":
        if minor not in CURVE_OF_MINOR:
            raise Reject(f"version 2.{minor}")
        cv = CURVE_OF_MINOR[minor]
        c, hl = COORD[cv], hashlib.new(CURVE_HASH[cv]).digest_size
        tbl = cnt * hl if cnt > 1 else 0
        total = 40 + tbl + 6 * c
        if len(data) != total:
            raise Reject(f"ECC credential length {len(data)}, layout needs {total} ({cnt} keys, {cv})")
        out["rot_items"] = [data[pos + i * hl:pos + (i + 1) * hl] for i in range(cnt)] if cnt > 1 else []
        pos += tbl
        out["rot_meta"] = data[36:pos]
        out["rot_pub"] = key_from_fields("ecc", data[pos:pos + 2 * c], cv)
        out["dck_pub"] = key_from_fields("ecc", data[pos + 2 * c:pos + 4 * c], cv)
        pos += 4 * c
        out.update(signature=data[pos:], signed=data[:pos])
        return out
    if klass == "ele":
        tlen, recs = decode_srk_table_v1(data[pos:])
        if cnt != 4:
            raise Reject(f"EdgeLock credential announces {cnt} super root keys")
        pos += tlen
        out["rot_meta"] = data[36:pos]
        out["rot_items"] = [k for k, _f in recs]
        out["srk_flags"] = [f for _k, f in recs]
        out["rot_pub"] = recs[used][0]
        slen = signature_size(out["rot_pub"])
        dlen = len(data) - pos - slen
        if dlen <= 0:
            raise Reject("EdgeLock credential too short for key and signature")
        if dlen in (64, 96, 132):
            out["dck_pub"] = key_from_fields("ecc", data[pos:pos + dlen], {64: "p256", 96: "p384", 132: "p521"}[dlen])
        else:
            out["dck_pub"] = key_from_fields("rsa", data[pos:pos + dlen])
        pos += dlen
        out.update(signature=data[pos:], signed=data[:pos])
        return out
    raise Reject(f"unknown class {klass}")


# ------------------------------------------------------------------------------------------
# EdgeLock version 2: AHAB certificate
def _hdr_vlt(data: bytes, pos: int):
    """version, length, tag header."""
    if pos + 4 > len(data):
        raise Reject(f"header truncated at {pos}")
    v, ln, t = struct.unpack_from("<BHB", data, pos)
    return v, ln, t


def _decode_srk_record_v2(data: bytes, pos: int):
    if pos + 76 > len(data):
        raise Reject("SRK record (v2) truncated")
    rtag, rlen, alg, hsh, ksz, rsv, flags, l1, l2 = struct.unpack_from("<BHBBBBBHH", data, pos)
    if rtag != SRK_RECORD_TAG or rlen != 76 or rsv != 0:
        raise Reject(f"SRK record (v2) header tag {rtag:#x} len {rlen}")
    if hsh not in AHAB_HASH:
        raise Reject(f"SRK record (v2) hash id {hsh}")
    return {"alg": alg, "hash": AHAB_HASH[hsh], "ksz": ksz, "flags": flags, "l1": l1, "l2": l2,
            "data_hash": data[pos + 12:pos + 76]}, pos + 76


def _decode_srk_data(data: bytes, pos: int, rec: dict):
    v, ln, t = _hdr_vlt(data, pos)
    if t != SRK_DATA_TAG or v != 0 or pos + ln > len(data) or ln != 8 + rec["l1"] + rec["l2"]:
        raise Reject(f"SRK data header tag {t:#x} version {v} len {ln}")
    srk_id = data[pos + 4]
    if any(data[pos + 5:pos + 8]):
        raise Reject("SRK data reserved bytes not zero")
    raw = data[pos + 8:pos + ln]
    blob = data[pos:pos + ln]
    want = hashlib.new(rec["hash"], blob).digest().ljust(64, b"\x00")
    if want != rec["data_hash"]:
        raise Reject("SRK record hash does not match its SRK data")
    if rec["alg"] == SIGN_RSA_PSS:
        if rec["ksz"] not in AHAB_RSA or rec["l1"] != AHAB_RSA[rec["ksz"]] // 8 or rec["l2"] != 4:
            raise Reject("SRK data RSA lengths")
        key = {"type": "rsa", "n": int.from_bytes(raw[:rec["l1"]], "big"), "e": int.from_bytes(raw[rec["l1"]:], "big")}
    elif rec["alg"] == SIGN_ECDSA:
        cv = AHAB_CURVE.get(rec["ksz"])
        if cv is None or rec["l1"] != COORD[cv] or rec["l2"] != COORD[cv] or rec["hash"] != CURVE_HASH[cv]:
            raise Reject("SRK data ECDSA lengths")
        key = {"type": "ecc", "curve": cv, "x": int.from_bytes(raw[:rec["l1"]], "big"), "y": int.from_bytes(raw[rec["l1"]:], "big")}
    else:
        raise Reject(f"SRK record (v2) signing algorithm {rec['alg']:#x}")
    return key, srk_id, pos + ln


def _decode_signature(data: bytes, pos: int):
    v, ln, t = _hdr_vlt(data, pos)
    if t != SIGNATURE_TAG or v != 0 or ln < 8 or pos + ln > len(data):
        raise Reject(f"signature header tag {t:#x} version {v} len {ln} at {pos}")
    if any(data[pos + 4:pos + 8]):
        raise Reject("signature reserved word not zero")
    return data[pos + 8:pos + ln], pos + ln


def decode_cert_v2(data: bytes) -> dict:
    """AHAB certificate, version 2 (one key; a second, PQC, key is rejected as unsupported here)."""
    data = bytes(data)
    if len(data) < 40:
        raise Reject("certificate shorter than its fixed part")
    v, ln, t = _hdr_vlt(data, 0)
    if t != CERT_TAG or v != CERT_VER:
        raise Reject(f"certificate header version {v} tag {t:#x}")
    if ln != len(data):
        raise Reject(f"certificate length field {ln}, data {len(data)}")
    sig_off, inv_perm, perm = struct.unpack_from("<HBB", data, 4)
    if inv_perm != (~perm & 0xFF):
        raise Reject("inverted permission byte")
    socc, socu, beacon = struct.unpack_from("<3L", data, 8)
    fuse = data[20]
    if any(data[21:24]):
        raise Reject("certificate reserved bytes not zero")
    uuid = data[24:40]
    rec, pos = _decode_srk_record_v2(data, 40)
    key, srk_id, pos = _decode_srk_data(data, pos, rec)
    if pos != sig_off:
        raise Reject(f"signature offset {sig_off}, keys end at {pos}")
    sig, end = _decode_signature(data, sig_off)
    if end != len(data):
        raise Reject("bytes after the certificate signature")
    return {"version": None, "permissions": perm, "socc": socc, "cc_socu": socu, "cc_vu": None, "beacon": beacon,
            "fuse_version": fuse, "uuid": uuid, "dck_pub": key, "dck_srk_id": srk_id, "dck_flags": rec["flags"],
            "signature": sig, "signed": data[:sig_off], "rot_pub": None, "used": None, "count": None}


# ------------------------------------------------------------------------------------------
# challenge
def build_dac(version, socc, uuid, revocation, rkth, cc_pinned, cc_default, cc_vu, challenge, swapped=False) -> bytes:
    if len(uuid) != 16 or len(challenge) != 32:
        raise Reject("UUID 16 bytes, challenge 32 bytes")
    v = (version[1], version[0]) if swapped else tuple(version)
    return (struct.pack("<2HL16sL", v[0], v[1], socc, uuid, revocation) + rkth
            + struct.pack("<3L", cc_pinned, cc_default, cc_vu) + challenge)


def decode_dac(data: bytes, hash_len: int, swapped=False) -> dict:
    if len(data) != 28 + hash_len + 12 + 32:
        raise Reject(f"DAC of {len(data)} bytes with a {hash_len}-byte RoT hash")
    a, b, socc, uuid, rev = struct.unpack_from("<2HL16sL", data)
    pin, dfl, vu = struct.unpack_from("<3L", data, 28 + hash_len)
    return {"version": (b, a) if swapped else (a, b), "socc": socc, "uuid": uuid, "revocation": rev,
            "rkth": data[28:28 + hash_len], "cc_pinned": pin, "cc_default": dfl, "cc_vu": vu, "challenge": data[-32:]}


# ------------------------------------------------------------------------------------------
# response
def dar_message(dc: bytes, auth_beacon: int, uuid: bytes, challenge: bytes, major: int) -> bytes:
    """What the DCK signs: DC || beacon || (UUID in protocol 2.x) || challenge."""
    m = bytes(dc) + struct.pack("<L", auth_beacon)
    if major == 2:
        if len(uuid) != 16:
            raise Reject("UUID must be 16 bytes")
        m += uuid
    return m + bytes(challenge)


def decode_dar(data: bytes, dc_len: int, dck, major: int) -> dict:
    """Classic response: DC || <L beacon || (16s UUID, protocol 2.x) || signature(DCK)."""
    data = bytes(data)
    slen = signature_size(dck)
    ulen = 16 if major == 2 else 0
    if len(data) != dc_len + 4 + ulen + slen:
        raise Reject(f"response length {len(data)}, expected {dc_len} + 4 + {ulen} + {slen}")
    return {"dc": data[:dc_len], "beacon": struct.unpack_from("<L", data, dc_len)[0],
            "uuid": data[dc_len + 4:dc_len + 4 + ulen] if ulen else None, "signature": data[dc_len + 4 + ulen:]}


def uuid_words(uuid8: bytes) -> bytes:
    """EdgeLock messages carry the unique id as little-endian 32-bit words."""
    return b"".join(uuid8[i:i + 4][::-1] for i in range(0, len(uuid8), 4))


def decode_dar_v2(data: bytes) -> dict:
    """EdgeLock version-2 response = AHAB signed message container (version 2, tag 0x89).

    header <BHB version,length,tag | L flags | H sw | B fuse | B images | H signature-block offset | H 0
    descriptor <B flags | 3 x 0 | 32s IV ; message header <H issue date | B permission | B cert version |
    H 0 | B command | B 0 | 8s unique id (LE words) ; payload 32s challenge | H authentication beacon ;
    signature block <BHB 1,length,0x90 | H certificate off | H SRK off | H signature off | H blob off | L key id
    with SRK table array, signature (by the certificate's key) and certificate.  The signature covers the
    container from its first byte up to the signature header.
    """
    data = bytes(data)
    v, ln, t = _hdr_vlt(data, 0)
    if t != SIGNED_MSG_TAG or v != 2:
        raise Reject(f"signed message header version {v} tag {t:#x}")
    if ln > len(data) or any(data[ln:]):
        raise Reject(f"signed message length field {ln}, data {len(data)}")
    flags, _sw, fuse, nimg, sb_off, rsv = struct.unpack_from("<LHBBHH", data, 4)
    if nimg != 0 or rsv != 0:
        raise Reject("signed message image count / reserved")
    dflags = data[16]
    if any(data[17:20]):
        raise Reject("message descriptor reserved bytes")
    if dflags & 1:
        raise Reject("encrypted signed message")
    issue, perm, cver, r0, cmd, r1, uid = struct.unpack_from("<HBBHBB8s", data, 52)
    if r0 or r1:
        raise Reject("message header reserved bytes")
    if cmd != CMD_DAT_AUTH:
        raise Reject(f"message command {cmd:#x}")
    challenge = data[68:100]
    (beacon,) = struct.unpack_from("<H", data, 100)
    if sb_off != 102:
        raise Reject(f"signature block offset {sb_off}, message ends at 102")
    bv, bl, bt = _hdr_vlt(data, sb_off)
    if bt != SIGBLOCK_TAG or bv != 1 or sb_off + bl > ln:
        raise Reject(f"signature block header version {bv} tag {bt:#x} len {bl}")
    cert_off, srk_off, sig_off, blob_off, _keyid = struct.unpack_from("<4HL", data, sb_off + 4)
    if blob_off:
        raise Reject("blob in a DAT response")
    if not (srk_off and sig_off and cert_off) or not srk_off < sig_off < cert_off:
        raise Reject(f"signature block offsets srk {srk_off} signature {sig_off} certificate {cert_off}")
    # SRK table array
    p = sb_off + srk_off
    av, al, at = _hdr_vlt(data, p)
    if at != SRK_ARRAY_TAG or av != 0:
        raise Reject(f"SRK table array header version {av} tag {at:#x}")
    ntab = data[p + 4]
    if ntab != 1 or any(data[p + 5:p + 8]):
        raise Reject(f"SRK table array with {ntab} tables")
    q = p + 8
    ttag, tlen, tver = struct.unpack_from("<BHB", data, q)
    if ttag != SRK_TABLE_TAG or tver != 0x43:
        raise Reject(f"SRK table (v2) tag {ttag:#x} version {tver:#x}")
    q += 4
    recs = []
    for _ in range(4):
        rec, q = _decode_srk_record_v2(data, q)
        recs.append(rec)
    if q != p + 8 + tlen:
        raise Reject("SRK table (v2) length")
    used = (flags >> 4) & 0x3
    srk_key, srk_id, q = _decode_srk_data(data, q, recs[used])
    if srk_id != used:
        raise Reject(f"SRK data of record {srk_id}, flags select {used}")
    if q != p + al or q > sb_off + sig_off:
        raise Reject("SRK table array length")
    sig, send = _decode_signature(data, sb_off + sig_off)
    cp = sb_off + cert_off
    cv, cl, ct = _hdr_vlt(data, cp)
    if ct != CERT_TAG or cp + cl > ln:
        raise Reject("certificate header in the signature block")
    if send > cp:
        raise Reject("signature overlaps the certificate")
    return {"flags": flags, "srk_set": flags & 3, "used_srk": used, "fuse_version": fuse, "issue_date": issue,
            "msg_permission": perm, "msg_cert_version": cver, "uid": uid, "challenge": challenge, "beacon": beacon,
            "srk_key": srk_key, "srk_table": data[p + 8:p + 8 + tlen], "signature": sig,
            "signed": data[:sb_off + sig_off], "certificate": data[cp:cp + cl], "cert_offset": cp,
            "spans": {"uid": (60, 68), "challenge": (68, 100), "beacon": (100, 102)}}


# ------------------------------------------------------------------------------------------
def selftest(samples: dict = None) -> dict:
    """Self-consistency of the model plus, when given, third-party / stored artifacts.

    ``samples``: {"dc": [(name, klass, bytes)], "dac": [(name, hash_len, bytes)],
    "srkh": [(name, [keys], flag_ca, expected_hex)], "rkth": [(name, klass, [keys], expected_hex)]}
    """
    n = 0
    # flags law
    for used in range(4):
        for cnt in range(used + 1, 5):
            f = rot_flags(used, cnt)
            assert f >> 31 == 1 and (f >> 8) & 0xF == used and (f >> 4) & 0xF == cnt
            n += 1
    # build / decode are inverse on synthetic keys (numbers need not be valid keys for layout purposes)
    rk = [{"type": "rsa", "n": (1 << 2047) | (i + 3), "e": 65537} for i in range(4)]
    ek = [{"type": "ecc", "curve": "p384", "x": 1000 + i, "y": 2000 + i} for i in range(4)]
    uuid = bytes(range(16))
    for klass, keys, ver in (("rsa", rk, (1, 0)), ("ecc", ek, (2, 1)), ("ele", ek, (2, 1)), ("ele", rk, (1, 0))):
        for cnt in ((1, 2, 3, 4) if klass != "ele" else (4,)):
            for used in range(cnt):
                body = build_dc_body(klass, ver, 0x1234, uuid, 1, 2, 3, keys[:cnt], used, keys[0])
                sig = b"\x5a" * signature_size(keys[used])
                d = decode_dc(body + sig, klass)
                assert d["signed"] == body and d["signature"] == sig, (klass, cnt, used)
                assert (d["version"], d["socc"], d["uuid"], d["cc_socu"], d["cc_vu"], d["beacon"]) == (ver, 0x1234, uuid, 1, 2, 3)
                assert d["count"] == cnt and d["used"] == used and same_key(d["rot_pub"], keys[used]) and same_key(d["dck_pub"], keys[0])
                for cut in ((1, 7) if not (klass == "ele" and keys[0]["type"] == "rsa") else ()):
                    # (an RSA DCK in the EdgeLock layout has a variable-length exponent: only the signature detects a cut)
                    try:
                        decode_dc((body + sig)[:-cut], klass)
                        raise AssertionError(f"truncated credential accepted ({klass})")
                    except Reject:
                        pass
                n += 4
    assert len(rot_hash("rsa", rk[:2])) == 32 and len(rot_hash("ecc", ek[:2])) == 48 and len(rot_hash("ele", ek)) == 32
    assert rot_hash("ecc", ek[:1]) == hashlib.sha384(_be(1000, 48) + _be(2000, 48)).digest()
    n += 4
    dac = build_dac((2, 1), 4, uuid, 9, b"\x11" * 48, 5, 6, 7, b"\x22" * 32)
    d = decode_dac(dac, 48)
    assert (d["version"], d["socc"], d["uuid"], d["revocation"], d["cc_pinned"], d["cc_default"], d["cc_vu"]) == ((2, 1), 4, uuid, 9, 5, 6, 7)
    assert decode_dac(build_dac((2, 0), 4, uuid, 9, b"\x11" * 32, 5, 6, 7, b"\x22" * 32, swapped=True), 32, swapped=True)["version"] == (2, 0)
    assert dar_message(b"DC", 1, uuid, b"C" * 32, 1) == b"DC\x01\0\0\0" + b"C" * 32
    assert dar_message(b"DC", 1, uuid, b"C" * 32, 2) == b"DC\x01\0\0\0" + uuid + b"C" * 32
    assert uuid_words(bytes.fromhex("11223344aaaabbbb")) == bytes.fromhex("44332211bbbbaaaa")
    n += 6
    res = {"internal": n}
    if samples:
        cnt = 0
        for name, klass, blob in samples.get("dc", []):
            d = decode_dc(blob, klass)
            pss = klass in ("ele", "ele2")
            assert d["rot_pub"] is not None, name
            assert verify(d["rot_pub"], d["signed"], d["signature"], pss=pss), f"stored credential {name}: signature does not verify"
            bad = bytearray(d["signed"])
            bad[len(bad) // 2] ^= 1
            assert not verify(d["rot_pub"], bytes(bad), d["signature"], pss=pss), f"stored credential {name}: flipped byte accepted"
            if klass == "ecc" and d["count"] > 1:
                assert d["rot_items"][d["used"]] == key_hash(d["rot_pub"]), f"stored credential {name}: table entry"
            if klass == "rsa":
                assert d["used"] is not None, f"stored credential {name}: RoT key hash not in the table"
            cnt += 1
        res["stored_credentials"] = cnt
        cnt = 0
        for name, hash_len, blob in samples.get("dac", []):
            d = decode_dac(blob, hash_len)
            assert build_dac(d["version"], d["socc"], d["uuid"], d["revocation"], d["rkth"], d["cc_pinned"], d["cc_default"],
                             d["cc_vu"], d["challenge"]) == blob, name
            cnt += 1
        res["stored_challenges"] = cnt
        cnt = 0
        for name, keys, flag_ca, expected in samples.get("srkh", []):
            got = rot_hash("ele", keys, 0, flag_ca).hex()
            assert got == expected, f"SRK hash {name}: {got} != {expected}"
            cnt += 1
        for name, klass, keys, expected in samples.get("rkth", []):
            got = rot_hash(klass, keys).hex()
            assert got == expected, f"RKTH {name}: {got} != {expected}"
            cnt += 1
        res["rot_hash_goldens"] = cnt
    return res
