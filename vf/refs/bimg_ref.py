"""Independent placement model of a bootable image (property C14).  Imports nothing from spsdk.

Input is the *raw* layout description of one (family, revision, memory type) as it stands in the
device database (``features.bootable_image.mem_types.<memory>``)::

    {"segments": {"keyblob": 0, "fcb": 1024, "primary_image_container_set": 4096,
                  "secondary_image_container_set": -1},
     "image_pattern": "ones"}            # optional

The model is written from the statement of the property, not from SPSDK's code:

* a segment with a non-negative database offset ``o`` starts at ``o - init`` in an image that
  starts at the initial offset ``init``;
* a *floating* segment (negative database offset) starts at the end of its predecessor in the
  layout, rounded up to the alignment of the floating segment kind; a predecessor that is not
  supplied ends where it would start;
* segments whose database offset lies before ``init`` are not part of the image;
* the image ends with its last supplied segment; every byte that belongs to no supplied segment
  carries the device's fill pattern (``image_pattern``; a layout that names none is filled with
  0x00);
* supplied segments are pairwise disjoint.

Format facts used (NXP reference manuals / AHAB specification, not SPSDK sources): an AHAB image
container set starts on a 1 KiB boundary; the fixed sizes of the header blocks.
"""
from __future__ import annotations

from typing import Iterable, Mapping, Optional, Sequence

# alignment of the floating segment kinds (AHAB: a container set starts on a 1 KiB boundary)
FLOATING_ALIGNMENT = {"secondary_image_container_set": 1024}

# size of the fixed-size header blocks as the boot ROMs define them (bytes); an XMCD block has a
# length field of its own (4-byte header + configuration block, up to 4 + 512 bytes) and is not listed
FORMAT_SIZE = {
    "keyblob": 256,
    "fcb": 512,
    "fcb_xspi": 768,
    "image_version": 4,
    "image_version_ap": 4,
    "keystore": 2048,
    "bee_header_0": 512,
    "bee_header_1": 512,
}

# segment kinds that carry the application (everything else is a boot header block)
CONTAINER_KINDS = (
    "mbi",
    "hab_container",
    "ahab_container",
    "primary_image_container_set",
    "secondary_image_container_set",
    "sb21",
    "sb31",
)


class LayoutError(ValueError):
    """The raw layout description cannot be interpreted by this model."""


class Mismatch(Exception):
    """The observed image contradicts the model.  args = (clause, detail dict)."""

    def __init__(self, clause: str, detail: dict):
        super().__init__(clause, detail)
        self.clause = clause
        self.detail = detail


def align_up(n: int, a: int) -> int:
    return -(-n // a) * a


def layout_segments(raw: Mapping) -> list[tuple[str, int]]:
    """Ordered (name, database offset) list of a raw layout description."""
    segs = raw.get("segments")
    if not isinstance(segs, Mapping) or not segs:
        raise LayoutError("layout has no segments")
    out = []
    for name, off in segs.items():
        if isinstance(off, bool) or not isinstance(off, int):
            raise LayoutError(f"offset of {name} is not an integer: {off!r}")
        if off < 0 and name not in FLOATING_ALIGNMENT:
            raise LayoutError(f"floating segment {name} of unknown alignment")
        out.append((str(name), off))
    if out[0][1] < 0:
        raise LayoutError("first segment floats")
    return out


def fill_byte(raw: Mapping) -> int:
    """The single fill byte of the device's pattern."""
    pat = raw.get("image_pattern", "zeros")
    if pat == "zeros":
        return 0x00
    if pat == "ones":
        return 0xFF
    val: Optional[int] = None
    if isinstance(pat, int) and not isinstance(pat, bool):
        val = pat
    elif isinstance(pat, str):
        try:
            val = int(pat, 0)
        except ValueError:
            val = None
    if val is None or not 0 <= val <= 0xFF:
        raise LayoutError(f"fill pattern {pat!r} is not a single repeated byte (not modelled)")
    return val


def layout_key(raw: Mapping) -> str:
    """Canonical text of what the model reads from a layout (distinct layouts = distinct keys)."""
    segs = ",".join(f"{n}@{o:#x}" if o >= 0 else f"{n}@float" for n, o in layout_segments(raw))
    return f"{segs}|{raw.get('image_pattern', 'zeros')}"


def segment_starts(raw: Mapping) -> list[tuple[str, int]]:
    """(name, offset) of the segments with a fixed database offset."""
    return [(n, o) for n, o in layout_segments(raw) if o >= 0]


def room_after(raw: Mapping, name: str) -> Optional[int]:
    """Bytes between the start of a fixed segment and the next fixed start (None for the last one)."""
    segs = layout_segments(raw)
    me = dict(segs)[name]
    if me < 0:
        return None
    later = [o for _, o in segs if o > me]
    return (min(later) - me) if later else None


def full_placement(raw: Mapping, lengths: Mapping[str, int]) -> dict[str, int]:
    """Start of every layout segment in the *full* image (init offset 0).

    ``lengths`` gives the byte length of the supplied segments (absent / 0 = not supplied).
    """
    out: dict[str, int] = {}
    prev_end = 0
    for name, off in layout_segments(raw):
        start = off if off >= 0 else align_up(prev_end, FLOATING_ALIGNMENT[name])
        out[name] = start
        prev_end = start + int(lengths.get(name, 0) or 0)
    return out


def expected_image(raw: Mapping, lengths: Mapping[str, int], init: int) -> dict:
    """Expected extents: {"segments": {name: (start, end)}, "length": n, "dropped": [names]}.

    Only supplied segments at or after ``init`` appear; offsets are relative to ``init``.
    """
    full = full_placement(raw, lengths)
    dboff = dict(layout_segments(raw))
    segs: dict[str, tuple[int, int]] = {}
    dropped = []
    for name, start in full.items():
        ln = int(lengths.get(name, 0) or 0)
        if not ln:
            continue
        if 0 <= dboff[name] < init:
            dropped.append(name)
            continue
        if start < init:
            raise LayoutError(f"floating segment {name} would start before the initial offset")
        segs[name] = (start - init, start - init + ln)
    length = max((e for _, e in segs.values()), default=0)
    return {"segments": segs, "length": length, "dropped": dropped}


def check_disjoint(extents: Mapping[str, tuple[int, int]]) -> None:
    items = sorted(extents.items(), key=lambda kv: kv[1])
    for (n1, (s1, e1)), (n2, (s2, e2)) in zip(items, items[1:]):
        if s2 < e1:
            raise Mismatch("overlap", {"first": n1, "first_extent": [s1, e1], "second": n2, "second_extent": [s2, e2]})


def check_image(raw: Mapping, supplied: Mapping[str, bytes], init: int, image: bytes) -> dict:
    """Judge an exported image against the model.  Raises Mismatch(clause, detail).

    Clauses: "overlap" (the model's own extents collide - the input does not fit the layout),
    "length", "segment-offset" (bytes of a supplied segment are not at the prescribed place),
    "gap-fill" (a byte outside every segment differs from the device's pattern).
    Returns the expectation that was used.
    """
    exp = expected_image(raw, {k: len(v) for k, v in supplied.items()}, init)
    ext = exp["segments"]
    check_disjoint(ext)
    for name, (s, e) in sorted(ext.items(), key=lambda kv: kv[1]):
        got = image[s:e]
        if got != supplied[name]:
            # say where the segment's bytes are instead, if they are anywhere
            found = image.find(supplied[name]) if len(supplied[name]) >= 4 else -1
            raise Mismatch(
                "segment-offset",
                {"segment": name, "expected_start": s, "expected_end": e, "image_length": len(image),
                 "found_at": found, "first_difference": _first_diff(got, supplied[name])},
            )
    if len(image) != exp["length"]:
        raise Mismatch("length", {"expected": exp["length"], "observed": len(image)})
    fb = fill_byte(raw)
    pos = 0
    for name, (s, e) in sorted(ext.items(), key=lambda kv: kv[1]):
        if s > pos:
            gap = image[pos:s]
            if gap.count(fb) != len(gap):
                bad = next(i for i, b in enumerate(gap) if b != fb)
                raise Mismatch("gap-fill", {"gap": [pos, s], "before": name, "fill": fb, "offset": pos + bad, "byte": gap[bad]})
        pos = max(pos, e)
    return exp


def _first_diff(a: bytes, b: bytes) -> int:
    n = min(len(a), len(b))
    for i in range(n):
        if a[i] != b[i]:
            return i
    return n if len(a) != len(b) else -1


def recovered_equal(name: str, supplied: bytes, recovered: bytes, fb: int) -> bool:
    """Did parsing give the supplied bytes back?

    A header block is a fixed-size field without a length of its own: when fewer bytes than the
    field holds were supplied, the parser necessarily returns the whole field, i.e. the supplied
    bytes followed by fill.  Everything else must be byte-identical.
    """
    if recovered == supplied:
        return True
    size = FORMAT_SIZE.get(name)
    if size and len(supplied) < size:
        return recovered == supplied + bytes([fb]) * (size - len(supplied))
    return False


def image_version_bytes(name: str, value: Optional[int]) -> bytes:
    """The 4 bytes of the image-version block for a configured value (documented encodings).

    ``image_version``: the 32-bit little-endian value (0 when not configured);
    ``image_version_ap``: low half = 16-bit version, high half = its one's complement
    (the erased value 0xFFFFFFFF when not configured).
    """
    if name == "image_version":
        return int(value or 0).to_bytes(4, "little")
    if name == "image_version_ap":
        if value is None:
            return b"\xff\xff\xff\xff"
        v = value & 0xFFFF
        return (v | ((v ^ 0xFFFF) << 16)).to_bytes(4, "little")
    raise LayoutError(name)


def selftest() -> dict:
    """Ground truth not produced by SPSDK: hand-computed placements."""
    n = 0
    raw = {"segments": {"keyblob": 0, "fcb": 0x400, "primary_image_container_set": 0x1000,
                        "secondary_image_container_set": -1}}
    # primary of 0x2300 bytes ends at 0x3300 -> secondary at 0x3400
    p = full_placement(raw, {"primary_image_container_set": 0x2300, "secondary_image_container_set": 0x800})
    assert p == {"keyblob": 0, "fcb": 0x400, "primary_image_container_set": 0x1000,
                 "secondary_image_container_set": 0x3400}, p
    n += 1
    # exactly aligned end: no extra padding
    p = full_placement(raw, {"primary_image_container_set": 0x2400, "secondary_image_container_set": 1})
    assert p["secondary_image_container_set"] == 0x3400
    n += 1
    # predecessor absent: floats to the predecessor's start
    p = full_placement(raw, {"secondary_image_container_set": 1})
    assert p["secondary_image_container_set"] == 0x1000
    n += 1
    e = expected_image(raw, {"keyblob": 256, "fcb": 512, "primary_image_container_set": 0x2300,
                             "secondary_image_container_set": 0x800}, 0x400)
    assert e["dropped"] == ["keyblob"] and e["segments"]["fcb"] == (0, 0x200)
    assert e["segments"]["primary_image_container_set"] == (0xC00, 0x2F00)
    assert e["segments"]["secondary_image_container_set"] == (0x3000, 0x3800) and e["length"] == 0x3800
    n += 1
    # an image built by hand
    raw2 = {"segments": {"fcb": 0x400, "image_version_ap": 0x600, "mbi": 0x1000}, "image_pattern": "ones"}
    fcb, iv, mbi = b"F" * 512, image_version_bytes("image_version_ap", 5), b"M" * 100
    assert iv == bytes.fromhex("0500faff")
    img = b"\xff" * 0x400 + fcb + iv + b"\xff" * (0x1000 - 0x604) + mbi
    check_image(raw2, {"fcb": fcb, "image_version_ap": iv, "mbi": mbi}, 0, img)
    n += 1
    check_image(raw2, {"fcb": fcb, "image_version_ap": iv, "mbi": mbi}, 0x400, img[0x400:])
    check_image(raw2, {"fcb": fcb, "image_version_ap": iv, "mbi": mbi}, 0x1000, img[0x1000:])
    n += 2
    for bad, clause in [
        (img[:0x700] + b"\x00" + img[0x701:], "gap-fill"),
        (img + b"\xff", "length"),
        (b"\xff" * 0x3FF + fcb + b"\xff" + img[0x600:], "segment-offset"),
    ]:
        try:
            check_image(raw2, {"fcb": fcb, "image_version_ap": iv, "mbi": mbi}, 0, bad)
        except Mismatch as m:
            assert m.clause == clause, (m.clause, clause)
        else:
            raise AssertionError(f"model accepted a broken image ({clause})")
        n += 1
    try:
        check_image(raw2, {"fcb": b"F" * 513, "image_version_ap": iv, "mbi": mbi}, 0, img)
    except Mismatch as m:
        assert m.clause == "overlap"
    else:
        raise AssertionError("overlap not seen")
    n += 1
    assert fill_byte({"image_pattern": "0x5a"}) == 0x5A and fill_byte({}) == 0
    assert recovered_equal("keyblob", b"ab", b"ab" + bytes(254), 0) and not recovered_equal("keyblob", b"ab", b"ab" + bytes(253), 0)
    assert not recovered_equal("mbi", b"ab", b"ab\0", 0) and recovered_equal("mbi", b"ab", b"ab", 0)
    assert room_after(raw2, "fcb") == 0x200 and room_after(raw2, "mbi") is None
    n += 5
    return {"bimg_ref_vectors": n}
