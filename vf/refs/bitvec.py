"""Bit-vector reference model of a register file (properties C11, C12).  Imports nothing from spsdk.

The model is written from the *description* of the register-specification format and from what the
property demands, not from the implementation:

* a **leaf** register (plain register or sub-register of a group) is one Python int ``value`` of
  ``width`` bits - the bytes that the binary image holds for it ("raw view");
* a **bit-field** is ``(offset, width)`` inside its leaf: ``(value >> offset) & (2**width - 1)``.
  A ``SHIFT_RIGHT:COUNT=n`` config processor lives on the *configuration side only*: the value a
  user writes / reads is ``stored << n`` (writes drop the low ``n`` bits by the processor's own
  definition), the stored bits are what the image holds;
* a **group** is the concatenation of its sub-registers: sub-register ``i`` (0-based, of ``sw`` bits)
  holds bits ``[i*sw, (i+1)*sw)`` of the group's raw view, or ``[W-(i+1)*sw, W-i*sw)`` when the
  group has reversed sub-register order;
* a **reversed** register shows the byte-reversal of its raw view as its logical ("non raw") view;
* **alternative widths**: the logical value of a register of width ``W`` may belong to a smaller
  width class ``A`` (smallest listed width whose byte count holds the value); the byte reversal of
  a reversed register then acts inside ``A/8`` bytes, the bits above ``A`` are zero.  A whole
  register write determines *every* bit of the register.  The class of a value that was written
  through the logical view is the class of the value written (``get == last set``); after raw
  writes (parse, sub-register or bit-field writes) the class is the smallest one that holds the
  raw view (nothing else is known about it);
* the binary image: every top-level register (hidden or not) at ``offset`` with ``width/8`` bytes in
  the file's byte order; ``parse`` reads the non-hidden top-level registers in order and stops at
  the first one the data does not reach ("parsing ends at");
* a value fits iff ``0 <= v < 2**width``; everything else is rejected and changes nothing;
* reset state = the state right after loading the specification.

Layouts are built by :func:`layout_from_spec` from the JSON register specification and the list of
group descriptions exactly as the device database stores them.
"""
from __future__ import annotations

from typing import Any, Optional

from vf.refs import numgrammar


class Reject(Exception):
    """The model refuses the operation (value does not fit, not a number, unknown name)."""


class NotFound(Exception):
    """Lookup of a register / bit-field / enum that does not exist."""


class SpecError(Exception):
    """The specification cannot be loaded (documented loader refusals)."""


def byterev(v: int, nbytes: int) -> int:
    return int.from_bytes(v.to_bytes(nbytes, "big"), "little")


def bytelen(v: int) -> int:
    return max(1, (v.bit_length() + 7) // 8)


def to_int(x: Any) -> int:
    """Number syntax accepted for values: int, bytes (big endian), string of the number grammar."""
    if isinstance(x, bool):
        return int(x)
    if isinstance(x, int):
        return x
    if isinstance(x, (bytes, bytearray)):
        return int.from_bytes(x, "big")
    if isinstance(x, str):
        v = numgrammar.parse_number(x)
        if v is not None:
            return v
    raise Reject(f"not a number: {x!r}")


def _truthy(x: Any) -> bool:
    if isinstance(x, str):
        return x in ("True", "true", "T", "1")
    return bool(x)


class Field:
    __slots__ = ("reg", "name", "uid", "offset", "width", "shift", "enums", "hidden", "reset_cfg", "in_range")

    def __init__(self, reg: "Reg", name: str, uid: str, offset: int, width: int, shift: int, hidden: bool):
        self.reg = reg
        self.name = name
        self.uid = uid
        self.offset = offset
        self.width = width
        self.shift = shift
        self.enums: list[tuple[str, int]] = []
        self.hidden = hidden
        self.reset_cfg = 0  # configuration-side value in the reset state
        self.in_range = offset + width <= reg.width and width > 0

    @property
    def mask(self) -> int:
        return (1 << self.width) - 1

    @property
    def config_width(self) -> int:
        return self.width + self.shift

    # -- reads ------------------------------------------------------------------------------
    def stored(self) -> int:
        return (self.reg.get(raw=False) >> self.offset) & self.mask

    def get(self) -> int:
        return self.stored() << self.shift

    def enum_name(self) -> Optional[str]:
        v = self.get()
        for n, ev in self.enums:
            if ev == v:
                return n
        return None

    def hex(self) -> str:
        return "0x" + format(self.get(), f"0{self.config_width // 4}X")

    def enum_or_hex(self) -> Any:
        n = self.enum_name()
        return n if n is not None else self.hex()

    # -- writes -----------------------------------------------------------------------------
    def check(self, v: Any, no_preprocess: bool = False) -> int:
        v = to_int(v)
        if v < 0:
            raise Reject("negative value")
        if not no_preprocess:
            v >>= self.shift
        if v >> self.width:
            raise Reject("value does not fit the bit-field")
        return v

    def set(self, v: Any, no_preprocess: bool = False) -> None:
        s = self.check(v, no_preprocess)
        r = self.reg
        cur = r.get(raw=False)
        r.set((cur & ~(self.mask << self.offset)) | (s << self.offset), raw=False)

    def resolve_enum(self, x: Any) -> tuple[Any, bool]:
        """(value, no_preprocess) for the 'enum value' syntax: enum name, RAW:<number>, or a number."""
        for n, ev in self.enums:
            if n == x:
                return ev, False
        if isinstance(x, str) and x.startswith("RAW:"):
            return x[4:], True
        return x, False

    def set_enum(self, x: Any) -> None:
        v, nop = self.resolve_enum(x)
        self.set(v, nop)


class Reg:
    def __init__(self, name: str, uid: str, offset: int, width: int, hidden: bool = False):
        self.name = name
        self.uid = uid
        self.offset = offset
        self.width = width
        self.hidden = hidden
        self.fields: list[Field] = []
        self.aliases: list[str] = []
        self.value = 0  # leaf only
        self.reset = 0  # raw view in the reset state
        self.reset_ambiguous = False  # specification gives contradicting register / bit-field reset values
        self.parent: Optional["Reg"] = None
        # group attributes
        self.subs: list["Reg"] = []
        self.is_group = False
        self.reverse = False
        self.rev_order = False
        self.alt_widths: list[int] = []
        self.hexstring = False
        self.explicit_width = False
        # (logical value, raw snapshot) of the last write through the logical view (alt-width classes)
        self._memo: Optional[tuple[int, int]] = None

    # -- structure --------------------------------------------------------------------------
    @property
    def sub_width(self) -> int:
        return self.subs[0].width if self.subs else 0

    def leaves(self) -> list["Reg"]:
        return list(self.subs) if self.is_group else [self]

    def all_fields(self) -> list[Field]:
        return [f for lf in self.leaves() for f in lf.fields]

    def well_formed(self) -> bool:
        """Group completely covered by equally wide sub-registers / leaf with fields inside its width."""
        if self.is_group:
            return bool(self.subs) and all(s.width == self.sub_width for s in self.subs) and \
                self.sub_width * len(self.subs) == self.width and all(a % self.sub_width == 0 and 0 < a < self.width for a in self.alt_widths)
        return all(f.in_range for f in self.fields)

    def class_width(self, v: int) -> int:
        for a in sorted(self.alt_widths):
            if bytelen(v) <= a // 8:
                return a
        return self.width

    # -- raw view ---------------------------------------------------------------------------
    def raw(self) -> int:
        if not self.is_group:
            return self.value
        sw, W, v = self.sub_width, self.width, 0
        for i, s in enumerate(self.subs):
            pos = W - (i + 1) * sw if self.rev_order else i * sw
            v |= s.raw() << pos
        return v

    def _store_raw(self, v: int) -> None:
        if not self.is_group:
            self.value = v
            return
        sw, W = self.sub_width, self.width
        m = (1 << sw) - 1
        for i, s in enumerate(self.subs):
            pos = W - (i + 1) * sw if self.rev_order else i * sw
            s._store_raw((v >> pos) & m)

    # -- views ------------------------------------------------------------------------------
    def get(self, raw: bool = False) -> int:
        r = self.raw()
        if raw or not self.reverse:
            return r
        if self._memo is not None and self._memo[1] == r:
            return self._memo[0]
        return byterev(r, self.class_width(r) // 8)

    def get_inferred(self, raw: bool = False) -> int:
        """Logical view when the width class is inferred from the raw view alone."""
        r = self.raw()
        if raw or not self.reverse:
            return r
        return byterev(r, self.class_width(r) // 8)

    def check(self, v: Any) -> int:
        v = to_int(v)
        if v < 0:
            raise Reject("negative value")
        if v >> self.width:
            raise Reject("value does not fit the register")
        return v

    def set(self, v: Any, raw: bool = False) -> None:
        v = self.check(v)
        if self.reverse and not raw:
            r = byterev(v, self.class_width(v) // 8)
            self._store_raw(r)
            self._memo = (v, r)
        else:
            self._store_raw(v)
            self._memo = None

    def hex(self, raw: bool = False, inferred: bool = False) -> str:
        v = self.get_inferred(raw) if inferred else self.get(raw)
        s = format(v, f"0{self.class_width(v) // 4}X")
        return s if self.hexstring else "0x" + s

    def do_reset(self) -> None:
        self.set(self.reset, raw=True)

    # -- lookups ----------------------------------------------------------------------------
    def find_field(self, name: str) -> Field:
        for f in self.fields:
            if name == f.name or name == f.uid:
                return f
        raise NotFound(name)

    def get_field(self, uid: str) -> Field:
        for f in self.fields:
            if uid == f.uid:
                return f
        raise NotFound(uid)

    def visible_fields(self, exclude: Optional[list[str]] = None) -> list[Field]:
        return [f for f in self.fields if not f.hidden and not (exclude and f.name.startswith(tuple(exclude)))]

    def matches(self, name: str) -> bool:
        return name == self.name or name in self.aliases or name == self.uid


class Layout:
    def __init__(self, endian: str = "big"):
        assert endian in ("big", "little")
        self.endian = endian
        self.regs: list[Reg] = []
        self.ghost_fields = 0  # bit-fields of alias registers (merged by the loader)

    # -- lookups ----------------------------------------------------------------------------
    def find(self, name: str, include_group_regs: bool = False) -> Reg:
        for r in self.regs:
            if r.matches(name):
                return r
            if include_group_regs and r.is_group:
                for s in r.subs:
                    if s.matches(name):
                        return s
        raise NotFound(name)

    def get_by_uid(self, uid: str) -> Reg:
        for r in self.regs:
            if uid == r.uid:
                return r
            for s in r.subs:
                if uid == s.uid:
                    return s
        raise NotFound(uid)

    def registers(self, exclude: Optional[list[str]] = None, include_group_regs: bool = False) -> list[Reg]:
        regs = [r for r in self.regs if not (exclude and r.name.startswith(tuple(exclude)))]
        if include_group_regs:
            regs = regs + [s for r in regs if r.is_group for s in r.subs]
        return [r for r in regs if not r.hidden]

    def all_leaves(self) -> list[Reg]:
        return [lf for r in self.regs for lf in r.leaves()]

    # -- state ------------------------------------------------------------------------------
    def snapshot(self) -> tuple:
        return tuple(lf.value for lf in self.all_leaves())

    def restore(self, snap: tuple) -> None:
        for lf, v in zip(self.all_leaves(), snap):
            lf.value = v

    def reset(self, exclude: Optional[list[str]] = None) -> None:
        for r in self.registers(exclude):
            r.do_reset()

    # -- binary image -------------------------------------------------------------------------
    def size(self) -> int:
        return max((r.offset + r.width // 8 for r in self.regs), default=0)

    def overlaps(self) -> list[tuple[str, str]]:
        out = []
        spans = sorted((r.offset, r.offset + r.width // 8, r.name) for r in self.regs)
        for (a0, a1, an), (b0, _b1, bn) in zip(spans, spans[1:]):
            if b0 < a1:
                out.append((an, bn))
        return out

    def export(self, size: int = 0, fill: int = 0) -> bytes:
        n = max(self.size(), size)
        img = bytearray([fill]) * n
        for r in self.regs:
            img[r.offset:r.offset + r.width // 8] = r.raw().to_bytes(r.width // 8, self.endian)
        return bytes(img)

    def parse(self, data: bytes) -> int:
        """Returns the number of registers loaded."""
        n = 0
        for r in self.registers():
            if len(data) < r.offset + r.width // 8:
                break
            r.set(int.from_bytes(data[r.offset:r.offset + r.width // 8], self.endian), raw=True)
            n += 1
        return n

    # -- configuration ------------------------------------------------------------------------
    def get_config(self, diff: bool = False, inferred: bool = False) -> dict:
        cfg: dict[str, Any] = {}
        for r in self.regs:
            if diff and r.raw() == r.reset:
                continue
            if r.fields:
                d = {}
                for f in r.fields:
                    if (diff or f.hidden) and f.get() == f.reset_cfg:
                        continue
                    d[f.name] = f.enum_or_hex()
                cfg[r.name] = d
            else:
                cfg[r.name] = r.hex(inferred=inferred)
        return cfg

    def load_value(self, r: Reg, x: Any) -> None:
        if r.hexstring and isinstance(x, str):
            try:
                v = int(x, 16)
            except ValueError as e:
                raise Reject(f"not a hex string: {x!r}") from e
        else:
            v = to_int(x)
        r.set(v, raw=False)

    def load_config(self, cfg: dict) -> None:
        """Entries are applied in order; the first refused entry stops the load (partial application)."""
        for name, val in cfg.items():
            r = self.find(name, include_group_regs=True)
            if isinstance(val, dict):
                if "value" in val:
                    self.load_value(r, val["value"])
                else:
                    fields = val["bitfields"] if "bitfields" in val else val
                    for fname, fval in fields.items():
                        r.find_field(fname).set_enum(fval)
            elif isinstance(val, (int, str)):
                self.load_value(r, val)


# ------------------------------------------------------------------------------------------------
def _shift_of(cfg: Optional[str]) -> int:
    if not cfg:
        return 0
    head = cfg.split(";", 1)[0].split(":")
    if head[0] != "SHIFT_RIGHT":
        return 0
    params = dict(p.split("=") for p in head[1].split(",")) if len(head) > 1 else {}
    params = {k.lower(): to_int(v) for k, v in params.items()}
    if "count" not in params:
        raise SpecError("SHIFT_RIGHT requires COUNT")
    return params["count"]


def leaf_from_spec(spec: dict) -> Reg:
    r = Reg(spec.get("name", "N/A"), spec.get("id", ""), to_int(spec.get("offset_int", 0)),
            to_int(spec.get("reg_width", 32)), _truthy(spec.get("is_reserved", False)))
    if r.width % 8:
        raise SpecError("register width must be a multiple of 8")
    declared = to_int(spec.get("reset_value_int", 0))
    if declared >> r.width or declared < 0:
        raise SpecError("register reset value does not fit")
    r.value = declared
    off = 0
    for fs in spec.get("bitfields", []):
        width = to_int(fs.get("width", 0))
        hidden_name = f"HIDDEN_BITFIELD_{off:03X}"
        name = fs.get("name", hidden_name)
        f = Field(r, name or "N/A", fs.get("id", ""), off, width, _shift_of(fs.get("config_preprocess")), name == hidden_name)
        for es in fs.get("values", []):
            if "value" not in es:
                raise SpecError("enum without value")
            f.enums.append((es.get("name", "N/A") or "N/A", to_int(es["value"])))
        rv = to_int(fs.get("reset_value_int", 0))
        if rv:
            if f.in_range:
                before = f.stored()
                try:
                    f.set(rv)
                except Reject as e:
                    raise SpecError(f"bit-field reset value does not fit: {e}") from e
                if declared and before not in (0, f.stored()):
                    r.reset_ambiguous = True
            f.reset_cfg = rv
            if f.shift and (rv >> f.shift) << f.shift != rv:
                r.reset_ambiguous = True
        else:
            f.reset_cfg = f.get() if f.in_range else 0
        r.fields.append(f)
        off += width
    r.reset = r.value
    return r


def layout_from_spec(spec: dict, grouped: Optional[list[dict]] = None, endian: str = "big") -> Layout:
    """Documented loading rules of a register specification.

    * registers of all ``groups`` in file order; a register whose ``id`` is listed in a group
      description becomes a sub-register of that group, the group register takes the place of its
      first member; group offset = its own ``offset`` or that of the first member, group width =
      its own ``width`` or the sum of its members;
    * a register at the same non-zero offset as an earlier one is an *alias*: its name finds the
      earlier register and its bit-fields are listed with it;
    * two visible registers with one name are refused.
    """
    lay = Layout(endian)
    for g in spec.get("groups", []):
        for rs in g.get("registers", []):
            leaf = leaf_from_spec(rs)
            grp = None
            for gd in grouped or []:
                if leaf.uid in gd["sub_regs"]:
                    grp = gd
                    break
            if grp is None:
                _add(lay, leaf)
                continue
            try:
                gr = lay.get_by_uid(grp["uid"])
            except NotFound:
                gr = Reg(grp["name"], grp["uid"], to_int(grp.get("offset", 0)), to_int(grp.get("width", 0)))
                gr.is_group = True
                gr.explicit_width = gr.width != 0
                gr.reverse = _truthy(grp.get("reversed", False))
                gr.rev_order = bool(grp.get("reverse_subregs_order", False))
                gr.hexstring = bool(grp.get("config_as_hexstring", False))
                gr.alt_widths = sorted(grp.get("alternative_widths") or [])
                if gr.width % 8:
                    raise SpecError("register width must be a multiple of 8")
                _add(lay, gr)
            if not gr.subs:
                if gr.offset == 0:
                    gr.offset = leaf.offset
                if not gr.explicit_width:
                    gr.width = leaf.width
            else:
                if not gr.explicit_width:
                    if gr.offset + gr.width // 8 != leaf.offset:
                        raise SpecError("sub-register does not follow the previous one")
                    gr.width += leaf.width
                elif sum(s.width for s in gr.subs) + leaf.width > gr.width:
                    raise SpecError("sub-registers wider than the group")
                if gr.subs[0].width != leaf.width:
                    raise SpecError("sub-register of different width")
            leaf.parent = gr
            gr.subs.append(leaf)
    for r in lay.regs:
        r.reset = r.raw()
    return lay


def _add(lay: Layout, reg: Reg) -> None:
    if reg.name in [r.name for r in lay.regs if not r.hidden]:
        raise SpecError(f"register name used twice: {reg.name}")
    for r in lay.regs:
        if r.offset == reg.offset != 0:
            if reg.name not in r.aliases:
                r.aliases.append(reg.name)
            lay.ghost_fields += len(reg.fields)
            r.fields.extend(reg.fields)  # listed with the earlier register
            return
    lay.regs.append(reg)


# ------------------------------------------------------------------------------------------------
def selftest() -> dict:
    """Hand-computed vectors (none produced by SPSDK)."""
    n = 0

    def eq(a, b, what):
        nonlocal n
        n += 1
        if a != b:
            raise AssertionError(f"bitvec selftest {what}: {a!r} != {b!r}")

    eq(byterev(0x0102, 2), 0x0201, "byterev")
    eq(byterev(0x01, 4), 0x01000000, "byterev pad")
    eq(bytelen(0), 1, "bytelen 0")
    eq(bytelen(0x100), 2, "bytelen")
    spec = {"groups": [{"registers": [
        {"id": "r0", "name": "R0", "offset_int": "0x0", "reg_width": "32", "reset_value_int": "0x0",
         "bitfields": [
             {"id": "r0a", "name": "A", "width": "4", "reset_value_int": "0x5"},
             {"width": "4"},
             {"id": "r0b", "name": "B", "width": "8", "values": [{"name": "ON", "value": "0x81"}, {"name": "OFF", "value": 0}]},
             {"id": "r0c", "name": "C", "width": "16", "config_preprocess": "SHIFT_RIGHT:COUNT=8;DESC=x"}]},
        {"id": "s0", "name": "S0", "offset_int": "0x4", "reg_width": "16"},
        {"id": "s1", "name": "S1", "offset_int": "0x6", "reg_width": "16", "reset_value_int": "0xBEEF"},
        {"id": "s2", "name": "S2", "offset_int": "0x8", "reg_width": "16"},
        {"id": "s3", "name": "S3", "offset_int": "0xA", "reg_width": "16"},
        {"id": "h", "name": "RES", "offset_int": "0xC", "reg_width": "8", "is_reserved": True, "reset_value_int": "0x7"},
    ]}]}
    grouped = [{"uid": "g", "name": "G", "sub_regs": ["s0", "s1", "s2", "s3"], "reversed": True, "alternative_widths": [32],
                "config_as_hexstring": True}]
    lay = layout_from_spec(spec, grouped, "little")
    r0, g, h = lay.regs
    eq([r.name for r in lay.regs], ["R0", "G", "RES"], "order")
    eq(r0.value, 0x5, "field reset applied")
    eq((g.offset, g.width, len(g.subs)), (4, 64, 4), "group geometry")
    eq(g.raw(), 0xBEEF0000, "group raw = concatenation")
    eq(g.get(), 0x0000EFBE, "reversed inside the 32-bit class")
    eq(lay.export(), bytes.fromhex("05000000" "0000efbe00000000" "07"), "export little")
    b = r0.find_field("B")
    b.set_enum("ON")
    eq(r0.value, 0x8105, "enum write")
    eq(b.enum_or_hex(), "ON", "enum read")
    c = r0.find_field("C")
    c.set(0x123456)
    eq(r0.value, 0x12348105, "shift-right write stores v >> 8")
    eq(c.get(), 0x123400, "shift-right read")
    eq(c.hex(), "0x123400", "config width 24")
    c.set_enum("RAW:0xFFFF")
    eq(c.stored(), 0xFFFF, "RAW: skips the processor")
    for bad in (1 << 24, -1, "zz"):
        try:
            c.set(bad)
            raise AssertionError("accepted " + repr(bad))
        except Reject:
            n += 1
    try:
        b.set(256)
        raise AssertionError("accepted 2**width")
    except Reject:
        n += 1
    eq(r0.value, 0xFFFF8105, "rejections change nothing")
    g.set(0x0102030405060708)
    eq([s.value for s in g.subs], [0x0201, 0x0403, 0x0605, 0x0807], "reversed 64-bit write, normal order")
    eq(g.get(), 0x0102030405060708, "read back")
    eq(g.hex(), "0102030405060708", "hexstring, 64-bit class")
    g.set(0x01020304)
    eq([s.value for s in g.subs], [0x0201, 0x0403, 0, 0], "narrow class write determines all bits")
    eq(g.hex(), "01020304", "32-bit class digits")
    g.set(1 << 60)  # 0x10 00.. : reversed raw = 0x10 -> class inferred from raw would be 32
    eq(g.raw(), 0x10, "raw of 2^60")
    eq(g.get(), 1 << 60, "read = last written")
    eq(g.get_inferred(), 0x10000000, "inferred class differs (length-class finding)")
    g.subs[3].set(0x8000)
    eq(g.get(), byterev(0x8000 << 48 | 0x10, 8), "memo dropped after a sub-register write")
    cfg = lay.get_config()
    eq(cfg["R0"], {"A": "0x5", "B": "ON", "C": "0xFFFF00"}, "config of R0 (hidden gap at reset left out)")
    eq(cfg["RES"], "0x07", "hidden register in config")
    snap = lay.snapshot()
    lay.reset()
    eq((r0.value, g.raw(), h.value), (5, 0xBEEF0000, 7), "reset state")
    lay.load_config(cfg)
    eq(lay.snapshot(), snap, "config round trip")
    img = lay.export()
    lay.reset()
    h.set(9)
    eq(lay.parse(img), 2, "parse skips hidden")
    eq(lay.snapshot()[:-1], snap[:-1], "parse round trip")
    eq(h.value, 9, "hidden untouched by parse")
    eq(lay.parse(img[:5]), 1, "short data: parsing ends at G")
    # reversed sub-register order, big endian
    g2 = [{"uid": "g", "name": "G", "sub_regs": ["s0", "s1", "s2", "s3"], "reverse_subregs_order": True, "width": 64}]
    lay2 = layout_from_spec(spec, g2, "big")
    gg = lay2.regs[1]
    gg.set(0x1111222233334444)
    eq([s.value for s in gg.subs], [0x1111, 0x2222, 0x3333, 0x4444], "reversed sub-register order")
    eq(lay2.export()[4:12], bytes.fromhex("1111222233334444"), "export big")
    eq([r.name for r in lay2.registers(include_group_regs=True)], ["R0", "G", "S0", "S1", "S2", "S3"], "listing with sub-registers")
    eq(lay2.find("s2", True).name, "S2", "find sub-register by uid")
    try:
        lay2.find("S2")
        raise AssertionError("found a sub-register without include_group_regs")
    except NotFound:
        n += 1
    return {"vectors": n}
