"""Reference interpreter for the SB2.1 command-file (BD) language  (property C19).

Hand-written tokenizer + recursive-descent evaluator of the grammar in ``docs/usage/elf2sb.md``,
restricted to the subset the document marks as supported.  Imports nothing from ``spsdk``.

    prog = parse(text, extern=[...])          # symbol tables + neutral statement list
    secs = commands(prog, read_file)          # expected boot commands (SB2 command-header fields)

``parse`` returns a plain dict::

    {"options":   {name: int | str},           # in definition order
     "constants": {name: int},
     "sources":   {name: path},
     "keyblobs":  [{"id": int, "options": {name: int | str}}],
     "sections":  [{"id": int, "statements": [stmt, ...]}],
     "ops":       {operator or construct: times evaluated}}

    stmt = {"op": "load", "mem": None | int | "name", "src": ["file", path] | ["blob", hex] | ["pattern", value, size],
            "addr": int, "len": None | int}
         | {"op": "erase", "mem": ..., "addr": int, "len": None | int, "all": 0 | 1, "unsecure": 0 | 1}
         | {"op": "enable", "mem": ..., "addr": int}
         | {"op": "jump" | "call", "addr": int, "arg": None | int, "sp": None | int}
         | {"op": "reset"}
         | {"op": "version_check", "nsec": 0 | 1, "version": int}
         | {"op": "keystore_to_nv" | "keystore_from_nv", "mem": ..., "addr": int, "len": None | int}
         | {"op": "encrypt" | "keywrap", "keyblob": int, "load": <load stmt>}

Semantics (sources: the grammar document; the elftosb-produced ``legacy_*.sb`` files shipped next to
their BD files in the repository's test data, decoded by :func:`decode_sb21` in the self-test):

* Two strata, exactly as the grammar has them.  ``expr`` (``+ - * / % << >> & | ^``, unary ``+ -``,
  parentheses, literals, constants, ``.b/.h/.w``) with C precedence, left associative, over unbounded
  integers ("ordinary arithmetic").  ``bool_expr`` (``|| && == != < <= > >= !``, ``defined()``,
  parenthesised ``bool_expr``) *over* ``int_const_expr`` operands, C precedence, every result 0 or 1.
  A ``bool_expr`` cannot be an operand of an arithmetic operator (the grammar has no such production),
  so ``!1 + 2`` is ``!(1 + 2)``.
* Literals: decimal, ``0x`` hexadecimal, decimal with ``K`` (x1024), ``'abcd'`` (1..4 characters,
  big-endian character codes), ``true/yes`` = 1, ``false/no`` = 0.
* ``.b/.h/.w`` keep the low 8/16/32 bits.
* ``a..b`` is the address ``a`` with length ``b - a``.
* ``load <int> > a`` is a 4-byte FILL, ``load <int> > a..b`` a FILL of ``b - a`` bytes, the pattern
  word being the value replicated to 32 bits according to its width.
* ``load {{..}} > a`` loads the bytes in written order, any length.
* ``load fuse|ifr|@4 <int>`` / ``{{4 or 8 bytes}}`` is a PROG command; blob bytes form little-endian
  words.
* memory ids: flags = (id & 0xFF) << 8 | ((id >> 8) & 0xF) << 4.

What the document (and the goldens) leave open is **not guessed**: the interpreter raises
:class:`BDOutOfDomain` for the expression (C and mathematical semantics differ, or the precedence of
a construct is not documented) or lists the command fields concerned in ``cmd["open"]``.

``quirks`` (a set of names from :data:`QUIRKS`) re-interprets a program under one *hypothesised
defect* of an implementation; the property check uses that only to name the mechanism of a mismatch
it has already established with ``quirks=()``.
"""
from __future__ import annotations

import hashlib
import hmac as _hmac
import struct

# ------------------------------------------------------------------------------------------
# errors


class BDError(Exception):
    """Base class; ``args[0]`` is a short reason."""


class BDSyntaxError(BDError):
    """Not derivable from the documented grammar."""


class BDUnsupported(BDError):
    """Grammatical, but a construct the document marks 'not supported' - an implementation must refuse it."""


class BDSemanticError(BDError):
    """Undefined identifier, extern() out of range, division by zero, unknown key blob ..."""


class BDOutOfDomain(BDError):
    """The documents do not fix the meaning (or C and ordinary arithmetic differ): not judged."""


KEYWORDS = {
    "options", "constants", "sources", "keyblob", "section", "extern", "load", "erase", "all", "unsecure",
    "enable", "call", "jump", "jump_sp", "reset", "from", "mode", "info", "warning", "error", "if", "else",
    "defined", "sizeof", "keywrap", "encrypt", "keystore_to_nv", "keystore_from_nv", "version_check",
    "sec", "nsec", "true", "false", "yes", "no", "filters", "raw", "switch",
}

# memory names of the legacy tool (MCU boot loader memory ids)
MEM_NAMES = {
    "qspi": 1, "ifr": 4, "fuse": 4, "semcnor": 8, "flexspinor": 9, "spifinor": 10,
    "semcnand": 0x100, "spinand": 0x101, "spieeprom": 0x110, "i2ceeprom": 0x111,
    "sdcard": 0x120, "mmccard": 0x121,
}
PROG_MEM = 4

QUIRKS = (
    "times-is-minus",                # a * b evaluated as a - b
    "int-size-mask-halved",          # .b/.h/.w keep 4/8/16 bits
    "defined-always-false",          # defined(x) is 0 for every x
    "string-literal-greedy",         # "..." extends to the last quote on the line
    "char-literal-greedy",           # '...' extends to the last apostrophe on the line
    "logical-op-returns-operand",    # a && b / a || b yield an operand (Python and/or) instead of 0/1
    "fill-range-length-ignored",     # pattern fill over a range emits a 4-byte fill
    "blob-as-le-word",               # {{..}} read as one big-endian number and stored as a little-endian 32-bit word
    "fuse-blob-by-magnitude",        # PROG words derived from the numeric magnitude of the blob, not from its bytes
    "unary-binds-looser-than-multiplicative",  # -a % b read as -(a % b), with floor division/modulo inside
)

TAG = {"nop": 0, "tag": 1, "load": 2, "fill": 3, "jump": 4, "call": 5, "erase": 7, "reset": 8, "enable": 9,
       "prog": 10, "version_check": 11, "keystore_to_nv": 12, "keystore_from_nv": 13}

_U32 = 0xFFFFFFFF


# ------------------------------------------------------------------------------------------
# tokenizer

_OPS3 = ()
_OPS2 = ("<<", ">>", "&&", "||", "<=", ">=", "==", "!=", "..", "{{")
_OPS1 = "+-*/%&|^~!<>(){},.;:?=@$"


class Tok:
    __slots__ = ("kind", "val", "pos", "text")

    def __init__(self, kind, val, pos, text):
        self.kind, self.val, self.pos, self.text = kind, val, pos, text

    def __repr__(self):
        return f"{self.kind}:{self.text!r}@{self.pos}"


def tokenize(text, quirks=()):
    toks = []
    i, n = 0, len(text)
    while i < n:
        ch = text[i]
        if ch in " \t\r\n":
            i += 1
            continue
        if text.startswith("//", i) or ch == "#":
            j = text.find("\n", i)
            i = n if j < 0 else j
            continue
        if text.startswith("/*", i):
            j = text.find("*/", i + 2)
            if j < 0:
                raise BDSyntaxError("unterminated /* comment")
            i = j + 2
            continue
        if ch == '"':
            eol = text.find("\n", i)
            eol = n if eol < 0 else eol
            j = text.rfind('"', i + 1, eol) if "string-literal-greedy" in quirks else text.find('"', i + 1, eol)
            if j < 0:
                raise BDSyntaxError("unterminated string literal")
            toks.append(Tok("str", text[i + 1:j], i, text[i:j + 1]))
            i = j + 1
            continue
        if ch == "'":
            eol = text.find("\n", i)
            eol = n if eol < 0 else eol
            j = text.rfind("'", i + 1, eol) if "char-literal-greedy" in quirks else text.find("'", i + 1, eol)
            if j < 0:
                raise BDSyntaxError("unterminated character literal")
            body = text[i + 1:j]
            if not body:
                raise BDSyntaxError("empty character literal")
            if len(body) > 4 and "char-literal-greedy" not in quirks:
                raise BDOutOfDomain("character literal longer than 4 characters")
            toks.append(Tok("int", int.from_bytes(body.encode("utf-8"), "big"), i, text[i:j + 1]))
            i = j + 1
            continue
        if text.startswith("{{", i):
            j = text.find("}}", i + 2)
            if j < 0:
                raise BDSyntaxError("unterminated {{ blob")
            body = text[i + 2:j]
            hexd = "".join(body.split())
            if not hexd or len(hexd) % 2 or any(c not in "0123456789abcdefABCDEF" for c in hexd):
                raise BDSyntaxError("malformed binary blob")
            if any(len(grp) % 2 for grp in body.split()):
                raise BDSyntaxError("binary blob group with an odd number of hex digits")
            toks.append(Tok("blob", hexd.lower(), i, text[i:j + 2]))
            i = j + 2
            continue
        if ch.isdigit():
            j = i
            if text.startswith(("0x", "0X"), i):
                j = i + 2
                while j < n and text[j] in "0123456789abcdefABCDEF":
                    j += 1
                if j == i + 2:
                    raise BDSyntaxError("malformed hexadecimal literal")
                val = int(text[i + 2:j], 16)
            else:
                while j < n and text[j].isdigit():
                    j += 1
                if j - i > 1 and text[i] == "0":
                    raise BDOutOfDomain("decimal literal with a leading zero (octal in C, decimal elsewhere)")
                val = int(text[i:j])
                if j < n and text[j] == "K":
                    val *= 1024
                    j += 1
            if j < n and (text[j].isalnum() or text[j] == "_"):
                raise BDSyntaxError("malformed integer literal")
            toks.append(Tok("int", val, i, text[i:j]))
            i = j
            continue
        if ch.isalpha() or ch == "_":
            j = i
            while j < n and (text[j].isalnum() or text[j] == "_"):
                j += 1
            word = text[i:j]
            if word in ("true", "yes"):
                toks.append(Tok("int", 1, i, word))
            elif word in ("false", "no"):
                toks.append(Tok("int", 0, i, word))
            elif word in KEYWORDS:
                toks.append(Tok("kw", word, i, word))
            else:
                toks.append(Tok("id", word, i, word))
            i = j
            continue
        if ch == "$" and i + 1 < n and (text[i + 1].isalnum() or text[i + 1] in "_.*?-^[]"):
            j = i + 1
            while j < n and (text[j].isalnum() or text[j] in "_.*?-^[]"):
                j += 1
            toks.append(Tok("secname", text[i:j], i, text[i:j]))
            i = j
            continue
        two = text[i:i + 2]
        if two in _OPS2:
            toks.append(Tok("op", two, i, two))
            i += 2
            continue
        if ch in _OPS1:
            toks.append(Tok("op", ch, i, ch))
            i += 1
            continue
        raise BDSyntaxError(f"illegal character {ch!r}")
    toks.append(Tok("eof", None, n, ""))
    return toks


# ------------------------------------------------------------------------------------------
# parser / evaluator

_BIN_LEVELS = [  # lowest first
    ("|",), ("^",), ("&",), ("<<", ">>"), ("+", "-"), ("*", "/", "%"),
]
_EXPR_START_OPS = ("(", "+", "-")


class _Parser:
    def __init__(self, text, extern, quirks):
        self.q = frozenset(quirks)
        unknown = self.q - set(QUIRKS)
        if unknown:
            raise ValueError(f"unknown quirks {sorted(unknown)}")
        self.toks = tokenize(text, self.q)
        self.i = 0
        self.extern = list(extern or [])
        self.options = {}
        self.constants = {}
        self.sources = {}
        self.keyblobs = []
        self.sections = []
        self.ops = {}

    # -- token helpers ------------------------------------------------------------------
    @property
    def t(self):
        return self.toks[self.i]

    def peek(self, k=1):
        return self.toks[min(self.i + k, len(self.toks) - 1)]

    def is_op(self, *ops):
        return self.t.kind == "op" and self.t.val in ops

    def is_kw(self, *kws):
        return self.t.kind == "kw" and self.t.val in kws

    def take(self):
        t = self.t
        self.i += 1
        return t

    def expect_op(self, op):
        if not self.is_op(op):
            raise BDSyntaxError(f"expected '{op}' near {self.t!r}")
        return self.take()

    def expect_kind(self, kind):
        if self.t.kind != kind:
            raise BDSyntaxError(f"expected {kind} near {self.t!r}")
        return self.take()

    def note(self, what):
        self.ops[what] = self.ops.get(what, 0) + 1

    # -- command_file -------------------------------------------------------------------
    def command_file(self):
        while self.is_kw("options", "constants", "sources", "keyblob"):
            kw = self.take().val
            self.note("block:" + kw)
            getattr(self, "_block_" + kw)()
        while self.is_kw("section"):
            self._section()
        if self.t.kind != "eof":
            if self.is_kw("options", "constants", "sources", "keyblob"):
                raise BDSyntaxError("pre-section block after a section block")
            raise BDSyntaxError(f"unexpected {self.t!r}")
        return {
            "options": self.options, "constants": self.constants, "sources": self.sources,
            "keyblobs": self.keyblobs, "sections": self.sections, "ops": self.ops,
        }

    def _define_check(self, name):
        if name in self.constants or name in self.options or name in self.sources:
            raise BDOutOfDomain(f"identifier '{name}' defined twice")

    def _block_options(self):
        self.expect_op("{")
        while not self.is_op("}"):
            name = self.expect_kind("id").val
            self.expect_op("=")
            val = self.const_expr()
            self.expect_op(";")
            self._define_check(name)
            self.options[name] = val
        self.take()

    def _block_constants(self):
        self.expect_op("{")
        while not self.is_op("}"):
            name = self.expect_kind("id").val
            self.expect_op("=")
            val = self.bool_expr()
            self.expect_op(";")
            self._define_check(name)
            self.constants[name] = val
        self.take()

    def _block_sources(self):
        self.expect_op("{")
        while not self.is_op("}"):
            name = self.expect_kind("id").val
            self.expect_op("=")
            if self.t.kind == "str":
                val = self.take().val
                self.note("source:string")
            elif self.is_kw("extern"):
                self.take()
                self.expect_op("(")
                idx = self.int_const_expr()
                self.expect_op(")")
                if not 0 <= idx < len(self.extern):
                    raise BDSemanticError("extern() index out of range")
                val = self.extern[idx]
                self.note("source:extern")
            else:
                raise BDSyntaxError(f"source value expected near {self.t!r}")
            if self.is_op("("):
                raise BDUnsupported("source attribute list")
            self.expect_op(";")
            self._define_check(name)
            self.sources[name] = val
        self.take()

    def _block_keyblob(self):
        self.expect_op("(")
        kid = self.int_const_expr()
        self.expect_op(")")
        self.expect_op("{")
        if self.is_op("}"):
            raise BDUnsupported("empty keyblob block")
        self.expect_op("(")
        if self.is_op(")"):
            raise BDUnsupported("empty keyblob option list")
        opts = {}
        while True:
            name = self.expect_kind("id").val
            self.expect_op("=")
            opts[name] = self.const_expr()
            if self.is_op(","):
                self.take()
                continue
            break
        self.expect_op(")")
        if self.is_op("("):
            raise BDUnsupported("several option lists in one keyblob block")
        self.expect_op("}")
        self.keyblobs.append({"id": kid, "options": opts})

    def _section(self):
        self.take()
        self.expect_op("(")
        sid = self.int_const_expr()
        if self.is_op(";"):
            self.take()
            if not self.is_op(")"):
                # the document: "section_options is not supported and raises syntax error when used";
                # the repository's own tests (tests/nxpimage/test_bd_compiler.py) pin them as accepted
                raise BDOutOfDomain("section options")
        self.expect_op(")")
        if self.is_op("<="):
            raise BDUnsupported("section contents '<= source'")
        self.expect_op("{")
        self.note("block:section")
        stmts = []
        while not self.is_op("}"):
            stmts.append(self.statement())
        self.take()
        self.sections.append({"id": sid, "statements": stmts})

    # -- statements ---------------------------------------------------------------------
    def statement(self):
        if self.is_kw("from"):
            raise BDUnsupported("from statement")
        if self.is_kw("if"):
            raise BDUnsupported("if statement")
        if self.is_kw("mode"):
            raise BDUnsupported("mode statement")
        if self.is_kw("info", "warning", "error"):
            raise BDUnsupported("message statement")
        if self.is_kw("else"):
            raise BDSyntaxError("else without if")
        if self.is_kw("keywrap", "encrypt"):
            kw = self.take().val
            self.expect_op("(")
            kid = self.int_const_expr()
            self.expect_op(")")
            self.expect_op("{")
            if not self.is_kw("load"):
                raise BDOutOfDomain(f"{kw} block that does not consist of exactly one load statement")
            ld = self._load()
            self.expect_op(";")
            if not self.is_op("}"):
                raise BDOutOfDomain(f"{kw} block with more than one statement")
            self.take()
            if self.is_op(";"):
                # encrypt_stmt is a basic_stmt in the document (';' follows), keywrap_stmt is not:
                # the real files write neither - tolerate an optional ';' as out of domain
                raise BDOutOfDomain("';' after an encrypt/keywrap block")
            if kw == "keywrap" and (ld["src"][0] != "blob" or ld["mem"] is not None or ld["len"] is not None):
                raise BDOutOfDomain("keywrap block whose load is not a plain blob load")
            self.note("stmt:" + kw)
            return {"op": kw, "keyblob": kid, "load": ld}
        st = self._basic_stmt()
        self.expect_op(";")
        return st

    def _basic_stmt(self):
        if self.is_kw("load"):
            return self._load()
        if self.is_kw("erase"):
            return self._erase()
        if self.is_kw("enable"):
            self.take()
            mem = self._mem_opt()
            addr = self._u32(self.int_const_expr(), "enable address")
            self.note("stmt:enable")
            return {"op": "enable", "mem": mem, "addr": addr}
        if self.is_kw("call", "jump"):
            op = self.take().val
            addr = self._call_target()
            arg = self._call_arg()
            self.note("stmt:" + op)
            return {"op": op, "addr": addr, "arg": arg, "sp": None}
        if self.is_kw("jump_sp"):
            self.take()
            sp = self._u32(self.int_const_expr(), "stack pointer")
            if self.is_op(*_EXPR_START_OPS):
                raise BDOutOfDomain("jump_sp: two adjacent expressions, the second starting with an operator or '('")
            addr = self._call_target()
            arg = self._call_arg()
            self.note("stmt:jump_sp")
            return {"op": "jump", "addr": addr, "arg": arg, "sp": sp}
        if self.is_kw("reset"):
            self.take()
            self.note("stmt:reset")
            return {"op": "reset"}
        if self.is_kw("keystore_to_nv", "keystore_from_nv"):
            op = self.take().val
            mem = self._mem_opt()
            addr, ln = self._address_or_range()
            self.note("stmt:" + op)
            return {"op": op, "mem": mem, "addr": addr, "len": ln}
        if self.is_kw("version_check"):
            self.take()
            if not self.is_kw("sec", "nsec"):
                raise BDSyntaxError("sec or nsec expected")
            nsec = 1 if self.take().val == "nsec" else 0
            ver = self._u32(self.int_const_expr(), "version")
            self.note("stmt:version_check")
            return {"op": "version_check", "nsec": nsec, "version": ver}
        raise BDSyntaxError(f"statement expected near {self.t!r}")

    def _mem_opt(self):
        """mem_opt ::= IDENT | '@' int_const_expr | empty  (an IDENT naming a constant is an operand, not a memory)."""
        if self.is_op("@"):
            self.take()
            mem = self._u32(self.int_const_expr(), "memory id")
            if self.is_op(*_EXPR_START_OPS):
                raise BDOutOfDomain("two adjacent expressions, the second starting with an operator or '('")
            self.note("mem:@")
            return mem
        if self.t.kind == "id" and self.t.val not in self.constants and self.t.val not in self.sources \
                and self.t.val not in self.options:
            self.note("mem:name")
            return self.take().val
        return None

    def _load(self):
        self.take()
        mem = self._mem_opt()
        t = self.t
        size = None
        if t.kind == "str":
            src = ["file", self.take().val]
            self.note("load:string")
        elif t.kind == "blob":
            src = ["blob", self.take().val]
            self.note("load:blob")
        elif t.kind == "id" and t.val in self.sources:
            if self.peek().kind == "op" and self.peek().val == "?":
                raise BDUnsupported("symbol reference")
            src = ["file", self.sources[self.take().val]]
            self.note("load:source")
        elif t.kind == "secname" or self.is_op("~"):
            raise BDUnsupported("section list as load data")
        else:
            val, size = self._sized_expr()
            src = ["pattern", self._u32(val, "pattern"), size]
            self.note("load:pattern")
        if self.is_kw("from"):
            raise BDUnsupported("section list 'from' source")
        if not self.is_op(">"):
            raise BDUnsupported("load without target")
        self.take()
        if self.is_op("."):
            raise BDUnsupported("'.' as load target")
        addr, ln = self._address_or_range()
        self.note("stmt:load")
        return {"op": "load", "mem": mem, "src": src, "addr": addr, "len": ln}

    def _erase(self):
        self.take()
        if self.is_kw("unsecure"):
            self.take()
            if not self.is_kw("all"):
                raise BDSyntaxError("'all' expected after 'unsecure'")
            self.take()
            self.note("stmt:erase-unsecure-all")
            return {"op": "erase", "mem": None, "addr": 0, "len": None, "all": 1, "unsecure": 1}
        mem = self._mem_opt()
        if self.is_kw("all"):
            self.take()
            self.note("stmt:erase-all")
            return {"op": "erase", "mem": mem, "addr": 0, "len": None, "all": 1, "unsecure": 0}
        addr, ln = self._address_or_range()
        self.note("stmt:erase")
        return {"op": "erase", "mem": mem, "addr": addr, "len": ln, "all": 0, "unsecure": 0}

    def _address_or_range(self):
        a = self._u32(self.int_const_expr(), "address")
        if self.is_op(".."):
            self.take()
            b = self._u32(self.int_const_expr(), "range end")
            if b < a and not self.q:
                raise BDOutOfDomain("range end below range start")
            self.note("range")
            return a, b - a
        return a, None

    def _call_target(self):
        if self.t.kind == "id" and self.t.val in self.sources:
            raise BDUnsupported("source name / symbol reference as call target")
        if self.is_op(":"):
            raise BDUnsupported("symbol reference as call target")
        return self._u32(self.int_const_expr(), "call target")

    def _call_arg(self):
        if self.is_op("("):
            self.take()
            if self.is_op(")"):
                self.take()
                self.note("call_arg:empty")
                return None
            arg = self._u32(self.int_const_expr(), "call argument")
            self.expect_op(")")
            self.note("call_arg")
            return arg
        return None

    def _u32(self, v, what):
        if not 0 <= v <= _U32 and not self.q:   # under a quirk the value is whatever the hypothesis yields
            raise BDOutOfDomain(f"{what} outside 0..2^32-1")
        return v

    # -- expressions --------------------------------------------------------------------
    def const_expr(self):
        if self.t.kind == "str":
            self.note("const:string")
            return self.take().val
        return self.bool_expr()

    def bool_expr(self):
        return self._lor()

    def _truth(self, v):
        return 1 if v else 0

    def _lor(self):
        v = self._land()
        while self.is_op("||"):
            self.take()
            r = self._land()
            self.note("||")
            v = (v or r) if "logical-op-returns-operand" in self.q else self._truth(v or r)
        return v

    def _land(self):
        v = self._equality()
        while self.is_op("&&"):
            self.take()
            r = self._equality()
            self.note("&&")
            v = (v and r) if "logical-op-returns-operand" in self.q else self._truth(v and r)
        return v

    def _equality(self):
        v = self._relational()
        while self.is_op("==", "!="):
            op = self.take().val
            r = self._relational()
            self.note(op)
            v = self._truth(v == r) if op == "==" else self._truth(v != r)
        return v

    def _relational(self):
        v = self._lnot()
        while self.is_op("<", "<=", ">", ">="):
            op = self.take().val
            r = self._lnot()
            self.note(op)
            v = self._truth({"<": v < r, "<=": v <= r, ">": v > r, ">=": v >= r}[op])
        return v

    def _lnot(self):
        if self.is_op("!"):
            self.take()
            v = self._lnot()
            self.note("!")
            return self._truth(not v)
        return self._bool_primary()

    def _bool_primary(self):
        if self.is_kw("defined"):
            self.take()
            self.expect_op("(")
            name = self.expect_kind("id").val
            self.expect_op(")")
            self.note("defined")
            if name in self.sources:
                raise BDSyntaxError("defined() of a source name")
            if name in self.options and name not in self.constants:
                raise BDOutOfDomain("defined() of an option name")
            if "defined-always-false" in self.q:
                return 0
            return 1 if name in self.constants else 0
        if self.t.kind == "id" and self.peek().kind == "op" and self.peek().val == "(":
            raise BDUnsupported("IDENT ( source_name )")
        if self.is_op("("):
            # '(' expr ')' continued as an expr, or '(' bool_expr ')': try the arithmetic reading first
            save, saved_ops = self.i, dict(self.ops)
            try:
                return self.expr()
            except BDSyntaxError:
                self.i, self.ops = save, saved_ops
            self.take()
            v = self.bool_expr()
            self.expect_op(")")
            self.note("(bool)")
            return v
        return self.expr()

    def int_const_expr(self):
        return self.expr()

    def expr(self):
        return self._sized_expr()[0]

    def _sized_expr(self):
        """A complete expr; returns (value, explicit size in bytes or None).

        The documents give '.b/.h/.w' no precedence relative to the operators, so a suffix is accepted
        only where that cannot matter: on a primary that is the whole (possibly parenthesised) expression.
        """
        return self._binary(0)

    def _binary(self, level):
        if level == len(_BIN_LEVELS):
            return self._unary()
        v, size = self._binary(level + 1)
        while self.is_op(*_BIN_LEVELS[level]):
            op = self.take().val
            r, rsize = self._binary(level + 1)
            if size is not None or rsize is not None:
                raise BDOutOfDomain("integer-size suffix on an operand of an unparenthesised operator")
            v = self._apply(op, v, r)
        return v, size

    def _apply(self, op, a, b):
        self.note(op)
        if op == "+":
            return a + b
        if op == "-":
            return a - b
        if op == "*":
            return a - b if "times-is-minus" in self.q else a * b
        if op in ("/", "%"):
            if b == 0:
                raise BDSemanticError("division by zero")
            if (a < 0 or b < 0) and not self.q:
                raise BDOutOfDomain("negative operand of / or % (C truncates, floor division does not)")
            return a // b if op == "/" else a % b   # under a quirk: what unbounded floor arithmetic gives
        if op in ("<<", ">>"):
            if (a < 0 or not 0 <= b <= 31) and not self.q:
                raise BDOutOfDomain("shift of a negative value or by a count outside 0..31")
            if b < 0 or (op == "<<" and a != 0 and b > 1 << 27):
                raise BDSemanticError("negative or absurd shift count")
            return a << b if op == "<<" else a >> b
        if op == "&":
            return a & b
        if op == "|":
            return a | b
        if op == "^":
            return a ^ b
        raise AssertionError(op)

    def _unary(self):
        if self.is_op("+", "-"):
            op = self.take().val
            if "unary-binds-looser-than-multiplicative" in self.q:
                v, size = self._binary(len(_BIN_LEVELS) - 1)
            else:
                v, size = self._unary()
            if size is not None:
                raise BDOutOfDomain("integer-size suffix on the operand of a unary operator")
            self.note("unary" + op)
            return (-v if op == "-" else v), None
        return self._postfix()

    def _postfix(self):
        v = self._primary()
        size = None
        while self.is_op(".") and self.peek().kind == "id" and self.peek().val in ("b", "h", "w"):
            self.take()
            ch = self.take().val
            size = {"b": 1, "h": 2, "w": 4}[ch]
            bits = 8 * size
            if "int-size-mask-halved" in self.q:
                bits //= 2
            v &= (1 << bits) - 1
            self.note("." + ch)
        return v, size

    def _primary(self):
        t = self.t
        if t.kind == "int":
            self.take()
            self.note("literal:char" if t.text.startswith("'") else
                      "literal:K" if t.text.endswith("K") else
                      "literal:bool" if t.text[0].isalpha() else
                      "literal:hex" if t.text[:2] in ("0x", "0X") else "literal:dec")
            return t.val
        if t.kind == "id":
            if self.peek().kind == "op" and self.peek().val == "?":
                raise BDUnsupported("symbol reference")
            self.take()
            if t.val in self.constants:
                self.note("constant-ref")
                return self.constants[t.val]
            if t.val in self.options:
                raise BDOutOfDomain("option name used in an expression")
            if t.val in self.sources:
                raise BDSyntaxError("source name used in an expression")
            raise BDSemanticError(f"undefined identifier '{t.val}'")
        if t.kind == "op" and t.val == "(":
            self.take()
            v = self.expr()
            self.expect_op(")")
            self.note("(expr)")
            return v
        if t.kind == "op" and t.val == ":":
            raise BDUnsupported("symbol reference")
        if t.kind == "kw" and t.val == "sizeof":
            raise BDUnsupported("sizeof")
        if t.kind == "secname":
            raise BDUnsupported("section name")
        raise BDSyntaxError(f"expression expected near {t!r}")


def parse(text, extern=(), quirks=()):
    """Parse and evaluate a BD program; see the module docstring for the result."""
    return _Parser(text, extern, quirks).command_file()


def evaluate(expr_text, constants=None, quirks=(), boolean=True):
    """Evaluate one (bool_)expr with the given constants (testing aid)."""
    p = _Parser(expr_text, (), quirks)
    p.constants = dict(constants or {})
    v = p.bool_expr() if boolean else p.expr()
    if p.t.kind != "eof":
        raise BDSyntaxError(f"trailing input {p.t!r}")
    return v


# ------------------------------------------------------------------------------------------
# statements -> boot commands


def mem_id_of(mem):
    if mem is None:
        return 0
    if isinstance(mem, int):
        return mem
    if mem in MEM_NAMES:
        return MEM_NAMES[mem]
    raise BDSemanticError(f"unknown memory name '{mem}'")


def mem_flags(mem_id):
    return ((mem_id & 0xFF) << 8) | (((mem_id >> 8) & 0xF) << 4)


def pattern_word(value, size):
    """32-bit fill word for an integer of the given explicit size (None = word)."""
    if size == 1:
        return (value & 0xFF) * 0x01010101
    if size == 2:
        return (value & 0xFFFF) * 0x00010001
    return value & _U32


def _cmd(kind, tag, flags=0, address=0, count=0, data=0, payload=None, open_=(), **extra):
    d = {"kind": kind, "tag": tag, "flags": flags, "address": address, "count": count, "data": data,
         "payload": payload, "open": sorted(open_)}
    d.update(extra)
    return d


def _find_keyblob(prog, kid):
    found = [kb for kb in prog["keyblobs"] if kb["id"] == kid]
    if not found:
        raise BDSemanticError(f"keyblob {kid} is not defined")
    if len(found) > 1:
        raise BDOutOfDomain(f"keyblob {kid} defined twice")
    o = found[0]["options"]
    for k in ("start", "end", "key", "counter"):
        if k not in o:
            raise BDSemanticError(f"keyblob {kid} lacks '{k}'")
    if not (isinstance(o["start"], int) and isinstance(o["end"], int) and isinstance(o["key"], str)
            and isinstance(o["counter"], str)):
        raise BDSemanticError(f"keyblob {kid}: wrong option types")
    try:
        key, ctr = bytes.fromhex(o["key"]), bytes.fromhex(o["counter"])
    except ValueError:
        raise BDSemanticError(f"keyblob {kid}: key/counter are not hex strings") from None
    if len(key) != 16 or len(ctr) != 8:
        raise BDSemanticError(f"keyblob {kid}: key must be 16 bytes and counter 8 bytes")
    return {"id": kid, "start": o["start"], "end": o["end"], "key": key, "counter": ctr,
            "byte_swap": o.get("byteSwap", 0)}


def _load_command(prog, st, read_file, quirks):
    mem = mem_id_of(st["mem"])
    kind, *rest = st["src"]
    flags = mem_flags(mem)
    if kind == "pattern":
        value, size = rest
        if mem == PROG_MEM:
            if st["len"] is not None:
                raise BDOutOfDomain("program command with an address range")
            return _cmd("prog", TAG["prog"], flags=flags, address=st["addr"], count=value, data=0)
        if st["mem"] is not None:
            raise BDOutOfDomain("pattern fill with a memory option other than fuse/ifr")
        open_ = set()
        # width of the pattern: the legacy tool goes by the integer's declared size (default word), the
        # document says nothing - judged only where "by declared size" and "by magnitude" coincide
        by_size = pattern_word(value, size)
        by_magnitude = pattern_word(value, 1 if value < 0x100 else 2 if value < 0x10000 else 4)
        if by_size != by_magnitude:
            open_.add("data")
        if st["len"] is None:
            count = 4
            if size in (1, 2):
                open_.add("count")  # 'load 0x1122.h > a' "loads two bytes" in the legacy manual
        else:
            count = st["len"]
            if count == 0:
                open_.add("count")  # an empty range: nothing is documented
            if "fill-range-length-ignored" in quirks:
                count = 4
        return _cmd("fill", TAG["fill"], flags=0, address=st["addr"], count=count, data=by_size, open_=open_)
    if st["len"] is not None:
        raise BDOutOfDomain("file/blob load into an address range")
    if kind == "blob":
        blob = bytes.fromhex(rest[0])
        if mem == PROG_MEM:
            if len(blob) not in (4, 8):
                raise BDOutOfDomain("program command from a blob that is not 4 or 8 bytes long")
            if "fuse-blob-by-magnitude" in quirks:
                n = int.from_bytes(blob, "big")
                nb = max(1, (n.bit_length() + 7) // 8)
                nb = nb if nb <= 2 else (nb + 3) // 4 * 4
                if nb <= 4:
                    words = [int.from_bytes(n.to_bytes(4, "big"), "little")]
                else:
                    b8 = n.to_bytes(8, "big")
                    words = [int.from_bytes(b8[:4], "little"), int.from_bytes(b8[4:], "little")]
            else:
                words = [int.from_bytes(blob[i:i + 4], "little") for i in range(0, len(blob), 4)]
            eight = len(words) == 2
            return _cmd("prog", TAG["prog"], flags=flags | (1 if eight else 0), address=st["addr"],
                        count=words[0], data=words[1] if eight else 0)
        if "blob-as-le-word" in quirks:
            n = int.from_bytes(blob, "big")
            if n > _U32:
                raise BDSemanticError("blob does not fit 32 bits")
            blob = struct.pack("<L", n)
        return _cmd("load", TAG["load"], flags=flags, address=st["addr"], count=len(blob), payload=blob,
                    open_={"data", "count"})
    if kind == "file":
        if mem == PROG_MEM:
            raise BDOutOfDomain("program command from a file")
        data = read_file(rest[0])
        return _cmd("load", TAG["load"], flags=flags, address=st["addr"], count=len(data), payload=data,
                    open_={"data", "count"})
    raise AssertionError(kind)


def commands(prog, read_file, quirks=()):
    """Expected boot commands: list of {"id", "commands": [cmd]}; cmd fields are the SB2 command-header
    words (tag, flags, address, count, data) + payload; ``cmd["open"]`` lists fields that are not determined.

    ``read_file(path) -> bytes`` supplies file contents.  encrypt/keywrap commands carry the resolved key
    blob under ``"keyblob"`` and the plain data / KEK; producing the cipher text is not the language's business.
    """
    quirks = frozenset(quirks)
    out = []
    for sec in prog["sections"]:
        cmds = []
        for st in sec["statements"]:
            op = st["op"]
            if op == "load":
                cmds.append(_load_command(prog, st, read_file, quirks))
            elif op == "erase":
                flags = mem_flags(mem_id_of(st["mem"]))
                if st["unsecure"]:
                    cmds.append(_cmd("erase", TAG["erase"], flags=2, address=0, count=0))
                elif st["all"]:
                    cmds.append(_cmd("erase", TAG["erase"], flags=flags | 1, address=0, count=0))
                else:
                    open_ = {"count"} if st["len"] is None else set()
                    cmds.append(_cmd("erase", TAG["erase"], flags=flags, address=st["addr"],
                                     count=st["len"] or 0, open_=open_))
            elif op == "enable":
                cmds.append(_cmd("enable", TAG["enable"], flags=mem_flags(mem_id_of(st["mem"])),
                                 address=st["addr"], count=4))
            elif op in ("jump", "call"):
                if st["sp"] is not None:
                    cmds.append(_cmd("jump", TAG["jump"], flags=2, address=st["addr"], count=st["sp"],
                                     data=st["arg"] or 0))
                else:
                    cmds.append(_cmd(op, TAG[op], flags=0, address=st["addr"], count=0, data=st["arg"] or 0))
            elif op == "reset":
                cmds.append(_cmd("reset", TAG["reset"]))
            elif op == "version_check":
                cmds.append(_cmd("version_check", TAG["version_check"], address=st["nsec"], count=st["version"]))
            elif op in ("keystore_to_nv", "keystore_from_nv"):
                if st["mem"] is None:
                    raise BDSemanticError(f"{op} without a memory option")
                mem = mem_id_of(st["mem"])
                if mem > 0xFF:
                    raise BDOutOfDomain("key-store command with a memory id above 0xFF")
                cmds.append(_cmd(op, TAG[op], flags=(mem & 0xFF) << 8, address=st["addr"], count=4,
                                 open_={"count", "data"}))
            elif op == "encrypt":
                kb = _find_keyblob(prog, st["keyblob"])
                ld = _load_command(prog, st["load"], read_file, quirks)
                if ld["kind"] != "load" or st["load"]["mem"] is not None:
                    raise BDOutOfDomain("encrypt block around something else than a plain load of data")
                ld["keyblob"] = kb
                ld["kind"] = "encrypt"
                ld["plain"] = ld["payload"]
                ld["payload"] = None
                ld["count"] = None
                ld["open"] = sorted({"count", "data", "payload"})
                cmds.append(ld)
            elif op == "keywrap":
                kb = _find_keyblob(prog, st["keyblob"])
                kek = bytes.fromhex(st["load"]["src"][1])
                if len(kek) != 16:
                    raise BDOutOfDomain("keywrap KEK that is not 16 bytes long")
                cmds.append(_cmd("keywrap", TAG["load"], flags=0, address=st["load"]["addr"], count=64,
                                 payload=None, open_={"data", "payload"}, keyblob=kb, kek=kek))
            else:
                raise AssertionError(op)
        out.append({"id": sec["id"], "commands": cmds})
    return out


# ------------------------------------------------------------------------------------------
# encrypt / keywrap payloads (facts taken from the elftosb goldens, see selftest_goldens)

OTFAD_VLD, OTFAD_ADE = 1, 2


def otfad_encrypt(key, counter, address, data, swap):
    """AES-CTR as the OTFAD engine decrypts it: counter block = CTR(8) | CTR[0:4]^CTR[4:8] | BE32(address of the
    16-byte block); ``swap`` reverses every 8-byte group before and after (the legacy tool's default)."""
    from . import modes

    nonce = counter + bytes(a ^ b for a, b in zip(counter[:4], counter[4:]))
    if swap:
        data = b"".join(data[i:i + 8][::-1] for i in range(0, len(data), 8))
    out = modes.ctr_crypt_fn(key, data, lambda i: nonce + ((address + 16 * i) & _U32).to_bytes(4, "big"))
    if swap:
        out = b"".join(out[i:i + 8][::-1] for i in range(0, len(out), 8))
    return out


def judge_encrypt(cmd, payload):
    """Is ``payload`` an acceptable result of ``encrypt (id) { load <data> > address; }``?  Returns None or a reason.

    Fixed by the goldens: with the key blob's ADE and VLD bits set the data is padded with zeros to a multiple of 512
    and encrypted with the *selected* key blob's key and counter.  Left open (every variant is accepted): 8-byte group
    swapping (legacy default on, 'noByteSwap = 1' off; the document's 'byteSwap' says the opposite default), whether the
    counter runs from the load address or from the key blob's start.  With ADE/VLD not both set the data must stay plain
    (hardware semantics of the context flags, the same rule C13 checks on the OTFAD classes).
    """
    kb, plain, address = cmd["keyblob"], cmd["plain"], cmd["address"]
    payload = bytes(payload)
    if (kb["end"] & (OTFAD_VLD | OTFAD_ADE)) != (OTFAD_VLD | OTFAD_ADE):
        # the OTFAD engine passes the bytes of a context through unchanged unless it is valid (VLD) AND decryption is
        # enabled (ADE): data stored for such a context is readable only if it is stored plain (optionally padded)
        if payload[:len(plain)] == plain and len(payload) <= (len(plain) + 511) // 512 * 512:
            return None
        return ("the key blob's end address has ADE/VLD not both set: the engine will not decrypt this context, the data has to "
                "be stored as given")
    padded = plain + bytes(-len(plain) % 512)
    if len(payload) != len(padded):
        return f"length {len(payload)}, expected {len(padded)} (data padded to 512)"
    if address % 16:
        return None  # the engine works on aligned 16-byte blocks; nothing is fixed for other addresses
    for base in {address, kb["start"]}:
        for swap in (False, True):
            if otfad_encrypt(kb["key"], kb["counter"], base, padded, swap) == payload:
                return None
    return "data is not the plain data encrypted under the selected key blob (any swap / counter-base variant)"


def keywrap_end_field(end):
    """End-address word of a wrapped key blob as the legacy tool writes it (8 samples in the goldens)."""
    return (((end - 1) & ~7) | OTFAD_VLD | OTFAD_ADE | 0x3F8) & _U32


def judge_keywrap(cmd, payload):
    """Is ``payload`` the selected key blob wrapped (RFC 3394) under the KEK given in the load?  None or a reason."""
    from . import modes

    kb = cmd["keyblob"]
    payload = bytes(payload)
    if len(payload) != 64:
        return f"length {len(payload)}, expected 64"
    if payload[48:] != bytes(16):
        return "bytes 48..63 are not zero"
    try:
        plain = modes.key_unwrap(cmd["kek"], payload[:48])
    except ValueError:
        return "does not unwrap under the KEK written in the keywrap block"
    want = kb["key"] + kb["counter"] + struct.pack("<LL", kb["start"], keywrap_end_field(kb["end"]))
    if plain[:32] != want:
        return f"wrapped fields {plain[:32].hex()} expected {want.hex()}"
    return None


# ------------------------------------------------------------------------------------------
# minimal SB2.1 decoder (self-test ground truth: the elftosb-produced files in the test data)


def decode_sb21(data, kek):
    """Decrypt an SB2.1 file with ``kek`` and return (header dict, [section dict]).

    Uses the header's own fields the way a loader does; verifies the key-blob integrity (RFC 3394), every
    section HMAC, every command checksum and the CRC of every load.  section = {"id", "flags", "commands":
    [{"tag", "flags", "address", "count", "data", "payload"}]}.
    """
    from . import crcs, modes

    if data[20:24] != b"STMP" or data[52:56] != b"sgtl":
        raise ValueError("not an SB2 file")
    nonce = data[0:16]
    flags, = struct.unpack_from("<H", data, 26)
    image_blocks, first_boot_tag_block, first_section_id = struct.unpack_from("<3L", data, 28)
    key_blob_block, key_blob_count = struct.unpack_from("<2H", data, 46)
    if len(data) < image_blocks * 16:
        raise ValueError("file shorter than image_blocks")
    kb = data[key_blob_block * 16:(key_blob_block + key_blob_count) * 16]
    dek_mac = modes.key_unwrap(kek, kb[:72])
    dek, mac = dek_mac[:32], dek_mac[32:64]
    base = int.from_bytes(nonce[12:16], "little")

    def ctr_block(block_index):
        return nonce[:12] + ((base + block_index) & _U32).to_bytes(4, "little")

    def decrypt(offset, length):
        first = offset // 16
        return modes.ctr_crypt_fn(dek, data[offset:offset + length], lambda i: ctr_block(first + i))

    def parse_header(raw):
        chk, tag, fl, address, count, word = struct.unpack("<2BH3L", raw)
        if (0x5A + sum(raw[1:16])) & 0xFF != chk:
            raise ValueError("command checksum mismatch")
        return tag, fl, address, count, word

    sections = []
    off = first_boot_tag_block * 16
    end = image_blocks * 16
    while off < end:
        enc_hdr = data[off:off + 16]
        if _hmac.new(mac, enc_hdr, hashlib.sha256).digest() != data[off + 16:off + 48]:
            raise ValueError("section header HMAC mismatch")
        tag, sflags, sid, nblocks, nhmac = parse_header(decrypt(off, 16))
        if tag != TAG["tag"]:
            raise ValueError("boot tag expected")
        table = data[off + 48:off + 48 + 32 * nhmac]
        body_off = off + 48 + 32 * nhmac
        body = data[body_off:body_off + nblocks * 16]
        # HMAC table over nhmac slices of the cipher text
        pos, remaining, step = 0, len(body), (nblocks // nhmac) * 16 if nhmac else 0
        for k in range(nhmac):
            ln = remaining if k == nhmac - 1 else step
            if _hmac.new(mac, body[pos:pos + ln], hashlib.sha256).digest() != table[32 * k:32 * k + 32]:
                raise ValueError("section HMAC mismatch")
            pos += ln
            remaining -= ln
        plain = decrypt(body_off, len(body))
        cmds = []
        p = 0
        while p < len(plain):
            tag, fl, address, count, word = parse_header(plain[p:p + 16])
            p += 16
            payload = None
            if tag == TAG["load"]:
                padded = (count + 15) // 16 * 16
                if crcs.crc32_mpeg2(plain[p:p + padded]) != word:
                    raise ValueError("load CRC mismatch")
                payload = plain[p:p + count]
                p += padded
            cmds.append({"tag": tag, "flags": fl, "address": address, "count": count, "data": word, "payload": payload})
        sections.append({"id": sid, "flags": sflags, "commands": cmds})
        off = body_off + len(body)
    return {"flags": flags, "image_blocks": image_blocks, "first_section_id": first_section_id}, sections


def compare_commands(expected, got, what="command"):
    """Field-by-field comparison of one expected command with a decoded one; returns a list of differences."""
    diffs = []
    for f in ("tag", "flags", "address", "count", "data"):
        if f in expected["open"] or expected.get(f) is None:
            continue
        if expected[f] != got[f]:
            diffs.append(f"{what}: {f} expected {expected[f]:#x} got {got[f]:#x}")
    if expected.get("payload") is not None and "payload" not in expected["open"]:
        if got.get("payload") is None or bytes(got["payload"])[:len(expected["payload"])] != expected["payload"]:
            diffs.append(f"{what}: payload differs")
    return diffs


# ------------------------------------------------------------------------------------------
# self-test

_EXPR_VECTORS = [
    ("1 + 2 * 3", 7), ("(1 + 2) * 3", 9), ("7 / 2", 3), ("7 % 3", 1), ("1 << 4 >> 2", 4), ("6 & 3 | 8 ^ 1", 11),
    ("2 - 3 - 4", -5), ("100 / 10 / 5", 2), ("1 | 2 & 3", 3), ("1 ^ 3 & 2", 3), ("1 + 2 << 3", 24), ("-3 + +2", -1),
    ("- - 3", 3), ("2 - -3", 5), ("-2 * 3 + 1", -5), ("!3", 0), ("!0 + 1", 0), ("1 < 2 == 1", 1), ("1 || 0 && 0", 1),
    ("2 > 1 > 0", 1), ("(1 < 2) == 1", 1), ("!(1) + 2", 0), ("(3 && 5) == 1", 1), ("0 || 7", 1), ("3 && 5", 1),
    ("0x10", 16), ("0X1f", 31), ("1K", 1024), ("'a'", 0x61), ("'abcd'", 0x61626364), ("true + yes", 2), ("false", 0), ("no", 0),
    ("0x1ff.b", 0xFF), ("0x12345.h", 0x2345), ("0x123456789.w", 0x23456789), ("5.b.h", 5), ("1 + (0x1ff.b)", 0x100),
    ("1 < 2 && 3 >= 3", 1), ("1 != 1 || 2 <= 1", 0), ("1 + 2 < 3 & 1", 0), ("(1 + 2) * 3 < 4", 0), ("((1 < 2))", 1),
    ("c1 + c2 * 2", 0x500), ("-(2 - 5) % 4", 3), ("1 - -3 * 2", 7), ("defined(c1)", 1), ("defined(zz)", 0), ("defined(c1) && !defined(zz)", 1),
]
_EXPR_ERRORS = [
    ("1 / 0", BDSemanticError), ("zz + 1", BDSemanticError), ("1 +", BDSyntaxError), ("(1 < 2) + 1", BDSyntaxError),
    ("-7 / 2", BDOutOfDomain), ("1 << 32", BDOutOfDomain), ("1 + 5.b", BDOutOfDomain), ("5.b + 1", BDOutOfDomain),
    ("-5.b", BDOutOfDomain), ("010", BDOutOfDomain), ("sizeof(c1)", BDUnsupported), ("c1?:main", BDUnsupported),
    ("'abcde'", BDOutOfDomain), ("''", BDSyntaxError), ("1 $ 2", BDSyntaxError),
]
_QUIRK_VECTORS = [
    ("2 * 3", "times-is-minus", -1), ("0xab.b", "int-size-mask-halved", 0xB), ("0x1234.h", "int-size-mask-halved", 0x34),
    ("0x12345678.w", "int-size-mask-halved", 0x5678), ("defined(c1)", "defined-always-false", 0),
    ("3 && 5", "logical-op-returns-operand", 5), ("0 || 7", "logical-op-returns-operand", 7),
    ("'a' + 'b'", "char-literal-greedy", int.from_bytes(b"a' + 'b", "big")),
    ("-(2 - 5) % 4", "unary-binds-looser-than-multiplicative", -1), ("-2 * 3 + 1", "unary-binds-looser-than-multiplicative", -5),
    ("2 - -7 / 2 * 2", "unary-binds-looser-than-multiplicative", 8),
]
_UNSUPPORTED = [
    "section (0) { if (1) { reset; } }", "section (0) { mode 5; }", "section (0) { info \"x\"; }",
    "sources { s = \"a\"; } section (0) { from s { reset; } }", "section (0) { load $sec > 1; }",
    "section (0) { load sizeof(x) > 1; }", "sources { s = \"a\"; } section (0) { jump s?:main; }",
    "section (0) { load 5 > .; }", "section (0) { load 5; }", "sources { s = \"a\" (x=1); } section (0) { }",
    "sources { s = \"a\"; } section (0) <= s;", "keyblob (0) { () } section (0) { }",
    "keyblob (0) { (a=1) (b=2) } section (0) { }", "keyblob (0) { } section (0) { }",
    "sources { s = \"a\"; } section (0) { call s; }",
]


def _selftest_language():
    consts = {"c1": 0x100, "c2": 0x200}
    n = 0
    for text, want in _EXPR_VECTORS:
        got = evaluate(text, consts)
        if got != want:
            raise AssertionError(f"bd_ref: {text!r} -> {got}, expected {want}")
        n += 1
    for text, exc in _EXPR_ERRORS:
        try:
            got = evaluate(text, consts)
        except exc:
            n += 1
            continue
        except BDError as e:
            raise AssertionError(f"bd_ref: {text!r} raised {type(e).__name__}, expected {exc.__name__}") from e
        raise AssertionError(f"bd_ref: {text!r} -> {got}, expected {exc.__name__}")
    for text, quirk, want in _QUIRK_VECTORS:
        got = evaluate(text, consts, quirks=(quirk,))
        if got != want:
            raise AssertionError(f"bd_ref: {text!r} under {quirk} -> {got}, expected {want}")
        n += 1
    for text in _UNSUPPORTED:
        try:
            parse(text)
        except BDUnsupported:
            n += 1
            continue
        except BDError as e:
            raise AssertionError(f"bd_ref: {text!r} raised {type(e).__name__}: {e}, expected BDUnsupported") from e
        raise AssertionError(f"bd_ref: {text!r} accepted, expected BDUnsupported")
    prog = parse(
        'options { a = "x"; b = "y"; f = 1 < 2; } /* c1 */ constants { k = 1; m = k + 1; } # c2\n'
        'sources { s = "f.bin"; e = extern(1); } // c3\n'
        'keyblob (m) { (start = 0x1000, end = 0x13ff, key = "00112233445566778899aabbccddeeff", counter = "0011223344556677") }\n'
        "section (k + 4) { load s > 0x10; load e > m; load 0x55.b > 0x100..0x200; erase @8 all; jump_sp 0x2000 0x1000 (5);"
        " encrypt (2) { load {{00 11}} > 0x1000; } keywrap (2) { load {{000102030405060708090a0b0c0d0e0f}} > 0x40; } }"
        "section (0) { }",
        extern=["x0", "x1"],
    )
    assert prog["options"] == {"a": "x", "b": "y", "f": 1} and prog["constants"] == {"k": 1, "m": 2}, prog
    assert prog["sources"] == {"s": "f.bin", "e": "x1"} and prog["keyblobs"][0]["id"] == 2, prog
    assert [s["id"] for s in prog["sections"]] == [5, 0] and len(prog["sections"][0]["statements"]) == 7, prog
    secs = commands(prog, lambda p: p.encode())
    c = secs[0]["commands"]
    assert (c[0]["payload"], c[1]["payload"], c[1]["address"]) == (b"f.bin", b"x1", 2)
    assert (c[2]["tag"], c[2]["count"], c[2]["data"], c[2]["open"]) == (3, 0x100, 0x55555555, [])
    assert (c[3]["tag"], c[3]["flags"]) == (7, 0x801) and (c[4]["flags"], c[4]["count"], c[4]["data"]) == (2, 0x2000, 5)
    assert c[5]["keyblob"]["key"][0:2] == b"\x00\x11" and c[6]["kek"][-1] == 0x0F and c[6]["address"] == 0x40
    assert mem_flags(0x120) == 0x2010 and mem_flags(9) == 0x900
    return n + 12


# BD files with elftosb-produced goldens (relative to tests/nxpimage/data).  Not listed:
# legacy_real_example3_test_options.sb - despite its name it was made by SPSDK itself (fixed dek/mac/nonce are an
# SPSDK extension; its load counts are padded to 16 and its blobs byte-reversed, unlike every elftosb file).
GOLDENS = [
    ("sb_sources/BD_files/real_example1.bd", "sb_sources/SB_files/legacy_real_example1.sb", []),
    ("sb_sources/BD_files/real_example2.bd", "sb_sources/SB_files/legacy_real_example2.sb",
     ["sb_sources/output_images/tmdData.bin", "sb_sources/output_images/bootloaderImage.bin",
      "sb_sources/output_images/tmdImage.bin", "sb_sources/output_images/audioImage.bin"]),
    ("sb_sources/BD_files/real_example3.bd", "sb_sources/SB_files/legacy_real_example3.sb", []),
    ("sb_sources/BD_files/simpleExample_no_sha.bd", "sb_sources/SB_files/legacy_elftosb_no_sha.bin", []),
    ("sb_sources/BD_files/simpleExample_sha.bd", "sb_sources/SB_files/legacy_elftosb_sha.bin", []),
]


def rom_decoder():
    """The full ROM model vf/refs/sb2_rom.py (property C04) as a decoder with decode_sb21's result shape, or None."""
    try:
        from . import sb2_rom
    except ImportError:
        return None

    def decode(data, kek):
        res = sb2_rom.decode(data, kek)
        sections = []
        for sec in res["sections"]:
            cmds = []
            for raw, tup in zip(sec["raw_commands"], sec["commands"]):
                tag, flags, address, count, word = raw
                cmds.append({"tag": tag, "flags": flags, "address": address, "count": count, "data": word,
                             "payload": bytes(tup[4]) if tup[0] == "load" else None})
            sections.append({"id": sec["uid"], "flags": sec["flags"], "commands": cmds})
        return res, sections

    return decode


def selftest_goldens(data_dir, skip_large=False, decoder=None):
    """Interpret each shipped BD file and compare with the commands decoded from the elftosb-made SB file.

    ``decoder(data, kek) -> (header, sections)``: default is the minimal :func:`decode_sb21`."""
    import os

    decoder = decoder or decode_sb21

    with open(os.path.join(data_dir, "sb_sources/keys/SBkek_PUF.txt"), encoding="utf-8") as f:
        kek = bytes.fromhex(f.read().strip())

    def read_file(path):
        with open(os.path.join(data_dir, path), "rb") as fh:
            return fh.read()

    summary = {}
    for bd, sb, ext in GOLDENS:
        if skip_large and os.path.getsize(os.path.join(data_dir, sb)) > 100000:
            continue
        with open(os.path.join(data_dir, bd), encoding="utf-8") as f:
            text = f.read()
        try:
            prog = parse(text, extern=ext)
        except BDSemanticError as e:
            # real_example3*.bd writes 'zeroPadding = True;' - an undefined identifier by the grammar
            if "True" not in str(e):
                raise
            prog = parse(text.replace("= True;", "= true;"), extern=ext)
        expected = commands(prog, read_file)
        _, sections = decoder(read_file(sb), kek)
        if len(sections) != len(expected):
            raise AssertionError(f"bd_ref/{bd}: {len(expected)} sections expected, golden has {len(sections)}")
        ncmd = 0
        for es, gs in zip(expected, sections):
            if es["id"] != gs["id"]:
                raise AssertionError(f"bd_ref/{bd}: section id {es['id']} vs golden {gs['id']}")
            if len(es["commands"]) != len(gs["commands"]):
                raise AssertionError(f"bd_ref/{bd}: {len(es['commands'])} commands expected, golden has {len(gs['commands'])}")
            for k, (ec, gc) in enumerate(zip(es["commands"], gs["commands"])):
                diffs = compare_commands(ec, gc, f"{bd} command {k} ({ec['kind']})")
                if ec["kind"] == "load" and gc["count"] != len(ec["payload"]):
                    diffs.append(f"{bd} command {k}: load count {gc['count']} vs data length {len(ec['payload'])}")
                if ec["kind"] == "encrypt":
                    why = judge_encrypt(ec, gc["payload"])
                    if why or gc["count"] != len(gc["payload"]):
                        diffs.append(f"{bd} command {k}: encrypt: {why}")
                if ec["kind"] == "keywrap":
                    why = judge_keywrap(ec, gc["payload"])
                    if why:
                        diffs.append(f"{bd} command {k}: keywrap: {why}")
                if diffs:
                    raise AssertionError("bd_ref vs elftosb golden: " + "; ".join(diffs))
                ncmd += 1
        summary[os.path.basename(bd)] = ncmd
    return summary


def selftest(data_dir=None):
    out = {"language_vectors": _selftest_language()}
    if data_dir:
        out["goldens_commands_equal"] = selftest_goldens(data_dir)
        rom = rom_decoder()
        out["golden_decoder"] = "own minimal decoder (decode_sb21)"
        if rom is not None:
            # the full ROM model of property C04 must see the very same commands in the goldens
            again = selftest_goldens(data_dir, decoder=rom)
            if again != out["goldens_commands_equal"]:
                raise AssertionError(f"bd_ref: sb2_rom and decode_sb21 disagree: {again} vs {out['goldens_commands_equal']}")
            out["golden_decoder"] = "vf/refs/sb2_rom.py (full ROM model) and own minimal decoder, both equal to the reference"
    return out


if __name__ == "__main__":  # pragma: no cover
    import sys

    print(selftest(sys.argv[1] if len(sys.argv) > 1 else None))
