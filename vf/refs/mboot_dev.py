"""Byte-level reference model of the NXP MCU bootloader ("mboot", KBOOT) as seen by a host.

Written from the MCU Bootloader reference manual / blhost user's guide (public protocol description),
standard library only, imports nothing from ``spsdk``.

Three layers:

* ``MbootCore`` - transport independent command processor: command packet -> response packet(s),
  data phases in both directions, a memory map (flash, RAM, one external memory that needs
  ``ConfigureMemory``), a property table, OTP words (program-once / read-once), a key-provisioning
  state with a key store blob, a journal of everything the device received and answered, and
  *plans* that make the device misbehave on purpose (error status in the initial or final response,
  abort of an incoming data phase, fewer data than announced, no response at all).
* ``MbootUart`` - the framing layer of the serial peripherals: ``5A type [len16 crc16 payload]``,
  CRC-16/XMODEM over start byte, type, length and payload, ACK/NAK/ABORT, ping / ping response.
  The device is strictly reactive: it emits the next frame only after the host's ACK.
* ``MbootHid`` - USB-HID reports ``id 0 len16 payload`` (1 command out, 2 data out, 3 command in,
  4 data in); a zero-length report aborts a data phase.

Both transports expose ``host_write(data)`` and ``take()`` -> list of emissions ``(kind, bytes)`` with kind in
``ack nak abort pingr cmd data`` (UART) / ``cmd data abort`` (HID reports).
"""
from __future__ import annotations

import hashlib
import random
import struct

from vf.refs.crcs import crc16_xmodem

# ---------------------------------------------------------------------------------------------
# constants of the protocol
# ---------------------------------------------------------------------------------------------
START = 0x5A
FT_ACK, FT_NAK, FT_ABORT, FT_CMD, FT_DATA, FT_PING, FT_PINGR = 0xA1, 0xA2, 0xA3, 0xA4, 0xA5, 0xA6, 0xA7

# command tags
C_FLASH_ERASE_ALL = 0x01
C_FLASH_ERASE_REGION = 0x02
C_READ_MEMORY = 0x03
C_WRITE_MEMORY = 0x04
C_FILL_MEMORY = 0x05
C_FLASH_SECURITY_DISABLE = 0x06
C_GET_PROPERTY = 0x07
C_RECEIVE_SB_FILE = 0x08
C_EXECUTE = 0x09
C_CALL = 0x0A
C_RESET = 0x0B
C_SET_PROPERTY = 0x0C
C_FLASH_ERASE_ALL_UNSECURE = 0x0D
C_FLASH_PROGRAM_ONCE = 0x0E
C_FLASH_READ_ONCE = 0x0F
C_FLASH_READ_RESOURCE = 0x10
C_CONFIGURE_MEMORY = 0x11
C_RELIABLE_UPDATE = 0x12
C_GENERATE_KEY_BLOB = 0x13
C_FUSE_PROGRAM = 0x14
C_KEY_PROVISIONING = 0x15
C_TRUST_PROVISIONING = 0x16
C_FUSE_READ = 0x17
C_UPDATE_LIFE_CYCLE = 0x18

# response tags
R_GENERIC = 0xA0
R_READ_MEMORY = 0xA3
R_GET_PROPERTY = 0xA7
R_FLASH_READ_ONCE = 0xAF
R_FLASH_READ_RESOURCE = 0xB0
R_KEY_BLOB = 0xB3
R_KEY_PROVISIONING = 0xB5
R_TRUST_PROVISIONING = 0xB6

# status codes
ST_SUCCESS = 0
ST_FAIL = 1
ST_INVALID_ARGUMENT = 4
ST_FLASH_ALIGNMENT_ERROR = 101
ST_FLASH_ADDRESS_ERROR = 102
ST_FLASH_ERASE_KEY_ERROR = 107
ST_UNKNOWN_COMMAND = 10000
ST_SECURITY_VIOLATION = 10001
ST_ABORT_DATA_PHASE = 10002
ST_ROMLDR_SIGNATURE = 10101
ST_MEMORY_RANGE_INVALID = 10200
ST_MEMORY_NOT_CONFIGURED = 10205
ST_UNKNOWN_PROPERTY = 10300
ST_READ_ONLY_PROPERTY = 10301
ST_INVALID_PROPERTY_VALUE = 10302
ST_OTP_LOCKED = 52806

# property tags used by the model
P_CURRENT_VERSION = 0x01
P_AVAILABLE_PERIPHERALS = 0x02
P_FLASH_START = 0x03
P_FLASH_SIZE = 0x04
P_FLASH_SECTOR_SIZE = 0x05
P_FLASH_BLOCK_COUNT = 0x06
P_AVAILABLE_COMMANDS = 0x07
P_VERIFY_WRITES = 0x0A
P_MAX_PACKET_SIZE = 0x0B
P_RESERVED_REGIONS = 0x0C
P_RAM_START = 0x0E
P_RAM_SIZE = 0x0F
P_SYSTEM_DEVICE_IDENT = 0x10
P_SECURITY_STATE = 0x11
P_UNIQUE_DEVICE_IDENT = 0x12
P_FLASH_READ_MARGIN = 0x16
P_TARGET_VERSION = 0x18
P_EXTERNAL_MEMORY_ATTRIBUTES = 0x19
P_IRQ_NOTIFIER_PIN = 0x1C
P_BYTE_WRITE_TIMEOUT_MS = 0x1E

KP_ENROLL, KP_SET_USER_KEY, KP_SET_INTRINSIC_KEY, KP_WRITE_NV, KP_READ_NV, KP_WRITE_KEY_STORE, KP_READ_KEY_STORE = range(7)

EXT_MEM_ID = 0x110  # "SPI NOR/EEPROM" style external memory with its own address space


def frame(ftype: int, payload: bytes) -> bytes:
    """Framing packet of the serial peripherals."""
    head = struct.pack("<BBH", START, ftype, len(payload))
    crc = crc16_xmodem(head + payload)
    return head + struct.pack("<H", crc) + payload


def ping_response(version: tuple, options: int) -> bytes:
    """5A A7 bugfix minor major name options16 crc16(first 8 bytes)."""
    name, major, minor, bugfix = version
    body = struct.pack("<BBBBBBH", START, FT_PINGR, bugfix, minor, major, name, options)
    return body + struct.pack("<H", crc16_xmodem(body))


def parse_frame_view(raw: bytes):
    """How a receiver that follows the framing rules sees one emission ``raw``.

    Returns ``(type, payload)`` when a CMD/DATA framing packet with a matching CRC can be read from
    the bytes (the CRC is computed over the bytes actually received, a short payload is what a
    time-out leaves behind), else ``None``.  Used by the fault injector to recognise a corruption that
    the 16-bit CRC cannot detect."""
    i = 0
    while i < len(raw) and raw[i] == 0x00:
        i += 1
    raw = raw[i:]
    if len(raw) < 6 or raw[0] != START or raw[1] not in (FT_CMD, FT_DATA):
        return None
    ln, crc = struct.unpack_from("<HH", raw, 2)
    payload = raw[6:6 + ln]
    if crc16_xmodem(struct.pack("<BBH", START, raw[1], len(payload)) + payload) != crc:
        return None
    return raw[1], bytes(payload)


class Act:
    """What a command handler decided."""

    def __init__(self, status=ST_SUCCESS, kind="generic", resp_tag=R_GENERIC, values=(), out_data=b"", in_len=0, apply=None):
        self.status = status
        self.kind = kind  # generic | values | out | in
        self.resp_tag = resp_tag
        self.values = list(values)
        self.out_data = out_data
        self.in_len = in_len
        self.apply = apply


class MbootCore:
    """Transport independent bootloader model."""

    FLASH_BASE, FLASH_SIZE, SECTOR = 0x0000_0000, 0x4_0000, 0x1000
    RAM_BASE, RAM_SIZE = 0x2000_0000, 0x3_0000
    EXT_SIZE = 0x2_0000
    OTP_WORDS = 96
    KEY_STORE_SIZE = 1424

    def __init__(self, max_packet: int = 32, seed: int = 0, has_max_packet_property: bool = True):
        rnd = random.Random(f"mboot-dev/{seed}")
        self.max_packet = max_packet
        self.regions = {
            "flash": (self.FLASH_BASE, bytearray(rnd.randbytes(self.FLASH_SIZE))),
            "ram": (self.RAM_BASE, bytearray(rnd.randbytes(self.RAM_SIZE))),
        }
        self.prop_regions: dict[int, list[list[int]]] = {}  # property tag -> values per region index (multi-region devices)
        self.ext = bytearray(rnd.randbytes(self.EXT_SIZE))
        self.ext_configured = False
        self.props: dict[int, list[int]] = {
            P_CURRENT_VERSION: [0x4B030100],
            P_AVAILABLE_PERIPHERALS: [0x11],
            P_FLASH_START: [self.FLASH_BASE],
            P_FLASH_SIZE: [self.FLASH_SIZE],
            P_FLASH_SECTOR_SIZE: [self.SECTOR],
            P_FLASH_BLOCK_COUNT: [1],
            P_AVAILABLE_COMMANDS: [rnd.getrandbits(32)],
            P_VERIFY_WRITES: [1],
            P_RESERVED_REGIONS: [rnd.getrandbits(32) for _ in range(rnd.choice([2, 4, 6, 8, 12]))],
            P_RAM_START: [self.RAM_BASE],
            P_RAM_SIZE: [self.RAM_SIZE],
            P_SYSTEM_DEVICE_IDENT: [rnd.getrandbits(32)],
            P_SECURITY_STATE: [rnd.choice([0, 1, 0x5AA55AA5, 0xC33CC33C])],
            P_UNIQUE_DEVICE_IDENT: [rnd.getrandbits(32) for _ in range(4)],
            P_FLASH_READ_MARGIN: [1],
            P_TARGET_VERSION: [rnd.getrandbits(32)],
            P_IRQ_NOTIFIER_PIN: [0],
            P_BYTE_WRITE_TIMEOUT_MS: [10],
        }
        if has_max_packet_property:
            self.props[P_MAX_PACKET_SIZE] = [max_packet]
        self.ext_attrs = [rnd.getrandbits(32) for _ in range(6)]
        self.writable = {P_VERIFY_WRITES: (0, 1), P_FLASH_READ_MARGIN: (0, 2), P_IRQ_NOTIFIER_PIN: None, P_BYTE_WRITE_TIMEOUT_MS: None}
        self.otp = [rnd.getrandbits(32) if rnd.random() < 0.5 else 0 for _ in range(self.OTP_WORDS)]
        self.otp_locked = set(rnd.sample(range(self.OTP_WORDS), 6))
        self.fuses = bytearray(rnd.randbytes(256))
        self.ifr = bytearray(rnd.randbytes(256))
        # key provisioning
        self.kp_enrolled = False
        self.kp_user_keys: dict[int, bytes] = {}
        self.kp_intrinsic: dict[int, int] = {}
        self.kp_nv = None
        self.key_store = bytes(rnd.randbytes(self.KEY_STORE_SIZE))
        self.key_blob_dek = b""
        self.life_cycle = 0
        self.sb_files: list[bytes] = []
        self.loose_data = bytearray()  # data packets outside a command (load-image)
        self.loose_packets: list[int] = []
        self.executed: list[tuple] = []
        self.resets = 0
        # bookkeeping
        self.journal: list[dict] = []
        self.anomalies: list[str] = []
        self.phase = None  # incoming data phase in progress
        # plans: command index -> ...
        self.error_plan: dict[int, tuple] = {}  # idx -> ("initial" | "final", status)
        self.abort_plan: dict[int, tuple] = {}  # idx -> (after_bytes, status)
        self.short_plan: dict[int, int] = {}  # idx -> bytes withheld from an outgoing data phase (final SUCCESS)
        self.mute_plan: set = set()  # idx -> no response at all
        self.zero_len_final = True  # a zero-length incoming data phase is closed by a final response

    # -- memory -------------------------------------------------------------------------------
    def _span(self, addr: int, length: int, mem_id: int):
        """(buffer, offset) or a status code."""
        if mem_id == EXT_MEM_ID:
            if not self.ext_configured:
                return ST_MEMORY_NOT_CONFIGURED
            if addr + length <= self.EXT_SIZE:
                return self.ext, addr
            return ST_MEMORY_RANGE_INVALID
        if mem_id != 0:
            return ST_INVALID_ARGUMENT
        for base, buf in self.regions.values():
            if base <= addr and addr + length <= base + len(buf):
                return buf, addr - base
        return ST_MEMORY_RANGE_INVALID

    def peek(self, addr: int, length: int, mem_id: int = 0) -> bytes:
        sp = self._span(addr, length, mem_id)
        if isinstance(sp, int):
            raise KeyError(f"model has no memory at {addr:#x}+{length} (mem {mem_id:#x})")
        return bytes(sp[0][sp[1]:sp[1] + length])

    def memory_digest(self) -> str:
        h = hashlib.sha256()
        for _, buf in self.regions.values():
            h.update(buf)
        h.update(self.ext)
        return h.hexdigest()

    # -- packets ------------------------------------------------------------------------------
    @staticmethod
    def _resp(tag: int, flags: int, words) -> bytes:
        words = list(words)
        return struct.pack(f"<4B{len(words)}I", tag, flags, 0, len(words), *words)

    def _generic(self, status: int, cmd_tag: int) -> bytes:
        return self._resp(R_GENERIC, 0, [status, cmd_tag])

    # -- command phase ------------------------------------------------------------------------
    def command(self, pkt: bytes) -> list:
        """A command packet arrived; returns the packets to send: list of (kind, payload), kind cmd|data."""
        idx = len(self.journal)
        if self.phase is not None:
            self.phase["entry"]["abandoned"] = True
            self.phase = None
        entry = {"i": idx, "tag": None, "flags": None, "params": [], "raw": bytes(pkt), "data_in": None, "in_packets": [],
                 "data_out": None, "st0": None, "st1": None, "abandoned": False, "malformed": False, "values": None}
        self.journal.append(entry)
        if len(pkt) < 4:
            entry["malformed"] = True
            self.anomalies.append(f"command {idx}: packet of {len(pkt)} bytes")
            entry["st0"] = ST_FAIL
            return [("cmd", self._generic(ST_FAIL, 0))]
        tag, flags, _rsvd, cnt = pkt[0], pkt[1], pkt[2], pkt[3]
        if len(pkt) != 4 + 4 * cnt or cnt > 7 and tag != C_TRUST_PROVISIONING:
            entry["malformed"] = True
            self.anomalies.append(f"command {idx}: tag {tag:#x} param count {cnt} but {len(pkt)} bytes")
        navail = (len(pkt) - 4) // 4
        params = list(struct.unpack_from(f"<{navail}I", pkt, 4))
        entry.update(tag=tag, flags=flags, params=params)
        if idx in self.mute_plan:
            entry["st0"] = None
            return []
        try:
            act = self._dispatch(tag, flags, params)
        except (IndexError, struct.error):
            act = Act(ST_INVALID_ARGUMENT)
        plan = self.error_plan.get(idx)
        if plan and plan[0] == "initial":
            act = Act(plan[1], kind=act.kind if act.kind in ("values", "out") else "generic", resp_tag=act.resp_tag)
            if act.kind == "out":
                act.kind = "values"
                act.values = [0]
        entry["st0"] = act.status
        ok = act.status == ST_SUCCESS
        if act.kind == "generic":
            if ok and act.apply:
                act.apply()
            return [("cmd", self._generic(act.status, tag))]
        if act.kind == "values":
            if ok and act.apply:
                act.apply()
            entry["values"] = list(act.values) if ok else None
            return [("cmd", self._resp(act.resp_tag, 0, [act.status] + (act.values if ok else [0] if act.resp_tag != R_GET_PROPERTY else [])))]
        if act.kind == "out":
            if not ok:
                return [("cmd", self._resp(act.resp_tag, 0, [act.status, 0]))]
            data = act.out_data
            sent = data[:len(data) - self.short_plan[idx]] if idx in self.short_plan else data
            entry["data_out"] = bytes(sent)
            entry["announced"] = len(data)
            final = plan[1] if plan and plan[0] == "final" else ST_SUCCESS
            entry["st1"] = final
            out = [("cmd", self._resp(act.resp_tag, 1, [ST_SUCCESS, len(data)]))]
            out += [("data", bytes(sent[i:i + self.max_packet])) for i in range(0, len(sent), self.max_packet)]
            out.append(("cmd", self._generic(final, tag)))
            return out
        # incoming data phase
        out = [("cmd", self._generic(act.status, tag))]
        if ok:
            self.phase = {"entry": entry, "remaining": act.in_len, "buf": bytearray(), "apply": act.apply, "tag": tag, "idx": idx}
            entry["data_in"] = b""
            if act.in_len == 0 and self.zero_len_final:
                out += self._finish_phase()
        return out

    def _finish_phase(self) -> list:
        ph, self.phase = self.phase, None
        entry = ph["entry"]
        entry["data_in"] = bytes(ph["buf"])
        plan = self.error_plan.get(ph["idx"])
        if plan and plan[0] == "final":
            status = plan[1]
        else:
            status = ph["apply"](bytes(ph["buf"])) if ph["apply"] else ST_SUCCESS
        entry["st1"] = status
        return [("cmd", self._generic(status, ph["tag"]))]

    def data(self, pkt: bytes):
        """A data packet arrived.  Returns (verdict, packets): verdict 'ack' or 'abort'."""
        if len(pkt) > self.max_packet:
            self.anomalies.append(f"data packet of {len(pkt)} bytes exceeds the max packet size {self.max_packet}")
        if len(pkt) == 0:
            self.anomalies.append("empty data packet")
        ph = self.phase
        if ph is None:
            self.loose_data += pkt
            self.loose_packets.append(len(pkt))
            return "ack", []
        entry = ph["entry"]
        entry["in_packets"].append(len(pkt))
        ab = self.abort_plan.get(ph["idx"])
        if ab is not None and len(ph["buf"]) + len(pkt) > ab[0]:
            # the device gives up in the middle of the data phase
            ph["buf"] += pkt
            entry["data_in"] = bytes(ph["buf"])
            entry["st1"] = ab[1]
            entry["aborted"] = True
            self.phase = None
            return "abort", [("cmd", self._generic(ab[1], ph["tag"]))]
        if len(pkt) > ph["remaining"]:
            self.anomalies.append(f"command {ph['idx']}: data phase overrun by {len(pkt) - ph['remaining']} bytes")
        ph["buf"] += pkt
        ph["remaining"] = max(0, ph["remaining"] - len(pkt))
        entry["data_in"] = bytes(ph["buf"])
        if ph["remaining"] == 0:
            return "ack", self._finish_phase()
        return "ack", []

    # -- handlers -----------------------------------------------------------------------------
    def _dispatch(self, tag: int, flags: int, p: list) -> Act:  # noqa: C901
        if tag == C_FLASH_ERASE_ALL:
            mem = p[0] if p else 0
            if mem == EXT_MEM_ID:
                if not self.ext_configured:
                    return Act(ST_MEMORY_NOT_CONFIGURED)
                return Act(apply=lambda: self.ext.__setitem__(slice(None), b"\xff" * self.EXT_SIZE))
            if mem != 0:
                return Act(ST_INVALID_ARGUMENT)
            return Act(apply=self._erase_flash)
        if tag == C_FLASH_ERASE_ALL_UNSECURE:
            def ap():
                self._erase_flash()
                self.props[P_SECURITY_STATE] = [0]
            return Act(apply=ap)
        if tag == C_FLASH_ERASE_REGION:
            addr, length, mem = p[0], p[1], p[2] if len(p) > 2 else 0
            if mem == 0:
                base = self.FLASH_BASE
                if not (base <= addr and addr + length <= base + self.FLASH_SIZE):
                    return Act(ST_FLASH_ADDRESS_ERROR)
            sp = self._span(addr, length, mem)
            if isinstance(sp, int):
                return Act(sp)
            if addr % self.SECTOR or length % self.SECTOR:
                return Act(ST_FLASH_ALIGNMENT_ERROR)
            return Act(apply=lambda: sp[0].__setitem__(slice(sp[1], sp[1] + length), b"\xff" * length))
        if tag == C_READ_MEMORY:
            addr, length, mem = p[0], p[1], p[2] if len(p) > 2 else 0
            sp = self._span(addr, length, mem)
            if isinstance(sp, int):
                return Act(sp, kind="out", resp_tag=R_READ_MEMORY)
            return Act(kind="out", resp_tag=R_READ_MEMORY, out_data=bytes(sp[0][sp[1]:sp[1] + length]))
        if tag == C_WRITE_MEMORY:
            addr, length, mem = p[0], p[1], p[2] if len(p) > 2 else 0
            sp = self._span(addr, length, mem)
            if isinstance(sp, int):
                return Act(sp, kind="in")

            def wr(data: bytes) -> int:
                if len(data) != length:
                    return ST_FAIL
                sp[0][sp[1]:sp[1] + length] = data
                return ST_SUCCESS
            return Act(kind="in", in_len=length, apply=wr)
        if tag == C_FILL_MEMORY:
            addr, length, pattern = p[0], p[1], p[2]
            sp = self._span(addr, length, 0)
            if isinstance(sp, int):
                return Act(sp)
            pat = struct.pack("<I", pattern)
            return Act(apply=lambda: sp[0].__setitem__(slice(sp[1], sp[1] + length), (pat * (length // 4 + 1))[:length]))
        if tag == C_FLASH_SECURITY_DISABLE:
            key = struct.pack("<2I", p[0], p[1])
            if key != self.backdoor_key_words():
                return Act(ST_FLASH_ERASE_KEY_ERROR)
            return Act(apply=lambda: self.props.__setitem__(P_SECURITY_STATE, [0]))
        if tag == C_GET_PROPERTY:
            ptag, index = p[0], p[1] if len(p) > 1 else 0
            if ptag == P_EXTERNAL_MEMORY_ATTRIBUTES:
                if index != EXT_MEM_ID:
                    return Act(ST_INVALID_ARGUMENT, kind="values", resp_tag=R_GET_PROPERTY)
                if not self.ext_configured:
                    return Act(ST_MEMORY_NOT_CONFIGURED, kind="values", resp_tag=R_GET_PROPERTY)
                return Act(kind="values", resp_tag=R_GET_PROPERTY, values=self.ext_attrs)
            if ptag in self.prop_regions:
                # a device with several internal memory regions answers these properties per region index; past the
                # last region it wraps around to region 0 (how real bootloaders behave: the host stops on the repeat)
                per_index = self.prop_regions[ptag]
                return Act(kind="values", resp_tag=R_GET_PROPERTY, values=per_index[index % len(per_index)])
            if ptag not in self.props:
                return Act(ST_UNKNOWN_PROPERTY, kind="values", resp_tag=R_GET_PROPERTY)
            return Act(kind="values", resp_tag=R_GET_PROPERTY, values=self.props[ptag])
        if tag == C_SET_PROPERTY:
            ptag, value = p[0], p[1]
            if ptag not in self.props:
                return Act(ST_UNKNOWN_PROPERTY)
            if ptag not in self.writable:
                return Act(ST_READ_ONLY_PROPERTY)
            rng = self.writable[ptag]
            if rng is not None and not rng[0] <= value <= rng[1]:
                return Act(ST_INVALID_PROPERTY_VALUE)
            return Act(apply=lambda: self.props.__setitem__(ptag, [value]))
        if tag == C_RECEIVE_SB_FILE:
            length = p[0]

            def sb(data: bytes) -> int:
                if len(data) != length:
                    return ST_FAIL
                self.sb_files.append(data)
                return ST_SUCCESS
            return Act(kind="in", in_len=length, apply=sb)
        if tag in (C_EXECUTE, C_CALL):
            need = 3 if tag == C_EXECUTE else 2
            if len(p) < need:
                return Act(ST_INVALID_ARGUMENT)
            if p[0] % 4:
                return Act(ST_INVALID_ARGUMENT)
            return Act(apply=lambda: self.executed.append((tag, tuple(p[:need]))))
        if tag == C_RESET:
            def rs():
                self.resets += 1
                self.props[P_VERIFY_WRITES] = [1]
                self.kp_enrolled = False
            return Act(apply=rs)
        if tag == C_FLASH_PROGRAM_ONCE:
            index, count = p[0] & 0xFFFFFF, p[1]
            words = p[2:]
            if count not in (4, 8) or len(words) != count // 4 or index + count // 4 > self.OTP_WORDS:
                return Act(ST_INVALID_ARGUMENT)
            if any(index + k in self.otp_locked for k in range(count // 4)):
                return Act(ST_OTP_LOCKED)

            def po():
                for k, w in enumerate(words):
                    self.otp[index + k] |= w
            return Act(apply=po)
        if tag == C_FLASH_READ_ONCE:
            index, count = p[0] & 0xFFFFFF, p[1]
            if count not in (4, 8) or index + count // 4 > self.OTP_WORDS:
                return Act(ST_INVALID_ARGUMENT, kind="values", resp_tag=R_FLASH_READ_ONCE)
            return Act(kind="values", resp_tag=R_FLASH_READ_ONCE, values=[count] + self.otp[index:index + count // 4])
        if tag == C_FLASH_READ_RESOURCE:
            addr, length, option = p[0], p[1], p[2]
            if option not in (0, 1) or length % 4 or addr + length > len(self.ifr):
                return Act(ST_INVALID_ARGUMENT, kind="out", resp_tag=R_FLASH_READ_RESOURCE)
            src = self.ifr if option == 0 else bytes(b ^ 0xA5 for b in self.ifr)
            return Act(kind="out", resp_tag=R_FLASH_READ_RESOURCE, out_data=bytes(src[addr:addr + length]))
        if tag == C_CONFIGURE_MEMORY:
            mem, addr = p[0], p[1]
            if mem != EXT_MEM_ID:
                return Act(ST_INVALID_ARGUMENT)
            sp = self._span(addr, 4, 0)
            if isinstance(sp, int):
                return Act(sp)
            return Act(apply=lambda: setattr(self, "ext_configured", True))
        if tag == C_RELIABLE_UPDATE:
            return Act(apply=lambda: self.executed.append((tag, (p[0],))))
        if tag == C_GENERATE_KEY_BLOB:
            key_sel, size, ph = p[0], p[1], p[2]
            if ph == 0:
                if size not in (16, 24, 32):
                    return Act(ST_INVALID_ARGUMENT, kind="in")

                def dek(data: bytes) -> int:
                    if len(data) != size:
                        return ST_FAIL
                    self.key_blob_dek = data
                    return ST_SUCCESS
                return Act(kind="in", in_len=size, apply=dek)
            if not self.key_blob_dek or size < 48 + len(self.key_blob_dek):
                return Act(ST_INVALID_ARGUMENT, kind="out", resp_tag=R_KEY_BLOB)
            return Act(kind="out", resp_tag=R_KEY_BLOB, out_data=self.key_blob(key_sel, size))
        if tag == C_FUSE_PROGRAM:
            addr, length, mem = p[0], p[1], p[2] if len(p) > 2 else 0
            if addr + length > len(self.fuses):
                return Act(ST_MEMORY_RANGE_INVALID, kind="in")

            def fp(data: bytes) -> int:
                if len(data) != length:
                    return ST_FAIL
                for k, b in enumerate(data):
                    self.fuses[addr + k] |= b
                return ST_SUCCESS
            return Act(kind="in", in_len=length, apply=fp)
        if tag == C_FUSE_READ:
            addr, length = p[0], p[1]
            if addr + length > len(self.fuses):
                return Act(ST_MEMORY_RANGE_INVALID, kind="out", resp_tag=R_READ_MEMORY)
            return Act(kind="out", resp_tag=R_READ_MEMORY, out_data=bytes(self.fuses[addr:addr + length]))
        if tag == C_UPDATE_LIFE_CYCLE:
            if p[0] < self.life_cycle:
                return Act(ST_INVALID_ARGUMENT)
            return Act(apply=lambda: setattr(self, "life_cycle", p[0]))
        if tag == C_KEY_PROVISIONING:
            return self._key_provisioning(p)
        return Act(ST_UNKNOWN_COMMAND)

    def _key_provisioning(self, p: list) -> Act:
        op = p[0]
        if op == KP_ENROLL:
            def en():
                self.kp_enrolled = True
                self._mix_key_store(b"enroll")
            return Act(apply=en)
        if op == KP_SET_USER_KEY:
            ktype, size = p[1], p[2]
            if not self.kp_enrolled:
                return Act(ST_FAIL, kind="in")
            if size not in (16, 32) or ktype > 12:
                return Act(ST_INVALID_ARGUMENT, kind="in")

            def uk(data: bytes) -> int:
                if len(data) != size:
                    return ST_FAIL
                self.kp_user_keys[ktype] = data
                self._mix_key_store(b"user" + bytes([ktype]) + data)
                return ST_SUCCESS
            return Act(kind="in", in_len=size, apply=uk)
        if op == KP_SET_INTRINSIC_KEY:
            ktype, size = p[1], p[2]
            if not self.kp_enrolled:
                return Act(ST_FAIL)
            if size not in (16, 32) or ktype > 12:
                return Act(ST_INVALID_ARGUMENT)

            def ik():
                self.kp_intrinsic[ktype] = size
                self._mix_key_store(b"intr" + bytes([ktype, size]))
            return Act(apply=ik)
        if op == KP_WRITE_NV:
            if p[1] != 0:
                return Act(ST_INVALID_ARGUMENT)
            return Act(apply=lambda: setattr(self, "kp_nv", self.key_store))
        if op == KP_READ_NV:
            if p[1] != 0:
                return Act(ST_INVALID_ARGUMENT)
            if self.kp_nv is None:
                return Act(ST_FAIL)
            return Act(apply=lambda: setattr(self, "key_store", self.kp_nv))
        if op == KP_WRITE_KEY_STORE:
            size = p[2]
            if size != self.KEY_STORE_SIZE:
                return Act(ST_INVALID_ARGUMENT, kind="in")

            def ws(data: bytes) -> int:
                if len(data) != size:
                    return ST_FAIL
                self.key_store = data
                return ST_SUCCESS
            return Act(kind="in", in_len=size, apply=ws)
        if op == KP_READ_KEY_STORE:
            return Act(kind="out", resp_tag=R_KEY_PROVISIONING, out_data=self.key_store)
        return Act(ST_INVALID_ARGUMENT)

    # -- helpers ------------------------------------------------------------------------------
    def _erase_flash(self) -> None:
        self.regions["flash"][1][:] = b"\xff" * self.FLASH_SIZE

    def _mix_key_store(self, what: bytes) -> None:
        seed = hashlib.sha256(self.key_store + what).digest()
        out = b""
        c = 0
        while len(out) < self.KEY_STORE_SIZE:
            out += hashlib.sha256(seed + c.to_bytes(4, "little")).digest()
            c += 1
        self.key_store = out[: self.KEY_STORE_SIZE]

    def backdoor_key_words(self) -> bytes:
        """The eight bytes the device compares (two little-endian words as they arrive)."""
        return bytes(self.regions["flash"][1][0x400:0x408])

    def key_blob(self, key_sel: int, size: int) -> bytes:
        seed = hashlib.sha256(b"blob" + bytes([key_sel & 0xFF]) + self.key_blob_dek).digest()
        return (seed * (size // 32 + 1))[:size]


# ---------------------------------------------------------------------------------------------
class MbootUart:
    """Serial framing layer in front of an ``MbootCore``."""

    def __init__(self, core: MbootCore, version=(0x50, 3, 0, 0), options: int = 0, ping_dummy: bytes = b""):
        self.core = core
        self.version = version
        self.options = options
        self.ping_dummy = ping_dummy  # bytes a freshly powered device may send before its first ping response
        self.rx = bytearray()
        self.out: list = []
        self.queue: list = []
        self.wait_ack = False
        self.last = None
        self.pings = 0
        self.bad_crc = 0
        self.host_frames: list = []  # (type, payload) of every well-formed frame received
        self.junk = 0
        self.unexpected: list = []

    def take(self) -> list:
        out, self.out = self.out, []
        return out

    def _emit(self, kind: str, raw: bytes) -> None:
        self.out.append((kind, raw))

    def _pump(self) -> None:
        if not self.wait_ack and self.queue:
            kind, payload = self.queue.pop(0)
            raw = frame(FT_CMD if kind == "cmd" else FT_DATA, payload)
            self.last = (kind, raw)
            self.wait_ack = True
            self._emit(kind, raw)

    def host_write(self, data: bytes) -> None:
        self.rx += data
        while True:
            # hunt for the start byte
            while self.rx and self.rx[0] != START:
                self.junk += 1
                del self.rx[0]
            if len(self.rx) < 2:
                return
            ft = self.rx[1]
            if ft in (FT_ACK, FT_NAK, FT_ABORT, FT_PING):
                del self.rx[:2]
                self.host_frames.append((ft, b""))
                if ft == FT_PING:
                    self.pings += 1
                    self.queue, self.wait_ack = [], False
                    raw = ping_response(self.version, self.options)
                    if self.ping_dummy and self.pings == 1:
                        raw = self.ping_dummy + raw
                    self._emit("pingr", raw)
                elif ft == FT_ACK:
                    if not self.wait_ack:
                        self.unexpected.append("ACK while no frame is outstanding")
                    self.wait_ack = False
                    self._pump()
                elif ft == FT_NAK:
                    if self.wait_ack and self.last:
                        self._emit(*self.last)
                    else:
                        self.unexpected.append("NAK while no frame is outstanding")
                else:
                    self.queue, self.wait_ack = [], False
                continue
            if ft not in (FT_CMD, FT_DATA):
                self.junk += 1
                del self.rx[0]
                continue
            if len(self.rx) < 6:
                return
            ln, crc = struct.unpack_from("<HH", self.rx, 2)
            if len(self.rx) < 6 + ln:
                return
            payload = bytes(self.rx[6:6 + ln])
            head = bytes(self.rx[:4])
            del self.rx[:6 + ln]
            if crc16_xmodem(head + payload) != crc:
                self.bad_crc += 1
                self._emit("nak", bytes([START, FT_NAK]))
                continue
            self.host_frames.append((ft, payload))
            if ft == FT_CMD:
                if self.wait_ack or self.queue:
                    self.unexpected.append("command while a frame is outstanding")
                self.queue, self.wait_ack = [], False
                self._emit("ack", bytes([START, FT_ACK]))
                self.queue = self.core.command(payload)
                self._pump()
            else:
                verdict, pkts = self.core.data(payload)
                if verdict == "abort":
                    self._emit("abort", bytes([START, FT_ABORT]))
                else:
                    self._emit("ack", bytes([START, FT_ACK]))
                self.queue += pkts
                self._pump()


class MbootHid:
    """USB-HID report layer in front of an ``MbootCore``."""

    RID_CMD_OUT, RID_DATA_OUT, RID_CMD_IN, RID_DATA_IN = 1, 2, 3, 4

    def __init__(self, core: MbootCore, pad: str = "zeros", seed: int = 0):
        self.core = core
        self.pad = pad  # none | zeros | junk : device reports have the fixed size 4 + max(32, max packet)
        self.rnd = random.Random(f"hid/{seed}")
        self.out: list = []
        self.malformed: list = []
        self.host_reports: list = []

    def take(self) -> list:
        out, self.out = self.out, []
        return out

    def _report(self, rid: int, payload: bytes) -> bytes:
        raw = struct.pack("<BBH", rid, 0, len(payload)) + payload
        size = 4 + max(32, self.core.max_packet)
        if self.pad != "none" and len(raw) < size:
            n = size - len(raw)
            raw += bytes(n) if self.pad == "zeros" else self.rnd.randbytes(n)
        return raw

    def _send(self, pkts: list) -> None:
        for kind, payload in pkts:
            self.out.append((kind, self._report(self.RID_CMD_IN if kind == "cmd" else self.RID_DATA_IN, payload)))

    def host_write(self, report: bytes) -> None:
        if len(report) < 4:
            self.malformed.append(f"report of {len(report)} bytes")
            return
        rid, zero, ln = struct.unpack_from("<BBH", report)
        payload = report[4:4 + ln]
        if zero != 0 or len(payload) != ln or rid not in (self.RID_CMD_OUT, self.RID_DATA_OUT):
            self.malformed.append(f"report id {rid} pad {zero} len16 {ln} with {len(report) - 4} payload bytes")
            return
        self.host_reports.append((rid, bytes(payload)))
        if rid == self.RID_CMD_OUT:
            self._send(self.core.command(bytes(payload)))
        else:
            verdict, pkts = self.core.data(bytes(payload))
            if verdict == "abort":
                self.out.append(("abort", struct.pack("<BBH", self.RID_DATA_IN, 0, 0)))
            self._send(pkts)


# ---------------------------------------------------------------------------------------------
def selftest() -> dict:
    """Ground truth not produced by SPSDK: framing examples printed in the bootloader reference manual /
    blhost user's guide, plus internal consistency of the model."""
    n = 0
    # ping response of a K1.2.0 bootloader (reference manual, "Ping response packet")
    assert ping_response((0x50, 1, 2, 0), 0) == bytes.fromhex("5aa70002015000 00aaea".replace(" ", "")), "ping response vector"
    n += 1
    # get-property(current version) framing packet (blhost user's guide debug output)
    gp = struct.pack("<4B2I", C_GET_PROPERTY, 0, 0, 2, 1, 0)
    assert frame(FT_CMD, gp) == bytes.fromhex("5aa40c004b33070000020100000000000000"), "get-property frame vector"
    n += 1
    # reset command framing packet (reference manual)
    assert frame(FT_CMD, struct.pack("<4B", C_RESET, 0, 0, 0)) == bytes.fromhex("5aa404006f460b000000"), "reset frame vector"
    n += 1
    # the model answers a command frame with ACK + response and paces data frames by ACKs
    core = MbootCore(max_packet=32, seed=1)
    u = MbootUart(core)
    u.host_write(bytes([START, FT_PING]))
    (k, raw), = u.take()
    assert k == "pingr" and raw[:2] == bytes([START, FT_PINGR]) and len(raw) == 10
    u.host_write(frame(FT_CMD, struct.pack("<4B3I", C_READ_MEMORY, 0, 0, 3, core.RAM_BASE, 70, 0)))
    em = u.take()
    assert [e[0] for e in em] == ["ack", "cmd"], em
    got = b""
    for _ in range(3):
        u.host_write(bytes([START, FT_ACK]))
        (k, raw), = u.take()
        assert k == "data"
        v = parse_frame_view(raw)
        assert v and v[0] == FT_DATA
        got += v[1]
    assert got == core.peek(core.RAM_BASE, 70)
    u.host_write(bytes([START, FT_ACK]))
    (k, raw), = u.take()
    assert k == "cmd" and parse_frame_view(raw)[1] == struct.pack("<4B2I", R_GENERIC, 0, 0, 2, 0, C_READ_MEMORY)
    n += 4
    # write over HID
    core = MbootCore(max_packet=64, seed=2)
    h = MbootHid(core)
    data = bytes(range(100))
    h.host_write(struct.pack("<BBH", 1, 0, 16) + struct.pack("<4B3I", C_WRITE_MEMORY, 1, 0, 3, core.RAM_BASE + 4, 100, 0))
    assert [e[0] for e in h.take()] == ["cmd"]
    h.host_write(struct.pack("<BBH", 2, 0, 64) + data[:64])
    assert h.take() == []
    h.host_write(struct.pack("<BBH", 2, 0, 36) + data[64:])
    (k, raw), = h.take()
    assert k == "cmd" and raw[4:16] == struct.pack("<4B2I", R_GENERIC, 0, 0, 2, 0, C_WRITE_MEMORY)
    assert core.peek(core.RAM_BASE + 4, 100) == data and not core.anomalies
    n += 3
    # a corrupted frame is not accepted by the receiver's view
    f = bytearray(frame(FT_DATA, b"hello world"))
    f[8] ^= 1
    assert parse_frame_view(bytes(f)) is None
    n += 1
    return {"vectors": n}
