"""AES modes of operation, built on :mod:`vf.refs.aes` (standard library only).

ECB, CBC (SP 800-38A), CTR (SP 800-38A, full 128-bit big-endian counter, plus a
caller-supplied counter-block function), XTS (IEEE 1619 / SP 800-38E), CCM
(RFC 3610 / SP 800-38C), AES key wrap (RFC 3394), CMAC (RFC 4493 / SP 800-38B)
and PKCS#7 padding.
"""

from .aes import get_aes

__all__ = [
    "ecb_encrypt", "ecb_decrypt", "cbc_encrypt", "cbc_decrypt",
    "ctr_crypt", "ctr_crypt_fn", "xts_encrypt", "xts_decrypt",
    "ccm_encrypt", "ccm_decrypt", "key_wrap", "key_unwrap", "cmac",
    "pkcs7_pad", "pkcs7_unpad", "selftest",
]

_MASK128 = (1 << 128) - 1


def _xor(a, b):
    """XOR two equal-length byte strings."""
    n = len(a)
    return (int.from_bytes(a, "big") ^ int.from_bytes(b, "big")).to_bytes(n, "big")


def _check_blocks(data, what):
    if len(data) % 16:
        raise ValueError("%s: data length %d is not a multiple of 16" % (what, len(data)))


# ------------------------------------------------------------------- ECB ---

def ecb_encrypt(key, data):
    data = bytes(data)
    _check_blocks(data, "ecb_encrypt")
    enc = get_aes(key).encrypt_block
    return b"".join(enc(data[i:i + 16]) for i in range(0, len(data), 16))


def ecb_decrypt(key, data):
    data = bytes(data)
    _check_blocks(data, "ecb_decrypt")
    dec = get_aes(key).decrypt_block
    return b"".join(dec(data[i:i + 16]) for i in range(0, len(data), 16))


# ------------------------------------------------------------------- CBC ---

def _check_iv(iv, what):
    if len(iv) != 16:
        raise ValueError("%s: IV/counter block must be 16 bytes, got %d" % (what, len(iv)))


def cbc_encrypt(key, iv, data):
    data = bytes(data)
    iv = bytes(iv)
    _check_iv(iv, "cbc_encrypt")
    _check_blocks(data, "cbc_encrypt")
    enc = get_aes(key).encrypt_block
    out = []
    prev = iv
    for i in range(0, len(data), 16):
        prev = enc(_xor(data[i:i + 16], prev))
        out.append(prev)
    return b"".join(out)


def cbc_decrypt(key, iv, data):
    data = bytes(data)
    iv = bytes(iv)
    _check_iv(iv, "cbc_decrypt")
    _check_blocks(data, "cbc_decrypt")
    dec = get_aes(key).decrypt_block
    out = []
    prev = iv
    for i in range(0, len(data), 16):
        blk = data[i:i + 16]
        out.append(_xor(dec(blk), prev))
        prev = blk
    return b"".join(out)


# ------------------------------------------------------------------- CTR ---

def ctr_crypt(key, counter_block16, data):
    """CTR with the whole 16-byte block as a big-endian counter (mod 2**128)."""
    data = bytes(data)
    counter_block16 = bytes(counter_block16)
    _check_iv(counter_block16, "ctr_crypt")
    enc = get_aes(key).encrypt_block
    ctr = int.from_bytes(counter_block16, "big")
    nblocks = (len(data) + 15) // 16
    ks = b"".join(enc(((ctr + i) & _MASK128).to_bytes(16, "big")) for i in range(nblocks))
    return _xor(data, ks[:len(data)]) if data else b""


def ctr_crypt_fn(key, data, counter_fn):
    """CTR where counter block ``i`` is ``counter_fn(i)`` (16 bytes)."""
    data = bytes(data)
    enc = get_aes(key).encrypt_block
    nblocks = (len(data) + 15) // 16
    blocks = []
    for i in range(nblocks):
        cb = bytes(counter_fn(i))
        if len(cb) != 16:
            raise ValueError("ctr_crypt_fn: counter_fn(%d) returned %d bytes" % (i, len(cb)))
        blocks.append(enc(cb))
    ks = b"".join(blocks)
    return _xor(data, ks[:len(data)]) if data else b""


# ------------------------------------------------------------------- XTS ---

def _xts_split(key):
    key = bytes(key)
    if len(key) not in (32, 64):
        raise ValueError("XTS key must be 32 or 64 bytes (key1||key2), got %d" % len(key))
    h = len(key) // 2
    return get_aes(key[:h]), get_aes(key[h:])


def _xts_mul_alpha(t):
    """Multiply the tweak (little-endian integer) by alpha in GF(2^128)."""
    t <<= 1
    if t >> 128:
        t = (t & _MASK128) ^ 0x87
    return t


def _xts_tweaks(k2, tweak16, count):
    tweak16 = bytes(tweak16)
    if len(tweak16) != 16:
        raise ValueError("XTS tweak must be 16 bytes, got %d" % len(tweak16))
    t = int.from_bytes(k2.encrypt_block(tweak16), "little")
    out = []
    for _ in range(count):
        out.append(t.to_bytes(16, "little"))
        t = _xts_mul_alpha(t)
    return out


def _xts_run(key, tweak16, data, encrypt):
    data = bytes(data)
    if len(data) < 16:
        raise ValueError("XTS data unit must be at least 16 bytes, got %d" % len(data))
    k1, k2 = _xts_split(key)
    fn = k1.encrypt_block if encrypt else k1.decrypt_block
    full, tail = divmod(len(data), 16)
    tweaks = _xts_tweaks(k2, tweak16, full + (1 if tail else 0))

    def blk(b, t):
        return _xor(fn(_xor(b, t)), t)

    out = []
    plain_full = full - 1 if tail else full
    for j in range(plain_full):
        out.append(blk(data[16 * j:16 * j + 16], tweaks[j]))
    if tail:
        m = full - 1                      # index of the last full block
        last_full = data[16 * m:16 * m + 16]
        partial = data[16 * full:]
        if encrypt:
            cc = blk(last_full, tweaks[m])
            out.append(blk(partial + cc[tail:], tweaks[m + 1]))
            out.append(cc[:tail])
        else:
            pp = blk(last_full, tweaks[m + 1])
            out.append(blk(partial + pp[tail:], tweaks[m]))
            out.append(pp[:tail])
    return b"".join(out)


def xts_encrypt(key, tweak16, data):
    return _xts_run(key, tweak16, data, True)


def xts_decrypt(key, tweak16, data):
    return _xts_run(key, tweak16, data, False)


# ------------------------------------------------------------------- CCM ---

def _ccm_check(nonce, tag_len):
    if not 7 <= len(nonce) <= 13:
        raise ValueError("CCM nonce must be 7..13 bytes, got %d" % len(nonce))
    if tag_len not in (4, 6, 8, 10, 12, 14, 16):
        raise ValueError("CCM tag length %r not allowed" % (tag_len,))


def _ccm_mac(aes, nonce, msg, aad, tag_len):
    L = 15 - len(nonce)
    if len(msg) >> (8 * L):
        raise ValueError("CCM message too long for a %d-byte nonce" % len(nonce))
    flags = (0x40 if aad else 0) | (((tag_len - 2) // 2) << 3) | (L - 1)
    blocks = bytes([flags]) + nonce + len(msg).to_bytes(L, "big")
    if aad:
        la = len(aad)
        if la < 0xFF00:
            hdr = la.to_bytes(2, "big")
        elif la < (1 << 32):
            hdr = b"\xff\xfe" + la.to_bytes(4, "big")
        else:
            hdr = b"\xff\xff" + la.to_bytes(8, "big")
        a = hdr + aad
        blocks += a + bytes(-len(a) % 16)
    blocks += msg + bytes(-len(msg) % 16)
    enc = aes.encrypt_block
    x = bytes(16)
    for i in range(0, len(blocks), 16):
        x = enc(_xor(x, blocks[i:i + 16]))
    return x[:tag_len]


def _ccm_ctr(aes, nonce, data, start):
    L = 15 - len(nonce)
    pre = bytes([L - 1]) + nonce
    enc = aes.encrypt_block
    nblocks = (len(data) + 15) // 16
    ks = b"".join(enc(pre + (start + i).to_bytes(L, "big")) for i in range(nblocks))
    return _xor(data, ks[:len(data)]) if data else b""


def ccm_encrypt(key, nonce, plaintext, aad=b"", tag_len=16):
    nonce = bytes(nonce)
    plaintext = bytes(plaintext)
    aad = bytes(aad or b"")
    _ccm_check(nonce, tag_len)
    aes = get_aes(key)
    tag = _ccm_mac(aes, nonce, plaintext, aad, tag_len)
    return _ccm_ctr(aes, nonce, plaintext, 1) + _ccm_ctr(aes, nonce, tag, 0)


def ccm_decrypt(key, nonce, data_with_tag, aad=b"", tag_len=16):
    nonce = bytes(nonce)
    data_with_tag = bytes(data_with_tag)
    aad = bytes(aad or b"")
    _ccm_check(nonce, tag_len)
    if len(data_with_tag) < tag_len:
        raise ValueError("CCM input shorter than the tag")
    aes = get_aes(key)
    ct = data_with_tag[:len(data_with_tag) - tag_len]
    tag = _ccm_ctr(aes, nonce, data_with_tag[len(ct):], 0)
    pt = _ccm_ctr(aes, nonce, ct, 1)
    if _ccm_mac(aes, nonce, pt, aad, tag_len) != tag:
        raise ValueError("CCM tag mismatch")
    return pt


# -------------------------------------------------------------- key wrap ---

_KW_IV = bytes.fromhex("A6A6A6A6A6A6A6A6")


def key_wrap(kek, data):
    data = bytes(data)
    if len(data) % 8 or len(data) < 16:
        raise ValueError("key_wrap: data must be a multiple of 8 bytes and >= 16, got %d" % len(data))
    enc = get_aes(kek).encrypt_block
    n = len(data) // 8
    r = [data[8 * i:8 * i + 8] for i in range(n)]
    a = _KW_IV
    for j in range(6):
        for i in range(n):
            b = enc(a + r[i])
            t = n * j + i + 1
            a = (int.from_bytes(b[:8], "big") ^ t).to_bytes(8, "big")
            r[i] = b[8:]
    return a + b"".join(r)


def key_unwrap(kek, wrapped):
    wrapped = bytes(wrapped)
    if len(wrapped) % 8 or len(wrapped) < 24:
        raise ValueError("key_unwrap: input must be a multiple of 8 bytes and >= 24, got %d" % len(wrapped))
    dec = get_aes(kek).decrypt_block
    n = len(wrapped) // 8 - 1
    a = wrapped[:8]
    r = [wrapped[8 * i + 8:8 * i + 16] for i in range(n)]
    for j in range(5, -1, -1):
        for i in range(n - 1, -1, -1):
            t = n * j + i + 1
            b = dec((int.from_bytes(a, "big") ^ t).to_bytes(8, "big") + r[i])
            a = b[:8]
            r[i] = b[8:]
    if a != _KW_IV:
        raise ValueError("key_unwrap: integrity check failed")
    return b"".join(r)


# ------------------------------------------------------------------ CMAC ---

def _cmac_dbl(block):
    v = int.from_bytes(block, "big") << 1
    if v >> 128:
        v = (v & _MASK128) ^ 0x87
    return v.to_bytes(16, "big")


def cmac(key, data):
    data = bytes(data)
    enc = get_aes(key).encrypt_block
    k1 = _cmac_dbl(enc(bytes(16)))
    k2 = _cmac_dbl(k1)
    n = (len(data) + 15) // 16
    if n == 0:
        n = 1
        complete = False
    else:
        complete = len(data) % 16 == 0
    last = data[16 * (n - 1):]
    if complete:
        last = _xor(last, k1)
    else:
        last = _xor(last + b"\x80" + bytes(15 - len(last)), k2)
    x = bytes(16)
    for i in range(n - 1):
        x = enc(_xor(x, data[16 * i:16 * i + 16]))
    return enc(_xor(x, last))


# ----------------------------------------------------------------- PKCS7 ---

def pkcs7_pad(data, block=16):
    if not 1 <= block <= 255:
        raise ValueError("pkcs7_pad: block size must be 1..255")
    data = bytes(data)
    n = block - len(data) % block
    return data + bytes([n]) * n


def pkcs7_unpad(data, block=16):
    if not 1 <= block <= 255:
        raise ValueError("pkcs7_unpad: block size must be 1..255")
    data = bytes(data)
    if not data or len(data) % block:
        raise ValueError("pkcs7_unpad: length %d is not a positive multiple of %d" % (len(data), block))
    n = data[-1]
    if n < 1 or n > block or data[-n:] != bytes([n]) * n:
        raise ValueError("pkcs7_unpad: invalid padding")
    return data[:-n]


# -------------------------------------------------------------- selftest ---

_H = bytes.fromhex

_SP800_38A_PT = _H(
    "6bc1bee22e409f96e93d7e117393172a" "ae2d8a571e03ac9c9eb76fac45af8e51"
    "30c81c46a35ce411e5fbc1191a0a52ef" "f69f2445df4f9b17ad2b417be66c3710")
_K128 = _H("2b7e151628aed2a6abf7158809cf4f3c")
_K192 = _H("8e73b0f7da0e6452c810f32b809079e562f8ead2522c6b7b")
_K256 = _H("603deb1015ca71be2b73aef0857d77811f352c073b6108d72d9810a30914dff4")
_IV = _H("000102030405060708090a0b0c0d0e0f")
_CTR0 = _H("f0f1f2f3f4f5f6f7f8f9fafbfcfdfeff")

_ECB_VECTORS = [  # SP 800-38A F.1.1 / F.1.3 / F.1.5
    ("SP800-38A-F.1.1-ECB128", _K128,
     "3ad77bb40d7a3660a89ecaf32466ef97" "f5d3d58503b9699de785895a96fdbaaf"
     "43b1cd7f598ece23881b00e3ed030688" "7b0c785e27e8ad3f8223207104725dd4"),
    ("SP800-38A-F.1.3-ECB192", _K192,
     "bd334f1d6e45f25ff712a214571fa5cc" "974104846d0ad3ad7734ecb3ecee4eef"
     "ef7afd2270e2e60adce0ba2face6444e" "9a4b41ba738d6c72fb16691603c18e0e"),
    ("SP800-38A-F.1.5-ECB256", _K256,
     "f3eed1bdb5d2a03c064b5a7e3db181f8" "591ccb10d410ed26dc5ba74a31362870"
     "b6ed21b99ca6f4f9f153e7b1beafed1d" "23304b7a39f9f3ff067d8d8f9e24ecc7"),
]
_CBC_VECTORS = [  # SP 800-38A F.2.1 / F.2.3 / F.2.5
    ("SP800-38A-F.2.1-CBC128", _K128,
     "7649abac8119b246cee98e9b12e9197d" "5086cb9b507219ee95db113a917678b2"
     "73bed6b8e3c1743b7116e69e22229516" "3ff1caa1681fac09120eca307586e1a7"),
    ("SP800-38A-F.2.3-CBC192", _K192,
     "4f021db243bc633d7178183a9fa071e8" "b4d9ada9ad7dedf4e5e738763f69145a"
     "571b242012fb7ae07fa9baac3df102e0" "08b0e27988598881d920a9e64f5615cd"),
    ("SP800-38A-F.2.5-CBC256", _K256,
     "f58c4c04d6e5f1ba779eabfb5f7bfbd6" "9cfc4e967edb808d679f777bc6702c7d"
     "39f23369a9d9bacfa530e26304231461" "b2eb05e2c39be9fcda6c19078c6a9d1b"),
]
_CTR_VECTORS = [  # SP 800-38A F.5.1 / F.5.3 / F.5.5
    ("SP800-38A-F.5.1-CTR128", _K128,
     "874d6191b620e3261bef6864990db6ce" "9806f66b7970fdff8617187bb9fffdff"
     "5ae4df3edbd5d35e5b4f09020db03eab" "1e031dda2fbe03d1792170a0f3009cee"),
    ("SP800-38A-F.5.3-CTR192", _K192,
     "1abc932417521ca24f2b0459fe7e6e0b" "090339ec0aa6faefd5ccc2c6f4ce8e94"
     "1e36b26bd1ebc670d1bd1d665620abf7" "4f78a7f6d29809585a97daec58c6b050"),
    ("SP800-38A-F.5.5-CTR256", _K256,
     "601ec313775789a5b7a7f504bbf3d228" "f443e3ca4d62b59aca84e990cacaf5c5"
     "2b0930daa23de94ce87017ba2d84988d" "dfc9c58db67aada613c2dd08457941a6"),
]

_KW_KEK = "000102030405060708090A0B0C0D0E0F101112131415161718191A1B1C1D1E1F"
_KW_DATA = "00112233445566778899AABBCCDDEEFF000102030405060708090A0B0C0D0E0F"
_KW_VECTORS = [  # RFC 3394 section 4: (name, kek bytes, data bytes, output)
    ("RFC3394-4.1", 16, 16, "1FA68B0A8112B447AEF34BD8FB5A7B829D3E862371D2CFE5"),
    ("RFC3394-4.2", 24, 16, "96778B25AE6CA435F92B5B97C050AED2468AB8A17AD84E5D"),
    ("RFC3394-4.3", 32, 16, "64E8C3F9CE0F5BA263E9777905818A2A93C8191E7D6E8AE7"),
    ("RFC3394-4.4", 24, 24, "031D33264E15D33268F24EC260743EDCE1C6C7DDEE725A936BA814915C6762D2"),
    ("RFC3394-4.5", 32, 24, "A8F9BC1612C68B3FF6E6F4FBE30E71E4769C8B80A32CB8958CD5D17D6B254DA1"),
    ("RFC3394-4.6", 32, 32,
     "28C9F404C4B810F4CBCCB35CFB87F8263F5786E2D80ED326CBC7F0E71A99F43BFB988B9B7A02DD21"),
]

_CMAC_VECTORS = [  # RFC 4493 section 4 (AES-128) + SP 800-38B D.2/D.3 (AES-192/256)
    ("RFC4493-ex1", _K128, 0, "bb1d6929e95937287fa37d129b756746"),
    ("RFC4493-ex2", _K128, 16, "070a16b46b4d4144f79bdd9dd04a287c"),
    ("RFC4493-ex3", _K128, 40, "dfa66747de9ae63030ca32611497c827"),
    ("RFC4493-ex4", _K128, 64, "51f0bebf7e3b9d92fc49741779363cfe"),
    ("SP800-38B-D.2-ex5", _K192, 0, "d17ddf46adaacde531cac483de7a9367"),
    ("SP800-38B-D.2-ex6", _K192, 16, "9e99a7bf31e710900662f65e617c5184"),
    ("SP800-38B-D.2-ex7", _K192, 40, "8a1de5be2eb31aad089a82e6ee908b0e"),
    ("SP800-38B-D.2-ex8", _K192, 64, "a1d5df0eed790f794d77589659f39a11"),
    ("SP800-38B-D.3-ex9", _K256, 0, "028962f61b7bf89efc6b551f4667d983"),
    ("SP800-38B-D.3-ex10", _K256, 16, "28a7023f452e8f82bd4bf28d8c37c35c"),
    ("SP800-38B-D.3-ex11", _K256, 40, "aaf3d8f1de5640c232f5b169b9c911e6"),
    ("SP800-38B-D.3-ex12", _K256, 64, "e1992190549f6ed5696a2c056c315410"),
]

_XTS_KEY_CTS = ("fffefdfcfbfaf9f8f7f6f5f4f3f2f1f0" "bfbebdbcbbbab9b8b7b6b5b4b3b2b1b0")
_XTS_VECTORS = [  # IEEE Std 1619-2007 annex B: (name, key, tweak, plaintext, ciphertext)
    ("IEEE1619-vec1", "00" * 32, "00" * 16, "00" * 32,
     "917cf69ebd68b2ec9b9fe9a3eadda692" "cd43d2f59598ed858c02c2652fbf922e"),
    ("IEEE1619-vec2", "11" * 16 + "22" * 16, "3333333333" + "00" * 11, "44" * 32,
     "c454185e6a16936e39334038acef838b" "fb186fff7480adc4289382ecd6d394f0"),
    ("IEEE1619-vec3", "fffefdfcfbfaf9f8f7f6f5f4f3f2f1f0" + "22" * 16, "3333333333" + "00" * 11, "44" * 32,
     "af85336b597afc1a900b2eb21ec949d2" "92df4c047e0b21532186a5971a227a89"),
    ("IEEE1619-vec15", _XTS_KEY_CTS, "9a78563412" + "00" * 11,
     "000102030405060708090a0b0c0d0e0f10",
     "6c1625db4671522d3d7599601de7ca09ed"),
    ("IEEE1619-vec16", _XTS_KEY_CTS, "9a78563412" + "00" * 11,
     "000102030405060708090a0b0c0d0e0f1011",
     "d069444b7a7e0cab09e24447d24deb1fedbf"),
    ("IEEE1619-vec17", _XTS_KEY_CTS, "9a78563412" + "00" * 11,
     "000102030405060708090a0b0c0d0e0f101112",
     "e5df1351c0544ba1350b3363cd8ef4beedbf9d"),
    ("IEEE1619-vec18", _XTS_KEY_CTS, "9a78563412" + "00" * 11,
     "000102030405060708090a0b0c0d0e0f10111213",
     "9d84c813f719aa2c7be3f66171c7c5c2edbf9dac"),
]

_CCM_KEY = "C0C1C2C3C4C5C6C7C8C9CACBCCCDCECF"
_CCM_VECTORS = [  # RFC 3610 section 8: (name, nonce, packet length, header length, tag length, output)
    ("RFC3610-pv1", "00000003020100A0A1A2A3A4A5", 31, 8, 8,
     "0001020304050607" "588C979A61C663D2F066D0C2C0F989806D5F6B61DAC384" "17E8D12CFDF926E0"),
    ("RFC3610-pv2", "00000004030201A0A1A2A3A4A5", 32, 8, 8,
     "0001020304050607" "72C91A36E135F8CF291CA894085C87E3CC15C439C9E43A3B" "A091D56E10400916"),
    ("RFC3610-pv3", "00000005040302A0A1A2A3A4A5", 33, 8, 8,
     "0001020304050607" "51B1E5F44A197D1DA46B0F8E2D282AE871E838BB64DA859657" "4ADAA76FBD9FB0C5"),
    ("RFC3610-pv7", "00000009080706A0A1A2A3A4A5", 31, 8, 10,
     "0001020304050607" "0135D1B2C95F41D5D1D4FEC185D166B8094E999DFED96C" "048C56602C97ACBB7490"),
]


def _expect_value_error(name, fn, *args, **kw):
    try:
        fn(*args, **kw)
    except ValueError:
        return 1
    raise AssertionError(name + ": ValueError expected")


def selftest():
    """Run known-answer tests; return the number of assertions passed."""
    n = 0
    pt = _SP800_38A_PT
    for name, key, ct in _ECB_VECTORS:
        ct = _H(ct)
        assert ecb_encrypt(key, pt) == ct, name + " encrypt"
        assert ecb_decrypt(key, ct) == pt, name + " decrypt"
        n += 2
    for name, key, ct in _CBC_VECTORS:
        ct = _H(ct)
        assert cbc_encrypt(key, _IV, pt) == ct, name + " encrypt"
        assert cbc_decrypt(key, _IV, ct) == pt, name + " decrypt"
        n += 2
    ctr0 = int.from_bytes(_CTR0, "big")
    for name, key, ct in _CTR_VECTORS:
        ct = _H(ct)
        assert ctr_crypt(key, _CTR0, pt) == ct, name + " encrypt"
        assert ctr_crypt(key, _CTR0, ct) == pt, name + " decrypt"
        assert ctr_crypt(key, _CTR0, pt[:37]) == ct[:37], name + " partial"
        assert ctr_crypt_fn(key, pt, lambda i: (ctr0 + i).to_bytes(16, "big")) == ct, name + " fn"
        n += 4
    # 128-bit counter wrap-around
    k = _K128
    wrap = ctr_crypt(k, b"\xff" * 16, bytes(32))
    assert wrap == ecb_encrypt(k, b"\xff" * 16 + bytes(16)), "CTR wrap mod 2^128"
    assert ctr_crypt(k, _CTR0, b"") == b"", "CTR empty"
    n += 2

    for name, klen, dlen, out in _KW_VECTORS:
        kek = _H(_KW_KEK)[:klen]
        data = _H(_KW_DATA)[:dlen]
        out = _H(out)
        assert key_wrap(kek, data) == out, name + " wrap"
        assert key_unwrap(kek, out) == data, name + " unwrap"
        bad = bytes([out[0] ^ 1]) + out[1:]
        n += 2 + _expect_value_error(name + " corrupted", key_unwrap, kek, bad)

    for name, key, mlen, mac in _CMAC_VECTORS:
        assert cmac(key, pt[:mlen]) == _H(mac), name
        n += 1

    for name, key, tweak, p, c in _XTS_VECTORS:
        key, tweak, p, c = _H(key), _H(tweak), _H(p), _H(c)
        assert xts_encrypt(key, tweak, p) == c, name + " encrypt"
        assert xts_decrypt(key, tweak, c) == p, name + " decrypt"
        n += 2
    n += _expect_value_error("XTS short", xts_encrypt, bytes(32), bytes(16), bytes(15))
    n += _expect_value_error("XTS key", xts_encrypt, bytes(48), bytes(16), bytes(16))

    for name, nonce, plen, hlen, tlen, out in _CCM_VECTORS:
        key, nonce, out = _H(_CCM_KEY), _H(nonce), _H(out)
        packet = bytes(range(plen))
        aad, msg = packet[:hlen], packet[hlen:]
        assert aad + ccm_encrypt(key, nonce, msg, aad, tlen) == out, name + " encrypt"
        assert ccm_decrypt(key, nonce, out[hlen:], aad, tlen) == msg, name + " decrypt"
        bad = out[hlen:-1] + bytes([out[-1] ^ 0x80])
        n += 2 + _expect_value_error(name + " bad tag", ccm_decrypt, key, nonce, bad, aad, tlen)
        n += _expect_value_error(name + " bad aad", ccm_decrypt, key, nonce, out[hlen:], aad + b"x", tlen)
    n += _expect_value_error("CCM nonce 6", ccm_encrypt, _K128, bytes(6), b"")
    n += _expect_value_error("CCM nonce 14", ccm_encrypt, _K128, bytes(14), b"")
    n += _expect_value_error("CCM tag 5", ccm_encrypt, _K128, bytes(12), b"", b"", 5)

    assert pkcs7_pad(b"") == b"\x10" * 16, "pkcs7 empty"
    assert pkcs7_pad(b"a" * 16) == b"a" * 16 + b"\x10" * 16, "pkcs7 full block"
    assert pkcs7_pad(b"abc", 8) == b"abc\x05\x05\x05\x05\x05", "pkcs7 block 8"
    n += 3
    for ln in range(0, 33):
        d = bytes(range(ln))
        assert pkcs7_unpad(pkcs7_pad(d)) == d, "pkcs7 round trip %d" % ln
        n += 1
    for bad in (b"", b"a" * 15, b"a" * 15 + b"\x00", b"a" * 15 + b"\x11", b"a" * 13 + b"\x02\x03\x03"):
        n += _expect_value_error("pkcs7 bad %r" % bad, pkcs7_unpad, bad)
    for fn in (ecb_encrypt, ecb_decrypt):
        n += _expect_value_error("ECB length", fn, _K128, bytes(17))
    for fn in (cbc_encrypt, cbc_decrypt):
        n += _expect_value_error("CBC length", fn, _K128, _IV, bytes(15))
    return n


if __name__ == "__main__":
    print("modes selftest:", selftest())
