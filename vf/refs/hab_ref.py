"""Independent walker / ROM stand-in for HAB v4 images (i.MX RT10xx / RT11xx, i.MX 6/7/8M).

Imports nothing from spsdk.  Written from the public HAB4 format description:

* every HAB structure starts with a big-endian header  tag(1) length(2) parameter(1);
* IVT  (tag 0xD1, 32 bytes, parameter = HAB version 0x40..0x4E): seven little-endian words
  entry, reserved1, dcd, boot_data, self, csf, reserved2;
* boot data: three little-endian words  start, length, plugin;
* DCD  (tag 0xD2), commands Write Data 0xCC, Check Data 0xCF, NOP 0xC0, Unlock 0xB2;
* XMCD (RT116x/RT117x, fixed at IVT + 0x40): little-endian word, tag nibble 0xC in bits 31..28,
  version 27..24, interface 23..20, instance 19..16, block type 15..12, block size 11..0 (size
  includes the 4-byte header);
* CSF  (tag 0xD4): header followed by commands up to the header length:
    Install Key        0xBE  flags | protocol, algorithm, source, target, key location
    Authenticate Data  0xCA  flags | key, protocol (0xC5 CMS / 0xA3 AEAD), engine, engine cfg,
                              signature offset, then (address, length) blocks
    Set 0xB1, Initialize 0xB4, Unlock 0xB2, NOP 0xC0, Write Data 0xCC, Check Data 0xCF;
  key locations / signature offsets are relative to the CSF start (unless flag ABS);
* key / signature data: certificate 0xD7 (X.509 DER behind the header), SRK table 0xD7 with
  entries 0xE1 (public key; parameter 0x21 PKCS#1 RSA / 0x27 ECDSA) or 0xEE (hash only),
  signature 0xD8 (CMS SignedData DER behind the header), MAC 0xAC (0, nonce bytes, 0, MAC bytes,
  nonce, MAC);
* SRK fuse value = SHA-256( SHA-256(entry 0) || ... ), a hash-only entry contributing its digest.

`authenticate()` replays the CSF the way the boot ROM does (key slots, certificate chain to the
SRK, CMS verification over the CSF and over the listed blocks, AEAD decryption in place) using
`vf.refs.cms` and the pure-Python primitives; it returns what was authenticated / decrypted.
Every rejection is a `RefReject(code, detail)` whose code names the failed step.
"""
from __future__ import annotations

import hashlib
import struct
from typing import Any, Optional

TAG_IVT = 0xD1
TAG_DCD = 0xD2
TAG_CSF = 0xD4
TAG_CRT = 0xD7
TAG_SIG = 0xD8
TAG_MAC = 0xAC
TAG_SRK_KEY = 0xE1
TAG_SRK_HASH = 0xEE

CMD_SET = 0xB1
CMD_INS_KEY = 0xBE
CMD_AUT_DAT = 0xCA
CMD_WRT_DAT = 0xCC
CMD_CHK_DAT = 0xCF
CMD_NOP = 0xC0
CMD_INIT = 0xB4
CMD_UNLK = 0xB2
CMD_NAMES = {CMD_SET: "set", CMD_INS_KEY: "install_key", CMD_AUT_DAT: "authenticate_data", CMD_WRT_DAT: "write_data",
             CMD_CHK_DAT: "check_data", CMD_NOP: "nop", CMD_INIT: "initialize", CMD_UNLK: "unlock"}

PCL_SRK = 0x03
PCL_X509 = 0x09
PCL_CMS = 0xC5
PCL_BLOB = 0xBB
PCL_AEAD = 0xA3

INS_ABS = 0x01
INS_CSF = 0x02
INS_HSH = 0x80

ALG_SHA256 = 0x17
ALG_PKCS1 = 0x21
ALG_ECDSA = 0x27

ENG_OCOTP = 0x21

ECC_CURVE_ID = {0x4B: ("p256", 256), 0x4D: ("p384", 384), 0x4E: ("p521", 521)}
ECC_CURVE_BY_NAME = {v[0]: (k, v[1]) for k, v in ECC_CURVE_ID.items()}

IVT_SIZE = 32
BDT_SIZE = 12
XMCD_OFFSET = 0x40


try:  # the framework's own rejection type, so that `except core.RefReject` also catches ours
    from vf.core import RefReject as _BaseReject  # vf.core imports the standard library only
except Exception:  # pragma: no cover - stand-alone use  # pylint: disable=broad-except
    _BaseReject = Exception  # type: ignore


class RefReject(_BaseReject):
    """The reference model rejects the artifact: args = (code, detail dict)."""

    def __init__(self, code: str, detail: Any = None):
        super().__init__(code, detail)
        self.code = code
        self.detail = detail if detail is not None else {}

    def __str__(self) -> str:
        return f"{self.code}: {self.detail}"


def _need(cond: bool, code: str, **detail: Any) -> None:
    if not cond:
        raise RefReject(code, detail)


def header(data: bytes, off: int) -> tuple[int, int, int]:
    """(tag, length, parameter) of the HAB header at ``off``."""
    _need(0 <= off and off + 4 <= len(data), "header-outside-data", offset=off, size=len(data))
    tag, length, par = struct.unpack_from(">BHB", data, off)
    return tag, length, par


# ----------------------------------------------------------------------------------------------
# IVT / boot data / DCD / XMCD
# ----------------------------------------------------------------------------------------------
def parse_ivt(data: bytes, off: int = 0) -> dict:
    tag, length, ver = header(data, off)
    _need(tag == TAG_IVT, "ivt-tag", tag=tag, offset=off)
    _need(length == IVT_SIZE, "ivt-length", length=length)
    _need(0x40 <= ver <= 0x4E, "ivt-version", version=ver)
    _need(off + IVT_SIZE <= len(data), "ivt-truncated")
    entry, rs1, dcd, bdt, self_, csf, rs2 = struct.unpack_from("<7L", data, off + 4)
    return {"version": ver, "entry": entry, "reserved1": rs1, "dcd": dcd, "boot_data": bdt, "self": self_, "csf": csf,
            "reserved2": rs2, "offset": off}


def parse_boot_data(data: bytes, off: int) -> dict:
    _need(0 <= off and off + BDT_SIZE <= len(data), "boot-data-outside-image", offset=off)
    start, length, plugin = struct.unpack_from("<3L", data, off)
    return {"start": start, "length": length, "plugin": plugin, "offset": off}


def parse_dcd(data: bytes, off: int) -> dict:
    """DCD header + commands; returns total length, raw bytes and the decoded command list."""
    tag, length, ver = header(data, off)
    _need(tag == TAG_DCD, "dcd-tag", tag=tag, offset=off)
    _need(length >= 4 and off + length <= len(data), "dcd-length", length=length, offset=off, size=len(data))
    cmds = []
    pos = off + 4
    end = off + length
    while pos < end:
        ctag, clen, cpar = header(data, pos)
        _need(ctag in (CMD_WRT_DAT, CMD_CHK_DAT, CMD_NOP, CMD_UNLK), "dcd-command-tag", tag=ctag, offset=pos - off)
        _need(clen >= 4 and pos + clen <= end, "dcd-command-length", tag=ctag, length=clen, offset=pos - off)
        cmds.append({"tag": ctag, "par": cpar, "len": clen, "body": bytes(data[pos + 4:pos + clen])})
        pos += clen
    _need(pos == end, "dcd-commands-overrun")
    return {"version": ver, "length": length, "raw": bytes(data[off:off + length]), "commands": cmds, "offset": off}


def parse_xmcd_header(word_bytes: bytes) -> Optional[dict]:
    """Decode the 4-byte XMCD header; None if the tag nibble / version do not say XMCD."""
    if len(word_bytes) < 4:
        return None
    (w,) = struct.unpack_from("<L", word_bytes, 0)
    if (w >> 28) != 0xC or ((w >> 24) & 0xF) != 0:
        return None
    return {"interface": (w >> 20) & 0xF, "instance": (w >> 16) & 0xF, "block_type": (w >> 12) & 0xF, "block_size": w & 0xFFF}


def parse_xmcd(data: bytes, off: int) -> Optional[dict]:
    """XMCD at ``off`` (IVT + 0x40) if one is there."""
    h = parse_xmcd_header(bytes(data[off:off + 4]))
    if h is None or h["block_size"] < 4 or off + h["block_size"] > len(data):
        return None
    h = dict(h)
    h["raw"] = bytes(data[off:off + h["block_size"]])
    h["offset"] = off
    return h


# ----------------------------------------------------------------------------------------------
# SRK table
# ----------------------------------------------------------------------------------------------
def parse_srk_entry(data: bytes, off: int) -> dict:
    tag, length, alg = header(data, off)
    _need(off + length <= len(data) and length >= 4, "srk-entry-length", offset=off, length=length)
    raw = bytes(data[off:off + length])
    if tag == TAG_SRK_HASH:
        _need(alg == ALG_SHA256 and length == 4 + 32, "srk-hash-entry", alg=alg, length=length)
        return {"type": "hash", "digest": raw[4:], "raw": raw}
    _need(tag == TAG_SRK_KEY, "srk-entry-tag", tag=tag)
    _need(length >= 12, "srk-entry-length", length=length)
    r0, r1, r2, flags = struct.unpack_from(">4B", raw, 4)
    _need((r0, r1, r2) == (0, 0, 0), "srk-entry-reserved", reserved=[r0, r1, r2])
    _need(flags in (0x00, 0x80), "srk-entry-flags", flags=flags)
    if alg == ALG_PKCS1:
        nlen, elen = struct.unpack_from(">HH", raw, 8)
        _need(12 + nlen + elen == length, "srk-rsa-lengths", nlen=nlen, elen=elen, length=length)
        n = int.from_bytes(raw[12:12 + nlen], "big")
        e = int.from_bytes(raw[12 + nlen:12 + nlen + elen], "big")
        return {"type": "rsa", "n": n, "e": e, "nlen": nlen, "elen": elen, "ca": flags == 0x80, "raw": raw}
    _need(alg == ALG_ECDSA, "srk-entry-algorithm", alg=alg)
    curve_id, rsv, bits = struct.unpack_from(">BBH", raw, 8)
    _need(curve_id in ECC_CURVE_ID and ECC_CURVE_ID[curve_id][1] == bits and rsv == 0, "srk-ecc-curve", curve_id=curve_id, bits=bits)
    clen = (bits + 7) // 8
    _need(12 + 2 * clen == length, "srk-ecc-lengths", length=length, bits=bits)
    x = int.from_bytes(raw[12:12 + clen], "big")
    y = int.from_bytes(raw[12 + clen:12 + 2 * clen], "big")
    return {"type": "ecc", "curve": ECC_CURVE_ID[curve_id][0], "x": x, "y": y, "ca": flags == 0x80, "raw": raw}


def parse_srk_table(data: bytes, off: int = 0) -> dict:
    tag, length, ver = header(data, off)
    _need(tag == TAG_CRT, "srk-table-tag", tag=tag)
    _need(off + length <= len(data), "srk-table-length", length=length, available=len(data) - off)
    entries = []
    pos = off + 4
    end = off + length
    while pos < end:
        e = parse_srk_entry(data[:end], pos)
        entries.append(e)
        pos += len(e["raw"])
    _need(pos == end, "srk-table-overrun")
    _need(1 <= len(entries) <= 4, "srk-table-entry-count", count=len(entries))
    return {"version": ver, "length": length, "entries": entries, "raw": bytes(data[off:end])}


def srk_entry_digest(entry: dict) -> bytes:
    return entry["digest"] if entry["type"] == "hash" else hashlib.sha256(entry["raw"]).digest()


def srk_table_hash(entries: list[dict]) -> bytes:
    """The 32-byte value burnt into the SRK_HASH fuses."""
    return hashlib.sha256(b"".join(srk_entry_digest(e) for e in entries)).digest()


def build_srk_entry(pub: dict, ca: bool = True) -> bytes:
    """Expected SRK-table entry for a public key {type: rsa, n, e} / {type: ecc, curve, x, y}."""
    flags = 0x80 if ca else 0x00
    if pub["type"] == "rsa":
        n = pub["n"].to_bytes((pub["n"].bit_length() + 7) // 8, "big")
        e = pub["e"].to_bytes((pub["e"].bit_length() + 7) // 8, "big")
        body = struct.pack(">4BHH", 0, 0, 0, flags, len(n), len(e)) + n + e
        alg = ALG_PKCS1
    else:
        cid, bits = ECC_CURVE_BY_NAME[pub["curve"]]
        clen = (bits + 7) // 8
        body = struct.pack(">4BBBH", 0, 0, 0, flags, cid, 0, bits) + pub["x"].to_bytes(clen, "big") + pub["y"].to_bytes(clen, "big")
        alg = ALG_ECDSA
    return struct.pack(">BHB", TAG_SRK_KEY, 4 + len(body), alg) + body


def srk_entry_pubkey(entry: dict) -> dict:
    if entry["type"] == "rsa":
        return {"type": "rsa", "n": entry["n"], "e": entry["e"]}
    if entry["type"] == "ecc":
        return {"type": "ecc", "curve": entry["curve"], "x": entry["x"], "y": entry["y"]}
    raise RefReject("srk-entry-is-hash-only", {})


# ----------------------------------------------------------------------------------------------
# CSF
# ----------------------------------------------------------------------------------------------
def parse_csf(data: bytes, off: int) -> dict:
    """Decode the CSF header and its commands (no cryptography)."""
    tag, length, ver = header(data, off)
    _need(tag == TAG_CSF, "csf-tag", tag=tag, offset=off)
    _need(0x40 <= ver <= 0x4E, "csf-version", version=ver)
    _need(length >= 4 and off + length <= len(data), "csf-length", length=length)
    cmds = []
    pos = off + 4
    end = off + length
    while pos < end:
        ctag, clen, cpar = header(data, pos)
        _need(ctag in CMD_NAMES, "csf-command-tag", tag=ctag, offset=pos - off)
        _need(clen >= 4 and pos + clen <= end, "csf-command-length", tag=ctag, length=clen, offset=pos - off)
        body = bytes(data[pos + 4:pos + clen])
        cmd: dict[str, Any] = {"tag": ctag, "name": CMD_NAMES[ctag], "par": cpar, "len": clen, "offset": pos - off}
        if ctag == CMD_INS_KEY:
            _need(clen in (12, 12 + 32), "install-key-length", length=clen)
            pcl, alg, src, tgt, loc = struct.unpack_from(">4BL", body, 0)
            cmd.update(flags=cpar, protocol=pcl, algorithm=alg, source=src, target=tgt, location=loc)
        elif ctag == CMD_AUT_DAT:
            _need(clen >= 12 and (clen - 12) % 8 == 0, "authenticate-data-length", length=clen)
            key, pcl, eng, cfg, sig = struct.unpack_from(">4BL", body, 0)
            blocks = [struct.unpack_from(">LL", body, 8 + 8 * i) for i in range((clen - 12) // 8)]
            cmd.update(flags=cpar, key=key, protocol=pcl, engine=eng, engine_cfg=cfg, sig_offset=sig, blocks=[tuple(b) for b in blocks])
        elif ctag == CMD_UNLK:
            _need(clen >= 8 and clen % 4 == 0, "unlock-length", length=clen)
            words = list(struct.unpack_from(">%dL" % ((clen - 4) // 4), body, 0))
            cmd.update(engine=cpar, features=words[0], values=words[1:])
        elif ctag == CMD_SET:
            _need(clen == 8, "set-length", length=clen)
            r, alg, eng, cfg = struct.unpack_from(">4B", body, 0)
            cmd.update(item=cpar, algorithm=alg, engine=eng, engine_cfg=cfg, reserved=r)
        elif ctag == CMD_INIT:
            _need(clen % 4 == 0, "initialize-length", length=clen)
            cmd.update(engine=cpar, values=list(struct.unpack_from(">%dL" % ((clen - 4) // 4), body, 0)))
        elif ctag == CMD_NOP:
            _need(clen == 4, "nop-length", length=clen)
        else:
            cmd.update(body=body)
        cmds.append(cmd)
        pos += clen
    _need(pos == end, "csf-commands-overrun")
    return {"version": ver, "length": length, "commands": cmds, "offset": off, "base": bytes(data[off:end])}


def csf_record(data: bytes, csf_off: int, rel: int, want_tag: int, what: str) -> tuple[int, bytes, int]:
    """Header-framed record (certificate / signature / MAC / SRK table) at CSF-relative offset."""
    _need(rel % 4 == 0, "csf-data-offset-unaligned", what=what, offset=rel)
    off = csf_off + rel
    tag, length, ver = header(data, off)
    _need(tag == want_tag, "csf-data-tag", what=what, tag=tag, expected=want_tag, offset=rel)
    _need(length >= 4 and off + length <= len(data), "csf-data-length", what=what, length=length, offset=rel)
    return ver, bytes(data[off + 4:off + length]), length


def parse_mac(payload: bytes) -> dict:
    _need(len(payload) >= 4, "mac-record-short")
    z0, nonce_len, z1, mac_len = struct.unpack_from(">4B", payload, 0)
    _need(z0 == 0 and z1 == 0, "mac-record-reserved", reserved=[z0, z1])
    _need(len(payload) == 4 + nonce_len + mac_len, "mac-record-length", nonce_len=nonce_len, mac_len=mac_len, payload=len(payload))
    return {"nonce": payload[4:4 + nonce_len], "mac": payload[4 + nonce_len:], "nonce_len": nonce_len, "mac_len": mac_len}


# ----------------------------------------------------------------------------------------------
# whole image
# ----------------------------------------------------------------------------------------------
class Image:
    """A HAB image as it sits in the boot medium.  ``data[ivt_off]`` is the first IVT byte."""

    def __init__(self, data: bytes, ivt_off: int = 0):
        self.data = bytes(data)
        self.ivt_off = ivt_off
        self.ivt = parse_ivt(self.data, ivt_off)
        self.base = self.ivt["self"] - ivt_off  # target address of data[0]
        _need(self.ivt["self"] != 0, "ivt-self-zero")
        _need(self.ivt["reserved1"] == 0 and self.ivt["reserved2"] == 0, "ivt-reserved-nonzero")
        _need(self.ivt["boot_data"] == self.ivt["self"] + IVT_SIZE, "ivt-boot-data-pointer", boot_data=self.ivt["boot_data"], self_=self.ivt["self"])
        self.boot_data = parse_boot_data(self.data, self.off(self.ivt["boot_data"], BDT_SIZE, "boot data"))
        self.dcd = None
        if self.ivt["dcd"]:
            self.dcd = parse_dcd(self.data, self.off(self.ivt["dcd"], 4, "dcd"))
        self.xmcd = None
        xo = ivt_off + XMCD_OFFSET
        if self.dcd is None or not self.dcd["offset"] <= xo < self.dcd["offset"] + self.dcd["length"]:
            self.xmcd = parse_xmcd(self.data, xo)
        self.csf = None
        if self.ivt["csf"]:
            self.csf = parse_csf(self.data, self.off(self.ivt["csf"], 4, "csf"))

    def off(self, addr: int, size: int, what: str) -> int:
        o = addr - self.base
        _need(0 <= o and o + size <= len(self.data), "pointer-outside-image", what=what, address=addr, base=self.base, size=len(self.data))
        return o

    def read(self, addr: int, size: int, what: str) -> bytes:
        o = self.off(addr, size, what)
        return self.data[o:o + size]


def authenticate(img: Image, cms_mod, dek: Optional[bytes] = None) -> dict:
    """Replay the CSF like the boot ROM.  ``cms_mod`` = vf.refs.cms (passed in to keep this file
    free of third-party imports).  Returns::

        {"srk_hash", "srk_table", "srk_index", "keys": {slot: {...}}, "csf_signed": bool,
         "signed": [(addr, len)...], "decrypted": [(addr, len)...], "plain": {addr: bytes},
         "mac": {...} | None, "secret_key": {...} | None, "commands": [...names...], "unlocks": [...], "sets": [...]}
    """
    _need(img.csf is not None, "no-csf")
    csf = img.csf
    coff = csf["offset"]
    data = img.data
    slots: dict[int, dict] = {}
    res: dict[str, Any] = {"srk_hash": None, "srk_table": None, "srk_index": None, "keys": slots, "csf_signed": False, "signed": [],
                           "decrypted": [], "plain": {}, "mac": None, "secret_key": None, "commands": [c["name"] for c in csf["commands"]],
                           "unlocks": [], "sets": [], "signing_times": [], "attr_order_der": True}
    for cmd in csf["commands"]:
        t = cmd["tag"]
        if t == CMD_INS_KEY:
            flags, pcl = cmd["flags"], cmd["protocol"]
            if pcl == PCL_SRK:
                _need(flags & ~INS_HSH == 0, "install-srk-flags", flags=flags)
                _need(cmd["target"] == 0, "install-srk-target", target=cmd["target"])
                _need(not slots, "install-srk-not-first")
                res["fast_authentication"] = False
                ver, payload, length = csf_record(data, coff, cmd["location"], TAG_CRT, "srk table")
                table = parse_srk_table(data, coff + cmd["location"])
                _need(cmd["source"] < len(table["entries"]), "install-srk-source-index", source=cmd["source"], entries=len(table["entries"]))
                ent = table["entries"][cmd["source"]]
                _need(ent["type"] != "hash", "install-srk-selected-entry-is-hash", source=cmd["source"])
                _need(cmd["algorithm"] == ALG_SHA256, "install-srk-hash-algorithm", algorithm=cmd["algorithm"])
                res["srk_table"] = table
                res["srk_index"] = cmd["source"]
                res["srk_hash"] = srk_table_hash(table["entries"])
                slots[0] = {"pub": srk_entry_pubkey(ent), "ca": ent["ca"], "kind": "srk", "cert": None}
                if not ent["ca"]:
                    # fast authentication: an SRK without the CA flag is not allowed to certify other keys;
                    # the ROM uses it directly as the CSF key (slot 1) and for image data (slot 0)
                    slots[1] = {"pub": slots[0]["pub"], "ca": False, "kind": "srk-nocak", "cert": None}
                    res["fast_authentication"] = True
            elif pcl == PCL_X509:
                _need(flags & INS_ABS == 0, "install-key-absolute-certificate")
                want_csf = bool(flags & INS_CSF)
                _need((cmd["target"] == 1) == want_csf, "install-key-target-vs-csf-flag", target=cmd["target"], flags=flags)
                _need(cmd["target"] in (1, 2, 3, 4, 5), "install-key-target", target=cmd["target"])
                _need(cmd["source"] in slots and slots[cmd["source"]]["kind"] in ("srk", "img"), "install-key-verification-slot-empty", source=cmd["source"], installed=sorted(slots))
                _need(cmd["target"] not in slots or slots[cmd["target"]]["kind"] == "srk-nocak", "install-key-target-occupied", target=cmd["target"])
                ver, der, length = csf_record(data, coff, cmd["location"], TAG_CRT, "certificate")
                cert = cms_mod.parse_certificate(der)
                issuer = slots[cmd["source"]]
                cms_mod.verify_certificate(cert, issuer["pub"])  # raises RefReject
                slots[cmd["target"]] = {"pub": cert["pub"], "ca": cert["ca"], "kind": "csf" if want_csf else "img", "cert": cert, "issuer_slot": cmd["source"]}
            elif pcl == PCL_BLOB:
                _need(flags & INS_ABS, "install-secret-key-not-absolute", flags=flags)
                _need(cmd["target"] in (0, 1, 2, 3, 4, 5), "install-secret-key-target", target=cmd["target"])
                res["secret_key"] = {"target": cmd["target"], "source": cmd["source"], "blob_address": cmd["location"]}
                slots[0x100 + cmd["target"]] = {"kind": "secret", "blob_address": cmd["location"]}
            else:
                raise RefReject("install-key-protocol", {"protocol": pcl})
        elif t == CMD_AUT_DAT:
            _need(cmd["flags"] & ~0x01 == 0, "authenticate-data-flags", flags=cmd["flags"])
            _need(cmd["flags"] == 0, "authenticate-data-absolute-signature")
            if cmd["protocol"] == PCL_CMS:
                ver, blob, length = csf_record(data, coff, cmd["sig_offset"], TAG_SIG, "signature")
                _need(cmd["key"] in slots and "pub" in slots[cmd["key"]], "authenticate-data-key-slot-empty", key=cmd["key"], installed=sorted(slots))
                signer = slots[cmd["key"]]
                if not cmd["blocks"]:
                    _need(cmd["key"] in (0, 1), "authenticate-csf-key-index", key=cmd["key"])
                    content = csf["base"]
                    what = "csf"
                else:
                    _need(res["csf_signed"], "authenticate-data-before-csf")
                    _need(cmd["key"] != 1, "authenticate-data-with-csf-key")
                    content = b"".join(img.read(a, n, "authenticated block") for a, n in cmd["blocks"])
                    what = "image"
                info = cms_mod.verify_signed_data(blob, content, signer["pub"], signer.get("cert"), what)  # raises RefReject
                res["signing_times"].append(info.get("signing_time"))
                res["attr_order_der"] = res["attr_order_der"] and info.get("attrs_sorted", True)
                if what == "csf":
                    res["csf_signed"] = True
                    res["csf_key_slot"] = cmd["key"]
                else:
                    res["signed"].extend(cmd["blocks"])
                    res.setdefault("image_key_slots", []).append(cmd["key"])
            elif cmd["protocol"] == PCL_AEAD:
                _need(res["csf_signed"], "decrypt-data-before-csf")
                ver, payload, length = csf_record(data, coff, cmd["sig_offset"], TAG_MAC, "mac")
                mac = parse_mac(payload)
                _need(7 <= mac["nonce_len"] <= 13, "mac-nonce-length", nonce_len=mac["nonce_len"])
                _need(mac["mac_len"] in (4, 6, 8, 10, 12, 14, 16), "mac-length", mac_len=mac["mac_len"])
                _need((0x100 + cmd["key"]) in slots, "decrypt-data-key-slot-empty", key=cmd["key"])
                _need(cmd["blocks"], "decrypt-data-no-blocks")
                total = sum(n for _, n in cmd["blocks"])
                _need(total < (1 << (8 * (15 - mac["nonce_len"]))), "ccm-nonce-too-long-for-data", nonce_len=mac["nonce_len"], total=total)
                res["mac"] = mac
                res["decrypt_blocks"] = list(cmd["blocks"])
                if dek is not None:
                    ct = b"".join(img.read(a, n, "encrypted block") for a, n in cmd["blocks"])
                    pt = cms_mod.ccm_decrypt(dek, mac["nonce"], ct, mac["mac"])  # raises RefReject on tag mismatch
                    pos = 0
                    for a, n in cmd["blocks"]:
                        res["plain"][a] = pt[pos:pos + n]
                        pos += n
                    res["decrypted"].extend(cmd["blocks"])
            else:
                raise RefReject("authenticate-data-protocol", {"protocol": cmd["protocol"]})
        elif t == CMD_UNLK:
            need_uid = cmd["engine"] == ENG_OCOTP and bool(cmd["features"] & 0b1101)
            _need(len(cmd["values"]) == (2 if need_uid else 0), "unlock-uid-words", engine=cmd["engine"], features=cmd["features"], words=len(cmd["values"]))
            uid = (cmd["values"][0] << 32 | cmd["values"][1]) if need_uid else None
            res["unlocks"].append({"engine": cmd["engine"], "features": cmd["features"], "uid": uid})
        elif t == CMD_SET:
            res["sets"].append({"item": cmd["item"], "algorithm": cmd["algorithm"], "engine": cmd["engine"], "engine_cfg": cmd["engine_cfg"]})
    return res


# ----------------------------------------------------------------------------------------------
# interval helpers
# ----------------------------------------------------------------------------------------------
def merge_intervals(blocks: list[tuple[int, int]]) -> list[tuple[int, int]]:
    """Union of (start, length) blocks as sorted disjoint [start, end) pairs; empty blocks dropped."""
    iv = sorted((a, a + n) for a, n in blocks if n > 0)
    out: list[list[int]] = []
    for a, b in iv:
        if out and a <= out[-1][1]:
            out[-1][1] = max(out[-1][1], b)
        else:
            out.append([a, b])
    return [(a, b) for a, b in out]


def uncovered(required: list[tuple[int, int]], have: list[tuple[int, int]]) -> list[tuple[int, int]]:
    """Parts of the required [start, end) ranges not inside the merged ``have`` intervals."""
    miss = []
    for a, b in required:
        cur = a
        for x, y in have:
            if y <= cur or x >= b:
                continue
            if x > cur:
                miss.append((cur, x))
            cur = max(cur, y)
            if cur >= b:
                break
        if cur < b:
            miss.append((cur, b))
    return miss


def selftest() -> int:
    """Structure-only self checks (ground-truth files are checked from the property module)."""
    n = 0
    assert merge_intervals([(0, 4), (4, 4), (10, 0), (20, 2)]) == [(0, 8), (20, 22)]
    n += 1
    assert uncovered([(0, 10)], [(0, 4), (6, 8)]) == [(4, 6), (8, 10)]
    n += 1
    assert uncovered([(0, 10)], [(0, 10)]) == []
    n += 1
    # XMCD header word: tag 0xC, version 0, interface 1, instance 2, type 1, size 0x204
    h = parse_xmcd_header(struct.pack("<L", 0xC0121204))
    assert h == {"interface": 1, "instance": 2, "block_type": 1, "block_size": 0x204}, h
    n += 1
    assert parse_xmcd_header(b"\x00\x00\x00\xd1") is None
    n += 1
    rsa = build_srk_entry({"type": "rsa", "n": (1 << 2047) | 12345, "e": 65537})
    e = parse_srk_entry(rsa, 0)
    assert e["type"] == "rsa" and e["n"] == (1 << 2047) | 12345 and e["e"] == 65537 and e["ca"] and len(rsa) == 12 + 256 + 3
    n += 1
    ecc = build_srk_entry({"type": "ecc", "curve": "p521", "x": 5, "y": 7}, ca=False)
    e = parse_srk_entry(ecc, 0)
    assert e["type"] == "ecc" and e["curve"] == "p521" and (e["x"], e["y"]) == (5, 7) and not e["ca"] and len(ecc) == 12 + 132
    n += 1
    m = parse_mac(bytes([0, 3, 0, 4]) + b"abc" + b"wxyz")
    assert m["nonce"] == b"abc" and m["mac"] == b"wxyz"
    n += 1
    return n
