"""Independent walker for AHAB images (i.MX 8ULP/9x, RT118x container format), standard library only.

Written from the container format description (NXP AHAB container / signature block layout), not
from SPSDK: nothing is imported from ``spsdk``.  Crypto comes from hashlib and the pure-Python
``vf.refs.{ecdsa,rsa,modes}``.

Layout facts used (all little endian):

* small headers come in two byte orders: *version, length16, tag* for the container (0x87),
  signature block (0x90), signature (0xD8), certificate (0xAF), blob (0x81), SRK table array (0x5A)
  and SRK data (0x5D); *tag, length16, version* for the SRK table (0xD7) and SRK record (0xE1);
* container header, 16 bytes: ``<BHB`` header, ``<L`` flags (SRK set [1:0], used SRK [5:4], revoke
  mask [11:8]), ``<H`` SW version, ``<B`` fuse version, ``<B`` image count, ``<H`` signature block
  offset, ``<H`` reserved; header version 0 = container version 1, header version 2 = version 2;
* image array entry, 128 bytes: ``<LLQQLL64s32s`` offset (relative to the container), size, load
  address, entry point, flags, meta data, hash (left aligned, zero padded), IV;
  flags: type [3:0], core [7:4], hash [10:8] + encrypted bit 11 (version 1) or hash [11:8] + encrypted
  bit 12 (version 2), boot flags [30:16];
* signature block: header + ``<HHHHL`` certificate, SRK table (array), signature, blob offsets (from
  the start of the signature block) and the key identifier;
* version 1 SRK table: header (version 0x42) + four records ``tag, length, sign alg | hash, key size,
  reserved, flags | len1, len2 | modulus‖exponent or X‖Y``; the fuse value is SHA-256 of the table;
* version 2 SRK table array: header, count byte, 3 reserved; per table: SRK table (version 0x43, four
  records whose 64 byte parameter field is the hash of the record's SRK data zero padded) followed by
  the SRK data (``<BHB`` version, length, tag 0x5D, ``<B`` record number, 3 reserved, key bytes) of the
  **used** record; the fuse value is SHA-512 of the table;
* signed data = container bytes from the container header up to (not including) the signature header;
  ECDSA signatures are raw ``r‖s``; RSA is RSASSA-PSS with MGF1 and salt length = digest length; the
  digest is the one named by the SRK record of the verifying key;
* certificate (format version 2): header, ``<H`` signature offset, inverted permissions, permissions,
  12 bytes permission data, fuse version, 3 reserved, 16 bytes UUID, SRK record + SRK data of the
  certified key (optionally a second pair), then the signature(s) by the *used SRK* over the certificate
  bytes ``[0, signature offset)``.  When the certificate carries the *container* permission (bit 0)
  the container signature must verify under the certified key, otherwise under the used SRK;
* an encrypted image (flag bit) is stored as AES-CBC(DEK, IV field[16:32]) ciphertext; the stored hash
  covers the ciphertext, the 32 byte IV field is SHA-256 of the plaintext (which has the entry's size);
* blob: header, flags, key size in bytes, algorithm, mode, wrapped key of ``size + 48`` bytes.
"""
from __future__ import annotations

import hashlib
import struct
from typing import Any, Optional

from . import ecdsa as _ecdsa
from . import modes as _modes
from . import rsa as _rsa

TAG_SRK_TABLE_ARRAY = 0x5A
TAG_SRK_DATA = 0x5D
TAG_BLOB = 0x81
TAG_CONTAINER = 0x87
TAG_SIGNATURE_BLOCK = 0x90
TAG_CERTIFICATE = 0xAF
TAG_SRK_TABLE = 0xD7
TAG_SIGNATURE = 0xD8
TAG_SRK_RECORD = 0xE1

SIGN_RSA = 0x21
SIGN_RSA_PSS = 0x22
SIGN_ECDSA = 0x27
SIGN_SM2 = 0x28
SIGN_DILITHIUM = 0xD1
SIGN_MLDSA = 0xD2

CONTAINER_SLOT = {1: 0x400, 2: 0x4000}  # distance of the fixed container offsets per container version
IAE_SIZE = 128
HEADER_SIZE = 16

# key size / curve identifiers of the SRK record -> (kind, len1, len2)
KEY_TYPES = {
    0x1: ("p256", 32, 32),
    0x2: ("p384", 48, 48),
    0x3: ("p521", 66, 66),
    0x5: ("rsa2048", 256, 4),
    0x6: ("rsa3072", 384, 4),
    0x7: ("rsa4096", 512, 4),
    0x8: ("sm2", 32, 32),
    0x9: ("dilithium3", 1952, 0),
    0xA: ("dilithium5", 2592, 0),
}

SRK_SET = {0: "none", 1: "nxp", 2: "oem"}


class Reject(Exception):
    """The walker rejects the artifact; args[0] = short stable reason, args[1] = detail."""

    def __init__(self, reason: str, detail: Any = None):
        super().__init__(reason, detail)
        self.reason = reason
        self.detail = detail


class Unsupported(Exception):
    """Something the walker cannot judge (SM2/SM3, post-quantum signatures)."""


def _need(data: bytes, off: int, n: int, what: str) -> None:
    if off < 0 or off + n > len(data):
        raise Reject("truncated", f"{what}: need {n} bytes at {off:#x}, have {len(data)}")


def head_vlt(data: bytes, off: int, what: str) -> tuple[int, int, int]:
    """version, length, tag order -> (tag, length, version)."""
    _need(data, off, 4, what)
    version, length, tag = struct.unpack_from("<BHB", data, off)
    return tag, length, version


def head_tlv(data: bytes, off: int, what: str) -> tuple[int, int, int]:
    """tag, length, version order -> (tag, length, version)."""
    _need(data, off, 4, what)
    tag, length, version = struct.unpack_from("<BHB", data, off)
    return tag, length, version


def image_hash(alg: int, container_version: int, stored: bytes) -> tuple[str, bytes]:
    """Digest of the stored image bytes under the algorithm number of the entry flags."""
    if alg == 0:
        return "sha256", hashlib.sha256(stored).digest()
    if alg == 1:
        return "sha384", hashlib.sha384(stored).digest()
    if alg == 2:
        return "sha512", hashlib.sha512(stored).digest()
    if alg == 3:
        raise Unsupported("SM3 image hash")
    if container_version == 2:
        if alg == 4:
            return "sha3_256", hashlib.sha3_256(stored).digest()
        if alg == 5:
            return "sha3_384", hashlib.sha3_384(stored).digest()
        if alg == 6:
            return "sha3_512", hashlib.sha3_512(stored).digest()
        if alg == 8:
            return "shake_128_256", hashlib.shake_128(stored).digest(32)
        if alg == 9:
            return "shake_256_512", hashlib.shake_256(stored).digest(64)
    raise Reject("image-hash-algorithm-unknown", alg)


def record_hash(alg: int, data: bytes) -> tuple[str, bytes]:
    """Digest named by the hash field of an SRK record."""
    if alg == 0:
        return "sha256", hashlib.sha256(data).digest()
    if alg == 1:
        return "sha384", hashlib.sha384(data).digest()
    if alg == 2:
        return "sha512", hashlib.sha512(data).digest()
    if alg == 3:
        raise Unsupported("SM3")
    if alg == 4:
        return "sha3_256", hashlib.sha3_256(data).digest()
    if alg == 5:
        return "sha3_384", hashlib.sha3_384(data).digest()
    if alg == 6:
        return "sha3_512", hashlib.sha3_512(data).digest()
    raise Reject("srk-hash-algorithm-unknown", alg)


_HASHNAME = {0: "sha256", 1: "sha384", 2: "sha512"}


def verify_signature(key: dict, message: bytes, signature: bytes) -> bool:
    """Check ``signature`` over ``message`` under a key dict produced by the SRK parsers.

    key = {sign_alg, hash, kind, p1, p2}.  Raises Unsupported for algorithms outside the models.
    """
    alg = key["sign_alg"]
    if key["hash"] not in _HASHNAME:
        raise Unsupported(f"signature digest {key['hash']}")
    hashname = _HASHNAME[key["hash"]]
    if alg in (SIGN_RSA, SIGN_RSA_PSS):
        if not key["kind"].startswith("rsa"):
            raise Reject("srk-key-type-vs-sign-algorithm", key["kind"])
        n = int.from_bytes(key["p1"], "big")
        e = int.from_bytes(key["p2"], "big")
        return _rsa.verify_pss(n, e, message, signature, hashname=hashname, salt_len=None)
    if alg == SIGN_ECDSA:
        if key["kind"] not in ("p256", "p384", "p521"):
            raise Reject("srk-key-type-vs-sign-algorithm", key["kind"])
        size = len(key["p1"])
        if len(signature) != 2 * size:
            return False
        r = int.from_bytes(signature[:size], "big")
        s = int.from_bytes(signature[size:], "big")
        pub = (int.from_bytes(key["p1"], "big"), int.from_bytes(key["p2"], "big"))
        digest = hashlib.new(hashname, message).digest()
        return _ecdsa.verify_digest(key["kind"], pub, digest, r, s)
    raise Unsupported(f"signing algorithm {alg:#x}")


# -------------------------------------------------------------------------------------------
def parse_srk_record(data: bytes, off: int, container_version: int) -> dict:
    tag, length, sign_alg = head_tlv(data, off, "SRK record")
    if tag != TAG_SRK_RECORD:
        raise Reject("srk-record-tag", f"{tag:#x} at {off:#x}")
    _need(data, off, 12, "SRK record")
    hash_alg, key_size, _rsv, flags, len1, len2 = struct.unpack_from("<BBBBHH", data, off + 4)
    if key_size not in KEY_TYPES:
        raise Reject("srk-record-key-size-unknown", key_size)
    kind, l1, l2 = KEY_TYPES[key_size]
    if (len1, len2) != (l1, l2):
        raise Reject("srk-record-parameter-lengths", {"kind": kind, "len1": len1, "len2": len2})
    rec = {"off": off, "length": length, "sign_alg": sign_alg, "hash": hash_alg, "key_size": key_size, "kind": kind,
           "flags": flags, "ca": bool(flags & 0x80), "len1": len1, "len2": len2}
    if container_version == 1:
        if length != 12 + len1 + len2:
            raise Reject("srk-record-length", {"length": length, "expected": 12 + len1 + len2})
        _need(data, off, length, "SRK record")
        rec["p1"] = bytes(data[off + 12:off + 12 + len1])
        rec["p2"] = bytes(data[off + 12 + len1:off + 12 + len1 + len2])
    else:
        if length != 12 + 64:
            raise Reject("srk-record-length", {"length": length, "expected": 76})
        _need(data, off, length, "SRK record")
        rec["data_hash"] = bytes(data[off + 12:off + 76])
    if sign_alg in (SIGN_RSA, SIGN_RSA_PSS) and not kind.startswith("rsa"):
        raise Reject("srk-key-type-vs-sign-algorithm", {"alg": sign_alg, "kind": kind})
    if sign_alg == SIGN_ECDSA and kind not in ("p256", "p384", "p521"):
        raise Reject("srk-key-type-vs-sign-algorithm", {"alg": sign_alg, "kind": kind})
    return rec


def parse_srk_data(data: bytes, off: int) -> dict:
    tag, length, version = head_vlt(data, off, "SRK data")
    if tag != TAG_SRK_DATA:
        raise Reject("srk-data-tag", f"{tag:#x} at {off:#x}")
    if version != 0:
        raise Reject("srk-data-version", version)
    if length < 8:
        raise Reject("srk-data-length", length)
    _need(data, off, length, "SRK data")
    return {"off": off, "length": length, "srk_id": data[off + 4], "key": bytes(data[off + 8:off + length]),
            "raw": bytes(data[off:off + length])}


def bind_srk_data(rec: dict, sd: dict) -> dict:
    """Version 2: check the record's hash of the SRK data and return a verification key."""
    try:
        _name, dg = record_hash(rec["hash"], sd["raw"])
    except Unsupported:
        dg = None
    if dg is not None:
        if rec["data_hash"][:len(dg)] != dg or any(rec["data_hash"][len(dg):]):
            raise Reject("srk-record-data-hash", {"record": rec["off"], "stored": rec["data_hash"].hex(), "computed": dg.hex()})
    if len(sd["key"]) != rec["len1"] + rec["len2"]:
        raise Reject("srk-data-key-length", {"have": len(sd["key"]), "want": rec["len1"] + rec["len2"]})
    key = dict(rec)
    key["p1"] = sd["key"][:rec["len1"]]
    key["p2"] = sd["key"][rec["len1"]:]
    key["srk_data_off"] = sd["off"]
    key["srk_data_len"] = sd["length"]
    key["srk_data_id"] = sd["srk_id"]
    return key


def parse_srk_table(data: bytes, off: int, container_version: int) -> dict:
    tag, length, version = head_tlv(data, off, "SRK table")
    if tag != TAG_SRK_TABLE:
        raise Reject("srk-table-tag", f"{tag:#x} at {off:#x}")
    want_version = 0x42 if container_version == 1 else 0x43
    if version != want_version:
        raise Reject("srk-table-version", f"{version:#x}")
    _need(data, off, length, "SRK table")
    pos = off + 4
    records = []
    for _ in range(4):
        if pos + 12 > off + length:
            raise Reject("srk-table-record-count", len(records))
        rec = parse_srk_record(data, pos, container_version)
        if pos + rec["length"] > off + length:
            raise Reject("srk-record-beyond-table", rec["off"])
        records.append(rec)
        pos += rec["length"]
    if pos != off + length:
        raise Reject("srk-table-length", {"length": length, "records_end": pos - off})
    kinds = {(r["sign_alg"], r["hash"], r["key_size"], r["flags"]) for r in records}
    if len(kinds) != 1:
        raise Reject("srk-records-differ-in-type", sorted(kinds))
    raw = bytes(data[off:off + length])
    fuse = hashlib.sha256(raw).digest() if container_version == 1 else hashlib.sha512(raw).digest()
    return {"off": off, "length": length, "version": version, "records": records, "raw": raw, "srk_hash": fuse}


def parse_srk_assets(data: bytes, off: int, container_version: int, used_srk_id: int) -> dict:
    """SRK table (version 1) or SRK table array (version 2) -> {tables, keys (per table: verification key), end}."""
    if container_version == 1:
        t = parse_srk_table(data, off, 1)
        return {"off": off, "length": t["length"], "tables": [t], "keys": [t["records"][used_srk_id]], "end": off + t["length"]}
    tag, length, version = head_vlt(data, off, "SRK table array")
    if tag != TAG_SRK_TABLE_ARRAY:
        raise Reject("srk-table-array-tag", f"{tag:#x} at {off:#x}")
    if version != 0:
        raise Reject("srk-table-array-version", version)
    _need(data, off, max(length, 8), "SRK table array")
    count = data[off + 4]
    if count not in (1, 2):
        raise Reject("srk-table-array-count", count)
    pos = off + 8
    tables, keys = [], []
    for _ in range(count):
        t = parse_srk_table(data, pos, 2)
        pos += t["length"]
        sd = parse_srk_data(data, pos)
        pos += sd["length"]
        if sd["srk_id"] != used_srk_id:
            raise Reject("srk-data-not-of-used-record", {"srk_data_id": sd["srk_id"], "used_srk_id": used_srk_id})
        t["srk_data"] = sd
        keys.append(bind_srk_data(t["records"][used_srk_id], sd))
        tables.append(t)
    if pos != off + length:
        raise Reject("srk-table-array-length", {"length": length, "content_end": pos - off})
    return {"off": off, "length": length, "tables": tables, "keys": keys, "end": pos}


def parse_signature(data: bytes, off: int) -> dict:
    tag, length, version = head_vlt(data, off, "signature")
    if tag != TAG_SIGNATURE:
        raise Reject("signature-tag", f"{tag:#x} at {off:#x}")
    if version != 0:
        raise Reject("signature-version", version)
    if length < 8:
        raise Reject("signature-length", length)
    _need(data, off, length, "signature")
    return {"off": off, "length": length, "data": bytes(data[off + 8:off + length])}


def parse_certificate(data: bytes, off: int) -> dict:
    tag, length, version = head_vlt(data, off, "certificate")
    if tag != TAG_CERTIFICATE:
        raise Reject("certificate-tag", f"{tag:#x} at {off:#x}")
    if version != 2:
        raise Reject("certificate-version", version)
    _need(data, off, max(length, 40), "certificate")
    sig_off, inv_perm, perm, perm_data, fuse_version, _r1, _r2, uuid = struct.unpack_from("<HBB12sBBH16s", data, off + 4)
    if inv_perm != (~perm & 0xFF):
        raise Reject("certificate-permission-inverse", {"perm": perm, "inv": inv_perm})
    pos = off + 40
    keys = []
    while pos < off + sig_off:
        rec = parse_srk_record(data, pos, 2)
        pos += rec["length"]
        sd = parse_srk_data(data, pos)
        pos += sd["length"]
        keys.append(bind_srk_data(rec, sd))
        if len(keys) > 2:
            raise Reject("certificate-key-count", len(keys))
    if pos != off + sig_off or not keys:
        raise Reject("certificate-signature-offset", {"signature_offset": sig_off, "keys_end": pos - off})
    sigs = []
    for _ in keys:
        s = parse_signature(data, pos)
        sigs.append(s)
        pos += s["length"]
    if pos != off + length:
        raise Reject("certificate-length", {"length": length, "content_end": pos - off})
    return {"off": off, "length": length, "signature_offset": sig_off, "permissions": perm, "permission_data": bytes(perm_data),
            "fuse_version": fuse_version, "uuid": bytes(uuid), "keys": keys, "signatures": sigs,
            "signed": bytes(data[off:off + sig_off]), "raw": bytes(data[off:off + length])}


def parse_blob(data: bytes, off: int) -> dict:
    tag, length, version = head_vlt(data, off, "blob")
    if tag != TAG_BLOB:
        raise Reject("blob-tag", f"{tag:#x} at {off:#x}")
    if version != 0:
        raise Reject("blob-version", version)
    _need(data, off, max(length, 8), "blob")
    flags, size, algorithm, mode = struct.unpack_from("<BBBB", data, off + 4)
    if size * 8 not in (128, 192, 256):
        raise Reject("blob-key-size", size)
    if length != 8 + size + 48:
        raise Reject("blob-length", {"length": length, "expected": 8 + size + 48})
    return {"off": off, "length": length, "flags": flags, "key_bits": size * 8, "algorithm": algorithm, "mode": mode,
            "wrapped": bytes(data[off + 8:off + length])}


# -------------------------------------------------------------------------------------------
def walk_container(data: bytes, off: int, dek: Optional[bytes] = None, check_signature: bool = True) -> dict:
    """Walk one container that must start at ``off``; returns every item found, raises Reject."""
    tag, length, hver = head_vlt(data, off, "container header")
    if tag != TAG_CONTAINER:
        raise Reject("container-tag", f"{tag:#x} at {off:#x}")
    if hver == 0:
        cver = 1
    elif hver == 2:
        cver = 2
    else:
        raise Reject("container-version", hver)
    _need(data, off, HEADER_SIZE, "container header")
    flags, sw_version, fuse_version, n_images, sb_off, reserved = struct.unpack_from("<LHBBHH", data, off + 4)
    _need(data, off, length, "container")
    if sb_off != HEADER_SIZE + n_images * IAE_SIZE:
        raise Reject("signature-block-offset", {"offset": sb_off, "expected": HEADER_SIZE + n_images * IAE_SIZE})
    c: dict[str, Any] = {
        "off": off, "container_version": cver, "length": length, "flags": flags, "sw_version": sw_version,
        "fuse_version": fuse_version, "n_images": n_images, "sigblk_offset": sb_off, "reserved": reserved,
        "srk_set": SRK_SET.get(flags & 3, flags & 3), "used_srk_id": (flags >> 4) & 3, "revoke_mask": (flags >> 8) & 0xF,
        "gdet": (flags >> 20) & 3, "check_all_signatures": (flags >> 15) & 1,
    }
    # ---- image array
    images = []
    for i in range(n_images):
        eo = off + HEADER_SIZE + i * IAE_SIZE
        ioff, size, load, entry, iflags, meta, ihash, iv = struct.unpack_from("<LLQQLL64s32s", data, eo)
        if cver == 1:
            halg, enc = (iflags >> 8) & 7, bool((iflags >> 11) & 1)
        else:
            halg, enc = (iflags >> 8) & 0xF, bool((iflags >> 12) & 1)
        e = {"index": i, "entry_off": eo, "offset": ioff, "abs_offset": off + ioff, "size": size, "load_address": load,
             "entry_point": entry, "flags": iflags, "meta": meta, "hash_field": bytes(ihash), "iv": bytes(iv),
             "type": iflags & 0xF, "core": (iflags >> 4) & 0xF, "hash_alg": halg, "encrypted": enc,
             "boot_flags": (iflags >> 16) & 0x7FFF,
             "meta_start_cpu": meta & 0x3FF, "meta_mu_cpu": (meta >> 10) & 0x3FF, "meta_partition": (meta >> 20) & 0xFF}
        if size:
            if e["abs_offset"] + size > len(data):
                raise Reject("image-beyond-end-of-file", {"image": i, "abs_offset": e["abs_offset"], "size": size, "file": len(data)})
            stored = bytes(data[e["abs_offset"]:e["abs_offset"] + size])
        else:
            stored = b""
        e["stored"] = stored
        try:
            name, dg = image_hash(halg, cver, stored)
            e["hash_name"] = name
            if any(ihash):  # an all-zero hash field means "no hash" (only some devices allow it; judged by the caller)
                if ihash[:len(dg)] != dg or any(ihash[len(dg):]):
                    raise Reject("image-hash", {"image": i, "algorithm": name, "stored": ihash.hex(), "computed": dg.hex()})
                e["hash_present"] = True
            else:
                e["hash_present"] = False
        except Unsupported as u:
            e["hash_name"] = "unsupported"
            e["unsupported"] = str(u)
        if enc:
            e["plain"] = None
            if dek is not None:
                if size % 16:
                    raise Reject("encrypted-image-size-not-block-multiple", {"image": i, "size": size})
                plain = _modes.cbc_decrypt(dek, iv[16:32], stored) if size else b""
                if hashlib.sha256(plain).digest() != bytes(iv):
                    raise Reject("encrypted-image-iv-is-not-sha256-of-plaintext", {"image": i, "iv": iv.hex(), "sha256": hashlib.sha256(plain).hexdigest()})
                e["plain"] = plain
        elif any(iv):
            e["iv_nonzero_on_plain_image"] = True
        images.append(e)
    c["images"] = images

    # ---- signature block
    sb = off + sb_off
    tag, sb_len, sb_ver = head_vlt(data, sb, "signature block")
    if tag != TAG_SIGNATURE_BLOCK:
        raise Reject("signature-block-tag", f"{tag:#x} at {sb:#x}")
    if sb_ver != (0 if cver == 1 else 1):
        raise Reject("signature-block-version", sb_ver)
    _need(data, sb, 16, "signature block")
    cert_off, srk_off, sig_off, blob_off, key_id = struct.unpack_from("<HHHHL", data, sb + 4)
    if length != sb_off + sb_len:
        raise Reject("container-length", {"length": length, "expected": sb_off + sb_len})
    c.update({"sigblk_length": sb_len, "cert_off": cert_off, "srk_off": srk_off, "sig_off": sig_off, "blob_off": blob_off,
              "key_identifier": key_id})
    cursor = 16  # sub-blocks follow the 16 byte header in the order SRK, signature, certificate, blob
    c["srk"] = c["signature"] = c["certificate"] = c["blob"] = None
    c["signatures"] = []

    def place(name: str, o: int) -> None:
        nonlocal cursor
        if o < cursor:
            raise Reject("signature-block-sub-block-overlap", {"block": name, "offset": o, "min": cursor})
        if cver == 1 and o % 8:
            raise Reject("signature-block-sub-block-alignment", {"block": name, "offset": o})
        if cver == 2 and o != cursor:
            raise Reject("signature-block-sub-block-not-packed", {"block": name, "offset": o, "expected": cursor})

    if srk_off:
        place("srk", srk_off)
        c["srk"] = parse_srk_assets(data, sb + srk_off, cver, c["used_srk_id"])
        cursor = srk_off + c["srk"]["length"]
    if sig_off:
        place("signature", sig_off)
        s = parse_signature(data, sb + sig_off)
        c["signatures"].append(s)
        cursor = sig_off + s["length"]
        if c["srk"] and len(c["srk"]["tables"]) == 2:
            s2 = parse_signature(data, sb + cursor)
            c["signatures"].append(s2)
            cursor += s2["length"]
        c["signature"] = c["signatures"][0]
    if cert_off:
        place("certificate", cert_off)
        c["certificate"] = parse_certificate(data, sb + cert_off)
        cursor = cert_off + c["certificate"]["length"]
    if blob_off:
        place("blob", blob_off)
        c["blob"] = parse_blob(data, sb + blob_off)
        cursor = blob_off + c["blob"]["length"]
    if cursor > sb_len:
        raise Reject("signature-block-length", {"length": sb_len, "content_end": cursor})
    if cver == 2 and cursor != sb_len:
        raise Reject("signature-block-length", {"length": sb_len, "content_end": cursor})
    if cver == 1 and sb_len - cursor >= 8:
        raise Reject("signature-block-length", {"length": sb_len, "content_end": cursor})

    for e in images:
        if e["encrypted"] and c["srk_set"] == "oem" and c["blob"] is None:
            raise Reject("encrypted-image-without-blob", e["index"])

    # ---- authenticity
    c["signed"] = None
    c["signature_ok"] = None
    c["signed_by"] = None
    c["srk_hashes"] = [t["srk_hash"] for t in c["srk"]["tables"]] if c["srk"] else []
    if c["srk_set"] == "none":
        if sig_off or srk_off:
            c["unsigned_with_signature_material"] = True
        return c
    if not srk_off or not sig_off:
        raise Reject("signed-container-without-srk-or-signature", {"srk_off": srk_off, "sig_off": sig_off})
    if (c["revoke_mask"] >> c["used_srk_id"]) & 1:
        raise Reject("used-srk-is-revoked", {"used": c["used_srk_id"], "mask": c["revoke_mask"]})
    c["signed"] = bytes(data[off:sb + sig_off])
    if not check_signature:
        return c
    cert = c["certificate"]
    verify_keys = c["srk"]["keys"]
    c["signed_by"] = "srk"
    unsupported = []
    if cert is not None:
        # the certificate itself is signed by the used SRK (of each table)
        for k, (srk_key, sig) in enumerate(zip(c["srk"]["keys"], cert["signatures"])):
            try:
                if not verify_signature(srk_key, cert["signed"], sig["data"]):
                    raise Reject("certificate-signature-does-not-verify-under-used-srk", {"table": k, "used_srk_id": c["used_srk_id"]})
            except Unsupported as u:
                unsupported.append(f"certificate signature {k}: {u}")
        if len(cert["keys"]) < len(c["srk"]["keys"]):
            raise Reject("certificate-key-count", {"keys": len(cert["keys"]), "tables": len(c["srk"]["keys"])})
        if cert["permissions"] & 0x01:
            verify_keys = cert["keys"]
            c["signed_by"] = "certificate"
    oks = []
    for k, (key, sig) in enumerate(zip(verify_keys, c["signatures"])):
        try:
            ok = verify_signature(key, c["signed"], sig["data"])
        except Unsupported as u:
            unsupported.append(f"container signature {k}: {u}")
            continue
        oks.append(ok)
        if not ok:
            raise Reject("container-signature-does-not-verify", {"table": k, "signed_by": c["signed_by"], "used_srk_id": c["used_srk_id"],
                                                                  "signed_len": len(c["signed"])})
    c["signature_ok"] = bool(oks) and all(oks)
    c["unsupported"] = unsupported
    return c


def overlaps(intervals: list[tuple[int, int, str]]) -> list[tuple[str, str]]:
    """Pairs of names whose half-open intervals [start, end) intersect (empty intervals never do)."""
    out = []
    iv = sorted((s, e, n) for s, e, n in intervals if e > s)
    for i, (s, e, n) in enumerate(iv):
        for s2, e2, n2 in iv[i + 1:]:
            if s2 >= e:
                break
            out.append((n, n2))
    return out


def walk_image(data: bytes, offsets: list[int], count: Optional[int] = None, deks: Optional[dict] = None,
               check_signature: bool = True) -> dict:
    """Walk an AHAB image whose containers must sit at the fixed ``offsets`` (from the caller).

    ``count`` = number of containers expected (None: as many consecutive valid headers as found, at least one);
    ``deks`` = {container index: DEK bytes}.  Raises Reject; returns {"containers": [...], "intervals": [...]}.
    """
    data = bytes(data)
    containers = []
    for i, off in enumerate(offsets):
        if count is not None and i >= count:
            break
        if count is None and i > 0:
            if off + 4 > len(data) or data[off + 3] != TAG_CONTAINER or data[off] not in (0, 2):
                break
        try:
            c = walk_container(data, off, dek=(deks or {}).get(i), check_signature=check_signature)
        except Reject as e:
            e.container = i
            raise
        c["index"] = i
        containers.append(c)
    if not containers:
        raise Reject("no-container", None)
    if len({c["container_version"] for c in containers}) != 1:
        raise Reject("mixed-container-versions", [c["container_version"] for c in containers])
    intervals = []
    for c in containers:
        intervals.append((c["off"], c["off"] + c["length"], f"container{c['index']}"))
        for e in c["images"]:
            intervals.append((e["abs_offset"], e["abs_offset"] + e["size"], f"container{c['index']}/image{e['index']}"))
    ov = overlaps(intervals)
    if ov:
        raise Reject("overlap", ov[:4])
    return {"containers": containers, "intervals": intervals}


_DIGEST_LEN = {"sha256": 32, "sha384": 48, "sha512": 64, "sha3_256": 32, "sha3_384": 48, "sha3_512": 64,
               "shake_128_256": 32, "shake_256_512": 64}


def _srk_record_regions(rec: dict, prefix: str, cver: int) -> list[tuple[int, int, str]]:
    r = rec["off"]
    out = [(r, r + 1, prefix + ".tag"), (r + 1, r + 3, prefix + ".length"), (r + 3, r + 4, prefix + ".sign-algorithm"),
           (r + 4, r + 5, prefix + ".hash-algorithm"), (r + 5, r + 6, prefix + ".key-size"), (r + 6, r + 7, prefix + ".reserved"),
           (r + 7, r + 8, prefix + ".flags"), (r + 8, r + 12, prefix + ".parameter-lengths")]
    if cver == 1:
        out.append((r + 12, r + rec["length"], prefix + ".key"))
    else:
        out.append((r + 12, r + rec["length"], prefix + ".srk-data-hash"))
    return out


def _srk_data_regions(sd: dict, prefix: str) -> list[tuple[int, int, str]]:
    o = sd["off"]
    return [(o, o + 4, prefix + ".header"), (o + 4, o + 5, prefix + ".record-number"), (o + 5, o + 8, prefix + ".reserved"),
            (o + 8, o + sd["length"], prefix + ".key")]


def authenticated_regions(c: dict) -> list[tuple[int, int, str]]:
    """Absolute byte ranges ``(start, end, name)`` of one walked container whose corruption the boot ROM
    must notice: the bytes covered by the container signature, the signature data itself, the
    certificate (signed by the SRK) and its signature data, and the stored bytes of every image
    (covered by the hash in the - signed - image array).  For an unsigned container only the image
    bytes and the digest bytes of the image array count.  Not included: the 8 byte signature header,
    the blob, file padding."""
    out: list[tuple[int, int, str]] = []
    off = c["off"]
    signed = c["srk_set"] != "none" and c.get("signed") is not None
    cver = c["container_version"]
    if signed:
        out += [(off, off + 1, "container-header.version"), (off + 1, off + 3, "container-header.length"),
                (off + 3, off + 4, "container-header.tag"), (off + 4, off + 8, "container-header.flags"),
                (off + 8, off + 10, "container-header.sw-version"), (off + 10, off + 11, "container-header.fuse-version"),
                (off + 11, off + 12, "container-header.image-count"), (off + 12, off + 14, "container-header.signature-block-offset"),
                (off + 14, off + 16, "container-header.reserved")]
    for e in c["images"]:
        eo = e["entry_off"]
        dlen = _DIGEST_LEN.get(e.get("hash_name", ""), 0)
        if signed:
            out += [(eo, eo + 4, "image-entry.offset"), (eo + 4, eo + 8, "image-entry.size"), (eo + 8, eo + 16, "image-entry.load-address"),
                    (eo + 16, eo + 24, "image-entry.entry-point"), (eo + 24, eo + 28, "image-entry.flags"), (eo + 28, eo + 32, "image-entry.meta-data")]
            if dlen:
                out.append((eo + 32, eo + 32 + dlen, "image-entry.hash"))
                if dlen < 64:
                    out.append((eo + 32 + dlen, eo + 96, "image-entry.hash-padding"))
            out.append((eo + 96, eo + 128, "image-entry.iv" if e["encrypted"] else "image-entry.iv-of-plain-image"))
        elif dlen and e.get("hash_present"):
            out.append((eo + 32, eo + 32 + dlen, "image-entry.hash"))
        if e["size"] and dlen and e.get("hash_present"):
            out.append((e["abs_offset"], e["abs_offset"] + e["size"], "image-data"))
    if not signed:
        return out
    sb = off + c["sigblk_offset"]
    out += [(sb, sb + 1, "signature-block.version"), (sb + 1, sb + 3, "signature-block.length"), (sb + 3, sb + 4, "signature-block.tag"),
            (sb + 4, sb + 12, "signature-block.offsets"), (sb + 12, sb + 16, "signature-block.key-identifier")]
    srk = c["srk"]
    if cver == 1:
        t = srk["tables"][0]
        out += [(t["off"], t["off"] + 1, "srk-table.tag"), (t["off"] + 1, t["off"] + 3, "srk-table.length"), (t["off"] + 3, t["off"] + 4, "srk-table.version")]
        for j, rec in enumerate(t["records"]):
            out += _srk_record_regions(rec, "srk-record", 1)
    else:
        a = srk["off"]
        out += [(a, a + 4, "srk-table-array.header"), (a + 4, a + 5, "srk-table-array.count"), (a + 5, a + 8, "srk-table-array.reserved")]
        for t in srk["tables"]:
            out += [(t["off"], t["off"] + 1, "srk-table.tag"), (t["off"] + 1, t["off"] + 3, "srk-table.length"), (t["off"] + 3, t["off"] + 4, "srk-table.version")]
            for rec in t["records"]:
                out += _srk_record_regions(rec, "srk-record", 2)
            out += _srk_data_regions(t["srk_data"], "srk-data")
    sig0 = c["signatures"][0]
    if srk["end"] < sig0["off"]:
        out.append((srk["end"], sig0["off"], "signature-block.padding"))
    for s in c["signatures"]:
        out.append((s["off"] + 8, s["off"] + s["length"], "signature.data"))
    cert = c["certificate"]
    if cert is not None:
        o = cert["off"]
        out += [(o, o + 4, "certificate.header"), (o + 4, o + 6, "certificate.signature-offset"), (o + 6, o + 8, "certificate.permissions"),
                (o + 8, o + 20, "certificate.permission-data"), (o + 20, o + 21, "certificate.fuse-version"), (o + 21, o + 24, "certificate.reserved"),
                (o + 24, o + 40, "certificate.uuid")]
        for key in cert["keys"]:
            out += _srk_record_regions(key, "certificate.srk-record", 2)
        for key in cert["keys"]:
            pos, sd_len = key["srk_data_off"], key["srk_data_len"]
            out += [(pos, pos + 4, "certificate.srk-data.header"), (pos + 4, pos + 5, "certificate.srk-data.record-number"),
                    (pos + 5, pos + 8, "certificate.srk-data.reserved"), (pos + 8, pos + sd_len, "certificate.srk-data.key")]
        for s in cert["signatures"]:
            out.append((s["off"] + 8, s["off"] + s["length"], "certificate.signature.data"))
    return [(s, e, n) for s, e, n in out if e > s]


def header_length(container_version: int, n_images: int, srk_kind: Optional[str], cert_kind: Optional[str] = None,
                  blob_bits: Optional[int] = None, srk2_kind: Optional[str] = None) -> int:
    """Length of a container header (header + image array + signature block) computed from the format alone.

    Used by the harness to confirm that an "Image overlapping" refusal of SPSDK is justified (an RSA SRK
    table does not fit a 0x400 container slot)."""
    def a8(x: int) -> int:
        return (x + 7) & ~7

    def sig_len(kind: str) -> int:
        _k, l1, _l2 = next(v for v in KEY_TYPES.values() if v[0] == kind)
        return 8 + (l1 if kind.startswith("rsa") else 2 * l1)

    def key_len(kind: str) -> int:
        _k, l1, l2 = next(v for v in KEY_TYPES.values() if v[0] == kind)
        return l1 + l2

    pos = 16
    if container_version == 1:
        if srk_kind:
            pos = a8(pos) + 4 + 4 * (12 + key_len(srk_kind))
            pos = a8(pos) + sig_len(srk_kind)
        if cert_kind:
            pos = a8(pos) + 40 + 76 + 8 + key_len(cert_kind) + sig_len(srk_kind or cert_kind)
        if blob_bits:
            pos = a8(pos) + 8 + blob_bits // 8 + 48
    else:
        if srk_kind:
            pos += 8 + 4 + 4 * 76 + 8 + key_len(srk_kind)
            if srk2_kind:  # second table of the array (+ its SRK data) and the second container signature
                pos += 4 + 4 * 76 + 8 + key_len(srk2_kind)
            pos += sig_len(srk_kind)
            if srk2_kind:
                pos += sig_len(srk2_kind)
        if cert_kind:
            pos += 40 + 76 + 8 + key_len(cert_kind) + sig_len(srk_kind or cert_kind)
        if blob_bits:
            pos += 8 + blob_bits // 8 + 48
    return HEADER_SIZE + n_images * IAE_SIZE + pos


def selftest() -> int:
    """Internal consistency checks that need no external data (the sample binaries are walked by the property)."""
    n = 0
    assert overlaps([(0, 4, "a"), (4, 8, "b"), (8, 8, "c")]) == []
    n += 1
    assert overlaps([(0, 5, "a"), (4, 8, "b")]) == [("a", "b")]
    n += 1
    assert head_vlt(bytes([0, 0x10, 0x02, 0x87]), 0, "x") == (0x87, 0x210, 0)
    n += 1
    assert head_tlv(bytes([0xD7, 0x34, 0x01, 0x42]), 0, "x") == (0xD7, 0x134, 0x42)
    n += 1
    # P-256 table 4+4*76 = 308 -> signature at a8(16+308)=328, length 72 -> 400 ; header 16+128
    assert header_length(1, 1, "p256") == 16 + 128 + 400
    n += 1
    assert header_length(1, 1, None) == 16 + 128 + 16
    n += 1
    try:
        walk_container(bytes(64), 0)
        raise AssertionError("all-zero data accepted")
    except Reject:
        n += 1
    return n
