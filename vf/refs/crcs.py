"""CRC reference routines (Rocksoft model), standard library only.

``crc`` is the bit-by-bit generic definition.  The named variants have a
table-driven fast path (``fast=True`` default) that ``selftest`` compares with
the generic routine; pass ``fast=False`` to force the bitwise definition.
"""

__all__ = ["crc", "crc32_mpeg2", "crc32", "crc16_xmodem", "selftest"]


def _reflect(value, width):
    r = 0
    for _ in range(width):
        r = (r << 1) | (value & 1)
        value >>= 1
    return r


def crc(data, width, poly, init, refin, refout, xorout):
    """Generic bit-by-bit CRC following the Rocksoft parameter model."""
    if width < 1:
        raise ValueError("crc: width must be >= 1")
    mask = (1 << width) - 1
    top = 1 << (width - 1)
    reg = init & mask
    for byte in bytes(data):
        if refin:
            byte = _reflect(byte, 8)
        for bit in range(7, -1, -1):
            inbit = (byte >> bit) & 1
            msb = 1 if reg & top else 0
            reg = (reg << 1) & mask
            if msb ^ inbit:
                reg ^= poly
    if refout:
        reg = _reflect(reg, width)
    return (reg ^ xorout) & mask


# ---- table-driven fast paths ----------------------------------------------

def _msb_table(width, poly):
    mask = (1 << width) - 1
    top = 1 << (width - 1)
    table = []
    for i in range(256):
        r = i << (width - 8)
        for _ in range(8):
            r = ((r << 1) ^ poly) & mask if r & top else (r << 1) & mask
        table.append(r)
    return table


def _lsb_table(width, poly):
    rpoly = _reflect(poly, width)
    table = []
    for i in range(256):
        r = i
        for _ in range(8):
            r = (r >> 1) ^ rpoly if r & 1 else r >> 1
        table.append(r)
    return table


_T32_MSB = _msb_table(32, 0x04C11DB7)
_T32_LSB = _lsb_table(32, 0x04C11DB7)
_T16_MSB = _msb_table(16, 0x1021)


def crc32_mpeg2(data, init=0xFFFFFFFF, fast=True):
    """CRC-32/MPEG-2: poly 0x04C11DB7, no reflection, xorout 0."""
    if not fast:
        return crc(data, 32, 0x04C11DB7, init, False, False, 0)
    reg = init & 0xFFFFFFFF
    t = _T32_MSB
    for b in bytes(data):
        reg = ((reg << 8) & 0xFFFFFFFF) ^ t[(reg >> 24) ^ b]
    return reg


def crc32(data, fast=True):
    """CRC-32 (ISO-HDLC, zlib compatible): reflected, init/xorout 0xFFFFFFFF."""
    if not fast:
        return crc(data, 32, 0x04C11DB7, 0xFFFFFFFF, True, True, 0xFFFFFFFF)
    reg = 0xFFFFFFFF
    t = _T32_LSB
    for b in bytes(data):
        reg = (reg >> 8) ^ t[(reg ^ b) & 0xFF]
    return reg ^ 0xFFFFFFFF


def crc16_xmodem(data, init=0, fast=True):
    """CRC-16/XMODEM: poly 0x1021, no reflection, xorout 0."""
    if not fast:
        return crc(data, 16, 0x1021, init, False, False, 0)
    reg = init & 0xFFFF
    t = _T16_MSB
    for b in bytes(data):
        reg = ((reg << 8) & 0xFFFF) ^ t[(reg >> 8) ^ b]
    return reg


# -------------------------------------------------------------- selftest ---

_CHECK = b"123456789"
_CATALOGUE = [
    # (name, width, poly, init, refin, refout, xorout, check)  -- reveng catalogue
    ("CRC-32/MPEG-2", 32, 0x04C11DB7, 0xFFFFFFFF, False, False, 0x00000000, 0x0376E6E7),
    ("CRC-32/ISO-HDLC", 32, 0x04C11DB7, 0xFFFFFFFF, True, True, 0xFFFFFFFF, 0xCBF43926),
    ("CRC-16/XMODEM", 16, 0x1021, 0x0000, False, False, 0x0000, 0x31C3),
    ("CRC-32/BZIP2", 32, 0x04C11DB7, 0xFFFFFFFF, False, False, 0xFFFFFFFF, 0xFC891918),
    ("CRC-32/ISCSI", 32, 0x1EDC6F41, 0xFFFFFFFF, True, True, 0xFFFFFFFF, 0xE3069283),
    ("CRC-16/IBM-3740", 16, 0x1021, 0xFFFF, False, False, 0x0000, 0x29B1),
    ("CRC-16/KERMIT", 16, 0x1021, 0x0000, True, True, 0x0000, 0x2189),
    ("CRC-16/ARC", 16, 0x8005, 0x0000, True, True, 0x0000, 0xBB3D),
    ("CRC-8/SMBUS", 8, 0x07, 0x00, False, False, 0x00, 0xF4),
    ("CRC-5/USB", 5, 0x05, 0x1F, True, True, 0x1F, 0x19),
]


def selftest():
    """Run known-answer tests; return the number of assertions passed."""
    import zlib  # stdlib, only used as a second opinion here

    n = 0
    for name, width, poly, init, refin, refout, xorout, check in _CATALOGUE:
        got = crc(_CHECK, width, poly, init, refin, refout, xorout)
        assert got == check, "%s check value: got %#x want %#x" % (name, got, check)
        n += 1
    assert crc32_mpeg2(_CHECK) == 0x0376E6E7, "crc32_mpeg2 fast check value"
    assert crc32(_CHECK) == 0xCBF43926, "crc32 fast check value"
    assert crc16_xmodem(_CHECK) == 0x31C3, "crc16_xmodem fast check value"
    n += 3
    # deterministic pseudo-random data (LCG), fast path vs bitwise vs zlib
    x = 12345
    buf = bytearray()
    for _ in range(700):
        x = (x * 1103515245 + 12345) & 0x7FFFFFFF
        buf.append((x >> 16) & 0xFF)
    for ln in (0, 1, 2, 3, 4, 5, 7, 8, 15, 16, 17, 63, 64, 255, 256, 257, 700):
        d = bytes(buf[:ln])
        assert crc32_mpeg2(d) == crc32_mpeg2(d, fast=False), "crc32_mpeg2 fast/bitwise len %d" % ln
        assert crc32_mpeg2(d, 0x1234) == crc32_mpeg2(d, 0x1234, fast=False), "crc32_mpeg2 init len %d" % ln
        assert crc32(d) == crc32(d, fast=False) == zlib.crc32(d), "crc32 fast/bitwise/zlib len %d" % ln
        assert crc16_xmodem(d) == crc16_xmodem(d, fast=False), "crc16_xmodem fast/bitwise len %d" % ln
        assert crc16_xmodem(d, 0xFFFF) == crc16_xmodem(d, 0xFFFF, fast=False), "crc16_xmodem init len %d" % ln
        n += 5
    # chaining through the init argument
    d = bytes(buf)
    assert crc32_mpeg2(d[300:], crc32_mpeg2(d[:300])) == crc32_mpeg2(d), "crc32_mpeg2 chaining"
    assert crc16_xmodem(d[300:], crc16_xmodem(d[:300])) == crc16_xmodem(d), "crc16_xmodem chaining"
    n += 2
    return n


if __name__ == "__main__":
    print("crcs selftest:", selftest())
