"""Run the known-answer self tests of every reference module.

``python -m vf.refs.selftest`` (cwd /verif) prints ``{module: passed}`` and
exits 0, or prints the failing vector and exits 1.
"""

import importlib
import sys

MODULES = ("aes", "modes", "sm4", "kdf", "crcs", "rsa", "ecdsa")


def run_all():
    """Return ``{module_name: assertions_passed}``; AssertionError names the failing vector."""
    results = {}
    for name in MODULES:
        mod = importlib.import_module(__package__ + "." + name if __package__ else name)
        try:
            results[name] = mod.selftest()
        except AssertionError as exc:
            raise AssertionError("%s: %s" % (name, exc)) from exc
    return results


def main():
    try:
        results = run_all()
    except AssertionError as exc:
        print("SELFTEST FAILED: %s" % exc)
        return 1
    print(results)
    return 0


if __name__ == "__main__":
    sys.exit(main())
