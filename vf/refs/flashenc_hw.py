"""Hardware models of the on-the-fly flash decryption engines OTFAD, IEE and BEE.

Independent oracle code for property C13: imports nothing from ``spsdk``; the only building
blocks are the pure-Python primitives in :mod:`vf.refs.aes`, :mod:`vf.refs.modes` and
:mod:`vf.refs.crcs`.

Every model works like the silicon does at boot:

1. it is given the *exported key-blob bytes* (what sits in flash) together with the secrets the
   device holds in fuses (KEK + scramble parameters / IBKEK1+2 / BEE user key) and **unwraps**
   them into contexts (key, counter, address range, flags, CRC);
2. it then *reads* an address window of the flash: every 16-byte block is looked up by its
   **absolute** address in the contexts and is decrypted, or passed through unchanged when no
   valid context with decryption enabled covers it.

``*_read`` returns ``(data, owners)``; ``owners[i]`` is the index of the context that covered
block ``i`` of the window (``-1`` = no context, the block is returned as stored), so that a
caller can tell *why* a byte differs.

Formats (see DESIGN.md, Appendix A "Flash encryption"):

OTFAD  key blob = 64 bytes: RFC 3394 wrap (48 bytes) of the 40-byte record
       ``key[16] | ctr[8] | srtaddr LE32 | endaddr+flags LE32 | zero_fill[4] | CRC32-MPEG2(first 32) LE32``
       padded with zeros.  Optional per-family transport swap: every ``byte_swap_cnt``-byte group of
       the 48 wrapped bytes is byte-reversed.  Optional KEK scrambling for context ``i``: 32-bit word
       ``(align >> 2i) & 3`` of the KEK is XORed with the scramble key (little endian; bit-reversed
       on some families).  Context hit: VLD and ``srtaddr[31:10] <= A[31:10] <= endaddr[31:10]``;
       keystream of the 16-byte block at A: ``AES(key, CTR0 | CTR1 | CTR0^CTR1 | BE32(A))`` when ADE.
IEE    key blob table = AES-XTS(IBKEK1' | IBKEK2', tweak = LE128(table address >> 12)) of 96-byte
       records ``'BEEI' tag LE32 | version | lock, key size, mode, 0 | page offset | key1[32] | key2[32] |
       start | end | reserved | CRC32-MPEG2(first 92)`` (keys' = byte-reversed in every 32-bit word).
       Region ``[start, end)``.  XTS: data unit = 4 KiB sector, tweak = LE128(A >> 12), keys word-reversed;
       CTR with address binding: counter block ``nonce[0:12] | BE32(nonce[12:16] + (A >> 4))``.
BEE    header = 512 bytes: EKIB = AES-ECB(user key, kib key | kib iv) at 0; at 0x80 the PRDB (256 bytes)
       AES-CBC(kib key, kib iv): ``'TAG_' 'EHDR' version fac_count start end mode lock counter[16 reversed]
       reserved[32]`` then FAC records of 32 bytes ``start end level reserved[20]``.  A block at A inside a
       FAC region ``[start, end)`` is AES-CTR under the user key with counter block
       ``counter[0:12] | BE32(counter[12:16] + (A >> 4))`` (mode 1) or AES-ECB (mode 0).
"""

from collections import namedtuple
import struct

from .aes import get_aes
from . import crcs, modes

__all__ = [
    "Reject",
    "OtfadContext", "otfad_context_kek", "otfad_unwrap_blob", "otfad_unwrap_table", "otfad_read",
    "IeeContext", "iee_unwrap_table", "iee_read",
    "BeeContext", "bee_unwrap_header", "bee_read",
    "selftest_synthetic",
]

BLOCK = 16


class Reject(Exception):
    """The model cannot accept the artifact (it would not work on the device)."""


def _xor(a, b):
    n = len(a)
    return (int.from_bytes(a, "big") ^ int.from_bytes(b, "big")).to_bytes(n, "big")


def _rev_words(b):
    """Reverse the bytes inside every 32-bit word."""
    b = bytes(b)
    if len(b) % 4:
        raise Reject("key length %d is not a multiple of 4" % len(b))
    return b"".join(b[i:i + 4][::-1] for i in range(0, len(b), 4))


def _bitrev32(v):
    r = 0
    for _ in range(32):
        r = (r << 1) | (v & 1)
        v >>= 1
    return r


def _check_window(base, stored):
    if base % BLOCK:
        raise Reject("window base 0x%x is not 16-byte aligned" % base)
    if base < 0 or base + len(stored) > 1 << 32:
        raise Reject("window outside the 32-bit address space")


# ======================================================================================= OTFAD

OTFAD_UNIT = 0x400
OTFAD_VLD, OTFAD_ADE, OTFAD_RO = 1, 2, 4

_OtfadContext = namedtuple(
    "OtfadContext", "index key ctr srtaddr endword zero_fill crc crc_ok filler_ok"
)


class OtfadContext(_OtfadContext):
    """One unwrapped OTFAD context (what the ROM loads into CTXn_KEY/CTR/RGD_W0/W1)."""

    __slots__ = ()

    @property
    def flags(self):
        return self.endword & 7

    @property
    def vld(self):
        return bool(self.endword & OTFAD_VLD)

    @property
    def ade(self):
        return bool(self.endword & OTFAD_ADE)

    @property
    def ro(self):
        return bool(self.endword & OTFAD_RO)

    @property
    def start(self):
        """First address of the region (SRTADDR[31:10] << 10)."""
        return self.srtaddr & ~(OTFAD_UNIT - 1) & 0xFFFFFFFF

    @property
    def end(self):
        """Last address of the region (ENDADDR[31:10] << 10 | 0x3FF)."""
        return self.endword | (OTFAD_UNIT - 1)

    def hit(self, addr):
        return self.vld and (self.start >> 10) <= (addr >> 10) <= (self.end >> 10)


def otfad_context_kek(kek, index, scramble_mask=None, scramble_align=None, reversed_mask=False):
    """KEK the hardware uses to unwrap context ``index`` (KEK scrambling applied)."""
    kek = bytes(kek)
    if len(kek) != 16:
        raise Reject("OTFAD KEK must be 16 bytes")
    if scramble_mask is None or scramble_align is None:
        return kek
    mask = _bitrev32(scramble_mask & 0xFFFFFFFF) if reversed_mask else scramble_mask & 0xFFFFFFFF
    word = (scramble_align >> (2 * index)) & 3
    out = bytearray(kek)
    out[4 * word:4 * word + 4] = _xor(out[4 * word:4 * word + 4], mask.to_bytes(4, "little"))
    return bytes(out)


def otfad_unwrap_blob(blob64, kek, byte_swap_cnt=0, index=0):
    """Unwrap one 64-byte key blob with the (already unscrambled) KEK."""
    blob64 = bytes(blob64)
    if len(blob64) != 64:
        raise Reject("OTFAD key blob must be 64 bytes, got %d" % len(blob64))
    wrapped = blob64[:48]
    if byte_swap_cnt:
        if 48 % byte_swap_cnt:
            raise Reject("byte swap group %d does not divide 48" % byte_swap_cnt)
        wrapped = b"".join(wrapped[i:i + byte_swap_cnt][::-1] for i in range(0, 48, byte_swap_cnt))
    try:
        plain = modes.key_unwrap(kek, wrapped)
    except ValueError as e:
        raise Reject("OTFAD key blob %d does not unwrap with the KEK: %s" % (index, e))
    key, ctr = plain[:16], plain[16:24]
    srtaddr, endword = struct.unpack("<II", plain[24:32])
    zero_fill = plain[32:36]
    crc = struct.unpack("<I", plain[36:40])[0]
    return OtfadContext(index, key, ctr, srtaddr, endword, zero_fill, crc,
                        crc == crcs.crc32_mpeg2(plain[:32]), blob64[48:] == bytes(16))


def otfad_unwrap_table(table, kek, count=4, scramble_mask=None, scramble_align=None,
                       reversed_mask=False, byte_swap_cnt=0):
    """Unwrap ``count`` consecutive key blobs from the start of ``table``."""
    table = bytes(table)
    if len(table) < 64 * count:
        raise Reject("OTFAD table too short: %d bytes for %d blobs" % (len(table), count))
    out = []
    for i in range(count):
        k = otfad_context_kek(kek, i, scramble_mask, scramble_align, reversed_mask)
        out.append(otfad_unwrap_blob(table[64 * i:64 * i + 64], k, byte_swap_cnt, i))
    return out


def _otfad_keystream(ctx, addr, byte_swap):
    c = ctx.ctr
    block = c[:4] + c[4:8] + _xor(c[:4], c[4:8]) + (addr & 0xFFFFFFF0).to_bytes(4, "big")
    ks = get_aes(ctx.key).encrypt_block(block)
    if byte_swap:
        ks = ks[7::-1] + ks[15:7:-1]
    return ks


def otfad_read(contexts, base, stored, byte_swap=False):
    """What the core sees when it reads ``stored`` (flash content at ``base``) through OTFAD."""
    stored = bytes(stored)
    _check_window(base, stored)
    out, owners = [], []
    for off in range(0, len(stored), BLOCK):
        addr = base + off
        blk = stored[off:off + BLOCK]
        hits = [c for c in contexts if c.hit(addr)]
        if len(hits) > 1:
            raise Reject("address 0x%x hits OTFAD contexts %s" % (addr, [c.index for c in hits]))
        if hits and hits[0].ade:
            ks = _otfad_keystream(hits[0], addr, byte_swap)
            out.append(_xor(blk, ks[:len(blk)]))
            owners.append(hits[0].index)
        else:
            out.append(blk)
            owners.append(-1)
    return b"".join(out), owners


# ========================================================================================= IEE

IEE_TAG = 0x49454542
IEE_VERSION = 0x56010000
IEE_SECTOR = 0x1000
IEE_BLOB = 96
IEE_MODE_BYPASS, IEE_MODE_XTS, IEE_MODE_CTR_ADDR = 0x6A, 0xA6, 0x66
IEE_MODE_CTR_NOADDR, IEE_MODE_CTR_KEYSTREAM = 0xAA, 0x19
IEE_KEY_128_256, IEE_KEY_256_512 = 0x5A, 0xA5
IEE_LOCK, IEE_UNLOCK = 0x95, 0x59

_IeeContext = namedtuple(
    "IeeContext",
    "index tag version lock key_size mode attr_reserved page_offset key1 key2 start end reserved crc crc_ok",
)


class IeeContext(_IeeContext):
    """One unwrapped IEE key blob.  key1/key2 are the raw 32-byte fields."""

    __slots__ = ()

    @property
    def judged(self):
        """Modes whose data path is defined by the property (the other CTR variants are not)."""
        return self.mode in (IEE_MODE_BYPASS, IEE_MODE_XTS, IEE_MODE_CTR_ADDR)

    @property
    def key_len(self):
        if self.key_size == IEE_KEY_128_256:
            return 16
        if self.key_size == IEE_KEY_256_512:
            return 32
        raise Reject("IEE key blob %d: unknown key size attribute 0x%02x" % (self.index, self.key_size))

    @property
    def xts_key(self):
        n = self.key_len
        return _rev_words(self.key1[:n]) + _rev_words(self.key2[:n])

    @property
    def ctr_key(self):
        return _rev_words(self.key1[:self.key_len])

    @property
    def ctr_nonce(self):
        return _rev_words(self.key2[:16])

    def hit(self, addr):
        return self.start <= addr < self.end


def _le128(v):
    return v.to_bytes(16, "little")


def _xts_block_tweak(k2, sector, j):
    t = int.from_bytes(get_aes(k2).encrypt_block(_le128(sector)), "little")
    for _ in range(j):
        t <<= 1
        if t >> 128:
            t = (t & ((1 << 128) - 1)) ^ 0x87
    return t


def iee_unwrap_table(table, ibkek1, ibkek2, address):
    """Decrypt the key blob table the way the ROM does and parse the records it contains."""
    table = bytes(table)
    ibkek1, ibkek2 = bytes(ibkek1), bytes(ibkek2)
    if len(ibkek1) != 32 or len(ibkek2) != 32:
        raise Reject("IBKEK1/2 must be 32 bytes each")
    if len(table) < IEE_BLOB or len(table) % BLOCK:
        raise Reject("IEE key blob table of %d bytes" % len(table))
    plain = modes.xts_decrypt(_rev_words(ibkek1) + _rev_words(ibkek2), _le128(address >> 12), table)
    out = []
    for i in range(len(plain) // IEE_BLOB):
        rec = plain[IEE_BLOB * i:IEE_BLOB * i + IEE_BLOB]
        if rec == bytes(IEE_BLOB):
            continue  # unused slot
        tag, version, lock, key_size, mode, ares, page_offset = struct.unpack("<IIBBBBI", rec[:16])
        if tag != IEE_TAG:
            raise Reject("IEE key blob %d: tag 0x%08x after unwrapping (wrong IBKEK / tweak / layout)" % (i, tag))
        start, end, reserved, crc = struct.unpack("<IIII", rec[80:96])
        out.append(IeeContext(i, tag, version, lock, key_size, mode, ares, page_offset, rec[16:48], rec[48:80],
                              start, end, reserved, crc, crc == crcs.crc32_mpeg2(rec[:92])))
    return out, plain


def iee_read(contexts, base, stored):
    """What the core sees when it reads ``stored`` (flash content at ``base``) through IEE.

    Blocks owned by a context whose mode is not judged (CTR without address binding, keystream
    only, unknown) are returned as stored; the caller must not compare them."""
    stored = bytes(stored)
    _check_window(base, stored)
    if len(stored) % BLOCK:
        raise Reject("IEE window length %d is not a multiple of 16" % len(stored))
    out, owners = [], []
    tweak_cache = {}
    for off in range(0, len(stored), BLOCK):
        addr = base + off
        blk = stored[off:off + BLOCK]
        hits = [c for c in contexts if c.hit(addr)]
        if len(hits) > 1:
            raise Reject("address 0x%x hits IEE contexts %s" % (addr, [c.index for c in hits]))
        if not hits:
            out.append(blk)
            owners.append(-1)
            continue
        c = hits[0]
        owners.append(c.index)
        if c.mode == IEE_MODE_XTS:
            key = c.xts_key
            h = len(key) // 2
            sector, j = addr >> 12, (addr & (IEE_SECTOR - 1)) >> 4
            ck = (c.index, sector)
            if ck in tweak_cache and tweak_cache[ck][0] == j - 1:
                t = tweak_cache[ck][1] << 1
                if t >> 128:
                    t = (t & ((1 << 128) - 1)) ^ 0x87
            else:
                t = _xts_block_tweak(key[h:], sector, j)
            tweak_cache[ck] = (j, t)
            tb = t.to_bytes(16, "little")
            out.append(_xor(get_aes(key[:h]).decrypt_block(_xor(blk, tb)), tb))
        elif c.mode == IEE_MODE_CTR_ADDR:
            nonce = c.ctr_nonce
            word = (int.from_bytes(nonce[12:], "big") + (addr >> 4)) & 0xFFFFFFFF
            ks = get_aes(c.ctr_key).encrypt_block(nonce[:12] + word.to_bytes(4, "big"))
            out.append(_xor(blk, ks))
        else:  # bypass: as stored; other modes: not modelled
            out.append(blk)
    return b"".join(out), owners


# ========================================================================================= BEE

BEE_TAGL, BEE_TAGH, BEE_VERSION = 0x5F474154, 0x52444845, 0x56010000
BEE_HEADER_SIZE, BEE_PRDB_OFFSET, BEE_PRDB_SIZE, BEE_FAC_OFFSET = 0x200, 0x80, 0x100, 0x50
BEE_MODE_ECB, BEE_MODE_CTR = 0, 1

_BeeContext = namedtuple(
    "BeeContext",
    "index user_key kib_key kib_iv fac_count start end mode lock counter facs reserved_ok padding_ok",
)


class BeeContext(_BeeContext):
    """One unwrapped BEE region header (engine).  ``facs`` = tuple of (start, end, level), end exclusive."""

    __slots__ = ()

    def fac_hit(self, addr):
        return any(s <= addr < e for (s, e, _lvl) in self.facs)


def bee_unwrap_header(header, user_key, index=0):
    header, user_key = bytes(header), bytes(user_key)
    if len(user_key) != 16:
        raise Reject("BEE user key must be 16 bytes")
    if len(header) < BEE_PRDB_OFFSET + BEE_PRDB_SIZE:
        raise Reject("BEE header of %d bytes" % len(header))
    kib = modes.ecb_decrypt(user_key, header[:32])
    kib_key, kib_iv = kib[:16], kib[16:]
    prdb = modes.cbc_decrypt(kib_key, kib_iv, header[BEE_PRDB_OFFSET:BEE_PRDB_OFFSET + BEE_PRDB_SIZE])
    tagl, tagh, version, fac_count, start, end, mode, lock = struct.unpack("<8I", prdb[:32])
    if (tagl, tagh) != (BEE_TAGL, BEE_TAGH):
        raise Reject("BEE header %d: tags 0x%08x 0x%08x after unwrapping (wrong user key / layout)" % (index, tagl, tagh))
    if version != BEE_VERSION:
        raise Reject("BEE header %d: version 0x%08x" % (index, version))
    if not 1 <= fac_count <= 4:
        raise Reject("BEE header %d: %d FAC regions" % (index, fac_count))
    if mode not in (BEE_MODE_ECB, BEE_MODE_CTR):
        raise Reject("BEE header %d: AES mode %d" % (index, mode))
    counter = prdb[32:48][::-1]
    reserved_ok = prdb[48:80] == bytes(32)
    facs = []
    for i in range(fac_count):
        rec = prdb[BEE_FAC_OFFSET + 32 * i:BEE_FAC_OFFSET + 32 * i + 32]
        s, e, lvl = struct.unpack("<3I", rec[:12])
        reserved_ok = reserved_ok and rec[12:] == bytes(20)
        if not s < e:
            raise Reject("BEE header %d: FAC %d is empty (0x%x..0x%x)" % (index, i, s, e))
        facs.append((s, e, lvl))
    rest = prdb[BEE_FAC_OFFSET + 32 * fac_count:]
    padding_ok = (rest == bytes(len(rest)) and header[32:BEE_PRDB_OFFSET] == bytes(BEE_PRDB_OFFSET - 32)
                  and header[BEE_PRDB_OFFSET + BEE_PRDB_SIZE:] == bytes(len(header) - BEE_PRDB_OFFSET - BEE_PRDB_SIZE))
    return BeeContext(index, user_key, kib_key, kib_iv, fac_count, start, end, mode, lock, counter,
                      tuple(facs), reserved_ok, padding_ok)


def bee_read(contexts, base, stored):
    """What the core sees when it reads ``stored`` (flash content at ``base``) through the BEE engines."""
    stored = bytes(stored)
    _check_window(base, stored)
    if len(stored) % BLOCK:
        raise Reject("BEE window length %d is not a multiple of 16" % len(stored))
    out, owners = [], []
    for off in range(0, len(stored), BLOCK):
        addr = base + off
        blk = stored[off:off + BLOCK]
        hits = [c for c in contexts if c.fac_hit(addr)]
        if len(hits) > 1:
            raise Reject("address 0x%x lies in FAC regions of engines %s" % (addr, [c.index for c in hits]))
        if not hits:
            out.append(blk)
            owners.append(-1)
            continue
        c = hits[0]
        owners.append(c.index)
        if c.mode == BEE_MODE_CTR:
            word = (int.from_bytes(c.counter[12:], "big") + (addr >> 4)) & 0xFFFFFFFF
            ks = get_aes(c.user_key).encrypt_block(c.counter[:12] + word.to_bytes(4, "big"))
            out.append(_xor(blk, ks))
        else:
            out.append(get_aes(c.user_key).decrypt_block(blk))
    return b"".join(out), owners


# ==================================================================================== self test

def selftest_synthetic():
    """Internal consistency on hand-made artifacts (the ground-truth vectors are run by the
    property module, which knows where the repository keeps them)."""
    n = 0
    # OTFAD: wrap a record by hand (RFC 3394 from modes), scramble, swap, unwrap again
    key, ctr = bytes(range(16)), bytes(range(0x80, 0x88))
    rec = key + ctr + struct.pack("<II", 0x08001000, 0x08001FF8 | 3)
    rec += bytes(4) + struct.pack("<I", crcs.crc32_mpeg2(rec))
    kek = bytes(range(0x10, 0x20))
    for idx, (mask, align, rev, swap) in enumerate([(None, None, False, 0), (0x12345678, 0x72, False, 0),
                                                    (0x12345678, 0xE4, True, 8), (1, 3, True, 4)]):
        k = otfad_context_kek(kek, idx, mask, align, rev)
        if mask is not None and (k == kek or sum(a != b for a, b in zip(k, kek)) > 4):
            raise AssertionError("otfad scramble touches more than one word")
        w = modes.key_wrap(k, rec)
        if swap:
            w = b"".join(w[i:i + swap][::-1] for i in range(0, 48, swap))
        c = otfad_unwrap_blob(w + bytes(16), k, swap, idx)
        if not (c.key == key and c.ctr == ctr and c.start == 0x08001000 and c.end == 0x08001FFF and c.crc_ok
                and c.vld and c.ade and not c.ro and c.filler_ok):
            raise AssertionError("otfad blob round trip %d" % idx)
        n += 1
    if _bitrev32(0x00000001) != 0x80000000 or _bitrev32(0x12345678) != 0x1E6A2C48:
        raise AssertionError("bitrev32")
    c = otfad_unwrap_blob(modes.key_wrap(kek, rec) + bytes(16), kek)
    data = bytes(range(256)) * 12
    got, owners = otfad_read([c], 0x08000C00, data)
    if got[:0x400] != data[:0x400] or got[0x400:] == data[0x400:] or owners[:64] != [-1] * 64 or owners[64] != 0:
        raise AssertionError("otfad window")
    again, _ = otfad_read([c], 0x08000C00, got)
    if again != data:
        raise AssertionError("otfad keystream is not an involution")
    a, _ = otfad_read([c], 0x08001000, data[:0x200], True)
    b, _ = otfad_read([c], 0x08001000, data[:0x200], False)
    if a == b:
        raise AssertionError("otfad byte swap has no effect")
    n += 3
    # IEE: XTS block-wise tweak walk agrees with the data-unit routine in modes
    k1, k2 = bytes(range(32)), bytes(range(32, 64))
    ctx = IeeContext(0, IEE_TAG, IEE_VERSION, IEE_UNLOCK, IEE_KEY_256_512, IEE_MODE_XTS, 0, 0, k1, k2,
                     0x30001000, 0x30003000, 0, 0, True)
    plain = bytes((7 * i) & 0xFF for i in range(0x3000))
    stored = plain[:0x1000]
    for s in (0x30001, 0x30002):
        off = (s << 12) - 0x30000000
        stored += modes.xts_encrypt(_rev_words(k1) + _rev_words(k2), _le128(s), plain[off:off + 0x1000])
    got, owners = iee_read([ctx], 0x30000000, stored)
    if got != plain or owners[255] != -1 or owners[256] != 0:
        raise AssertionError("iee xts sector walk")
    got2, _ = iee_read([ctx], 0x30001800, stored[0x1800:0x2800])
    if got2 != plain[0x1800:0x2800]:
        raise AssertionError("iee xts mid-sector window")
    n += 2
    # BEE: build a header by hand
    uk, kk, kiv = bytes(range(16)), bytes(range(16, 32)), bytes(range(32, 48))
    cnt = bytes(range(0xA0, 0xAC)) + bytes(4)
    prdb = struct.pack("<8I", BEE_TAGL, BEE_TAGH, BEE_VERSION, 1, 0x60001000, 0x60002000, 1, 0) + cnt[::-1] + bytes(32)
    prdb += struct.pack("<3I", 0x60001000, 0x60002000, 2) + bytes(20)
    prdb += bytes(256 - len(prdb))
    hdr = modes.ecb_encrypt(uk, kk + kiv) + bytes(0x60) + modes.cbc_encrypt(kk, kiv, prdb) + bytes(0x80)
    c = bee_unwrap_header(hdr, uk)
    if not (c.kib_key == kk and c.counter == cnt and c.facs == ((0x60001000, 0x60002000, 2),) and c.reserved_ok
            and c.padding_ok and c.mode == 1):
        raise AssertionError("bee header round trip")
    d = bytes(0x800)
    got, owners = bee_read([c], 0x60000C00, d)
    if got[:0x400] != d[:0x400] or got[0x400:0x410] != get_aes(uk).encrypt_block(cnt[:12] + (0x6000100).to_bytes(4, "big")):
        raise AssertionError("bee keystream")
    n += 2
    return {"synthetic_checks": n}
