"""ECDSA verification reference for NIST P-256 / P-384 / P-521 (FIPS 186-4,
SEC 1), standard library only.

Points are affine ``(x, y)`` tuples of ints, ``None`` is the point at infinity.
Every function taking ``curve`` accepts either a :class:`Curve` object or one of
the names ``"p256"``, ``"p384"``, ``"p521"`` (also ``secp256r1`` etc.).
"""

import hashlib

__all__ = [
    "Curve", "CURVES", "get_curve", "on_curve", "point_add", "point_mul", "point_neg",
    "verify_digest", "verify_message", "der_decode_sig", "der_encode_sig",
    "raw_decode_sig", "raw_encode_sig", "pub_from_private", "selftest",
]


class Curve:
    """Short Weierstrass curve y^2 = x^3 + a*x + b over GF(p).

    Fields are available both as attributes (``c.p``) and as items (``c["p"]``):
    name, p, a, b, gx, gy, n, size (coordinate bytes), hashname (default hash;
    also reachable as ``hash``, ``hash_name``, ``default_hash``), g (base point tuple).
    """

    __slots__ = ("name", "p", "a", "b", "gx", "gy", "n", "size", "hashname")
    _KEYS = ("name", "p", "a", "b", "gx", "gy", "n", "size", "hashname", "hash", "hash_name",
             "default_hash", "g")

    def __init__(self, name, p, a, b, gx, gy, n, size, hashname):
        self.name = name
        self.p = p
        self.a = a
        self.b = b
        self.gx = gx
        self.gy = gy
        self.n = n
        self.size = size
        self.hashname = hashname

    @property
    def hash(self):
        return self.hashname

    hash_name = hash
    default_hash = hash

    @property
    def g(self):
        return (self.gx, self.gy)

    def __getitem__(self, key):
        if key in self._KEYS:
            return getattr(self, key)
        raise KeyError(key)

    def get(self, key, default=None):
        return getattr(self, key) if key in self._KEYS else default

    def keys(self):
        return list(self._KEYS)

    def __contains__(self, key):
        return key in self._KEYS

    def __repr__(self):
        return "Curve(%s)" % self.name


def _h(s):
    return int(s.replace(" ", ""), 16)


# FIPS 186-4 D.1.2 generalized Mersenne primes
_P256_P = 2**256 - 2**224 + 2**192 + 2**96 - 1
_P384_P = 2**384 - 2**128 - 2**96 + 2**32 - 1
_P521_P = 2**521 - 1

CURVES = {
    "p256": Curve(
        "p256",
        p=_P256_P,
        a=_P256_P - 3,
        b=_h("5ac635d8aa3a93e7b3ebbd55769886bc651d06b0cc53b0f63bce3c3e27d2604b"),
        gx=_h("6b17d1f2e12c4247f8bce6e563a440f277037d812deb33a0f4a13945d898c296"),
        gy=_h("4fe342e2fe1a7f9b8ee7eb4a7c0f9e162bce33576b315ececbb6406837bf51f5"),
        n=_h("ffffffff00000000ffffffffffffffffbce6faada7179e84f3b9cac2fc632551"),
        size=32,
        hashname="sha256",
    ),
    "p384": Curve(
        "p384",
        p=_P384_P,
        a=_P384_P - 3,
        b=_h("b3312fa7e23ee7e4988e056be3f82d19181d9c6efe8141120314088f5013875a"
             "c656398d8a2ed19d2a85c8edd3ec2aef"),
        gx=_h("aa87ca22be8b05378eb1c71ef320ad746e1d3b628ba79b9859f741e082542a38"
              "5502f25dbf55296c3a545e3872760ab7"),
        gy=_h("3617de4a96262c6f5d9e98bf9292dc29f8f41dbd289a147ce9da3113b5f0b8c0"
              "0a60b1ce1d7e819d7a431d7c90ea0e5f"),
        n=_h("ffffffffffffffffffffffffffffffffffffffffffffffffc7634d81f4372ddf"
             "581a0db248b0a77aecec196accc52973"),
        size=48,
        hashname="sha384",
    ),
    "p521": Curve(
        "p521",
        p=_P521_P,
        a=_P521_P - 3,
        b=_h("0051953eb9618e1c9a1f929a21a0b68540eea2da725b99b315f3b8b489918ef1"
             "09e156193951ec7e937b1652c0bd3bb1bf073573df883d2c34f1ef451fd46b50"
             "3f00"),
        gx=_h("00c6858e06b70404e9cd9e3ecb662395b4429c648139053fb521f828af606b4d"
              "3dbaa14b5e77efe75928fe1dc127a2ffa8de3348b3c1856a429bf97e7e31c2e5"
              "bd66"),
        gy=_h("011839296a789a3bc0045c8a5fb42c7d1bd998f54449579b446817afbd17273e"
              "662c97ee72995ef42640c550b9013fad0761353c7086a272c24088be94769fd1"
              "6650"),
        n=_h("01ffffffffffffffffffffffffffffffffffffffffffffffffffffffffffffff"
             "fffa51868783bf2f966b7fcc0148f709a5d03bb5c9b8899c47aebb6fb71e9138"
             "6409"),
        size=66,
        hashname="sha512",
    ),
}

_ALIASES = {
    "secp256r1": "p256", "prime256v1": "p256", "nistp256": "p256", "p-256": "p256",
    "secp384r1": "p384", "nistp384": "p384", "p-384": "p384",
    "secp521r1": "p521", "nistp521": "p521", "p-521": "p521",
}


def get_curve(curve):
    """Resolve a curve name (or pass a Curve through)."""
    if isinstance(curve, Curve):
        return curve
    if isinstance(curve, str):
        key = curve.lower()
        key = _ALIASES.get(key, key)
        if key in CURVES:
            return CURVES[key]
    raise ValueError("unknown curve %r" % (curve,))


# ------------------------------------------------------------ arithmetic ---

def on_curve(curve, x, y):
    """True when (x, y) is a finite point with reduced coordinates on the curve."""
    c = get_curve(curve)
    if not (isinstance(x, int) and isinstance(y, int)):
        return False
    p = c.p
    if not (0 <= x < p and 0 <= y < p):
        return False
    return (y * y - (x * x * x + c.a * x + c.b)) % p == 0


def point_neg(curve, point):
    c = get_curve(curve)
    if point is None:
        return None
    return (point[0], (-point[1]) % c.p)


def point_add(curve, P, Q):
    """Affine group law (textbook chord-and-tangent)."""
    c = get_curve(curve)
    if P is None:
        return Q
    if Q is None:
        return P
    p = c.p
    x1, y1 = P
    x2, y2 = Q
    if (x1 - x2) % p == 0:
        if (y1 + y2) % p == 0:
            return None
        lam = (3 * x1 * x1 + c.a) * pow(2 * y1, -1, p) % p
    else:
        lam = (y2 - y1) * pow(x2 - x1, -1, p) % p
    x3 = (lam * lam - x1 - x2) % p
    y3 = (lam * (x1 - x3) - y1) % p
    return (x3, y3)


# Jacobian coordinates: (X, Y, Z) represents (X/Z^2, Y/Z^3); Z == 0 is infinity.
_INF = (1, 1, 0)


def _jdouble(c, P):
    X1, Y1, Z1 = P
    if Z1 == 0 or Y1 == 0:
        return _INF
    p = c.p
    yy = Y1 * Y1 % p
    s = 4 * X1 * yy % p
    zz = Z1 * Z1 % p
    m = (3 * X1 * X1 + c.a * zz * zz) % p
    X3 = (m * m - 2 * s) % p
    Y3 = (m * (s - X3) - 8 * yy * yy) % p
    Z3 = 2 * Y1 * Z1 % p
    return (X3, Y3, Z3)


def _jadd_affine(c, P, Q):
    """Jacobian P + affine Q (Q is a finite affine point)."""
    X1, Y1, Z1 = P
    x2, y2 = Q
    if Z1 == 0:
        return (x2, y2, 1)
    p = c.p
    zz = Z1 * Z1 % p
    u2 = x2 * zz % p
    s2 = y2 * zz * Z1 % p
    h = (u2 - X1) % p
    r = (s2 - Y1) % p
    if h == 0:
        if r == 0:
            return _jdouble(c, P)
        return _INF
    hh = h * h % p
    hhh = hh * h % p
    v = X1 * hh % p
    X3 = (r * r - hhh - 2 * v) % p
    Y3 = (r * (v - X3) - Y1 * hhh) % p
    Z3 = Z1 * h % p
    return (X3, Y3, Z3)


def _to_affine(c, P):
    X, Y, Z = P
    if Z == 0:
        return None
    p = c.p
    zi = pow(Z, -1, p)
    zi2 = zi * zi % p
    return (X * zi2 % p, Y * zi2 * zi % p)


def point_mul(curve, k, point):
    """Scalar multiplication k*point (k any integer, not reduced mod n)."""
    c = get_curve(curve)
    if point is None or k == 0:
        return None
    if k < 0:
        return point_mul(c, -k, point_neg(c, point))
    point = (point[0] % c.p, point[1] % c.p)
    acc = _INF
    for bit in bin(k)[2:]:
        acc = _jdouble(c, acc)
        if bit == "1":
            acc = _jadd_affine(c, acc, point)
    return _to_affine(c, acc)


def _double_mul(c, k1, P1, k2, P2):
    """k1*P1 + k2*P2 with interleaved double-and-add (Shamir's trick)."""
    both = point_add(c, P1, P2)
    table = {(1, 0): P1, (0, 1): P2, (1, 1): both}
    nbits = max(k1.bit_length(), k2.bit_length())
    acc = _INF
    for i in range(nbits - 1, -1, -1):
        acc = _jdouble(c, acc)
        sel = ((k1 >> i) & 1, (k2 >> i) & 1)
        if sel != (0, 0):
            q = table[sel]
            if q is not None:
                acc = _jadd_affine(c, acc, q)
    return _to_affine(c, acc)


def pub_from_private(curve, d):
    c = get_curve(curve)
    if not isinstance(d, int) or not 1 <= d < c.n:
        raise ValueError("private scalar out of range")
    return point_mul(c, d, (c.gx, c.gy))


# ----------------------------------------------------------------- ECDSA ---

def verify_digest(curve, pub_xy, digest, r, s):
    """Standard ECDSA verification of an already computed digest."""
    c = get_curve(curve)
    n = c.n
    if not (isinstance(r, int) and isinstance(s, int)):
        return False
    if not (1 <= r < n and 1 <= s < n):
        return False
    try:
        x, y = pub_xy
    except (TypeError, ValueError):
        return False
    if not on_curve(c, x, y):
        return False
    digest = bytes(digest)
    z = int.from_bytes(digest, "big")
    excess = 8 * len(digest) - n.bit_length()
    if excess > 0:
        z >>= excess
    w = pow(s, -1, n)
    u1 = z * w % n
    u2 = r * w % n
    R = _double_mul(c, u1, (c.gx, c.gy), u2, (x, y))
    if R is None:
        return False
    return R[0] % n == r


def verify_message(curve, pub_xy, message, r, s, hashname=None):
    c = get_curve(curve)
    digest = hashlib.new(hashname or c.hashname, bytes(message)).digest()
    return verify_digest(c, pub_xy, digest, r, s)


# ------------------------------------------------- signature serialisation ---

def _der_len(data, pos):
    """Parse a DER length at ``pos``; return (length, new_pos)."""
    if pos >= len(data):
        raise ValueError("DER: truncated length")
    first = data[pos]
    pos += 1
    if first < 0x80:
        return first, pos
    count = first & 0x7F
    if count == 0 or count > 4:
        raise ValueError("DER: unsupported length form")
    if pos + count > len(data):
        raise ValueError("DER: truncated length")
    if data[pos] == 0:
        raise ValueError("DER: non-minimal length")
    value = int.from_bytes(data[pos:pos + count], "big")
    if value < 0x80:
        raise ValueError("DER: non-minimal length")
    return value, pos + count


def _der_int(data, pos):
    if pos >= len(data) or data[pos] != 0x02:
        raise ValueError("DER: INTEGER expected")
    length, pos = _der_len(data, pos + 1)
    if length == 0:
        raise ValueError("DER: empty INTEGER")
    if pos + length > len(data):
        raise ValueError("DER: truncated INTEGER")
    body = data[pos:pos + length]
    if body[0] & 0x80:
        raise ValueError("DER: negative INTEGER")
    if length > 1 and body[0] == 0 and not body[1] & 0x80:
        raise ValueError("DER: non-minimal INTEGER")
    return int.from_bytes(body, "big"), pos + length


def der_decode_sig(data):
    """Strict DER ``SEQUENCE { INTEGER r, INTEGER s }`` -> (r, s)."""
    data = bytes(data)
    if not data or data[0] != 0x30:
        raise ValueError("DER: SEQUENCE expected")
    length, pos = _der_len(data, 1)
    if pos + length != len(data):
        raise ValueError("DER: SEQUENCE length does not match the input (trailing or missing bytes)")
    r, pos = _der_int(data, pos)
    s, pos = _der_int(data, pos)
    if pos != len(data):
        raise ValueError("DER: trailing bytes inside SEQUENCE")
    return r, s


def _der_enc_len(n):
    if n < 0x80:
        return bytes([n])
    body = n.to_bytes((n.bit_length() + 7) // 8, "big")
    return bytes([0x80 | len(body)]) + body


def _der_enc_int(v):
    if not isinstance(v, int) or v < 0:
        raise ValueError("DER: non-negative integer required")
    body = v.to_bytes(v.bit_length() // 8 + 1, "big")  # always leaves the sign bit clear
    return b"\x02" + _der_enc_len(len(body)) + body


def der_encode_sig(r, s):
    body = _der_enc_int(r) + _der_enc_int(s)
    return b"\x30" + _der_enc_len(len(body)) + body


def raw_decode_sig(data, size):
    data = bytes(data)
    if len(data) != 2 * size:
        raise ValueError("raw signature must be %d bytes, got %d" % (2 * size, len(data)))
    return int.from_bytes(data[:size], "big"), int.from_bytes(data[size:], "big")


def raw_encode_sig(r, s, size):
    if r < 0 or s < 0 or r >> (8 * size) or s >> (8 * size):
        raise ValueError("r or s does not fit in %d bytes" % size)
    return r.to_bytes(size, "big") + s.to_bytes(size, "big")


# -------------------------------------------------------------- selftest ---

_RFC6979 = [
    # (name, curve, private x, Ux, Uy, hash, r, s) for message "sample"
    ("RFC6979-A.2.5-P256-SHA256", "p256",
     "C9AFA9D845BA75166B5C215767B1D6934E50C3DB36E89B127B8A622B120F6721",
     "60FED4BA255A9D31C961EB74C6356D68C049B8923B61FA6CE669622E60F29FB6",
     "7903FE1008B8BC99A41AE9E95628BC64F2F1B20C2D7E9F5177A3C294D4462299",
     "sha256",
     "EFD48B2AACB6A8FD1140DD9CD45E81D69D2C877B56AAF991C34D0EA84EAF3716",
     "F7CB1C942D657C41D436C7A1B6E29F65F3E900DBB9AFF4064DC4AB2F843ACDA8"),
    ("RFC6979-A.2.6-P384-SHA384", "p384",
     "6B9D3DAD2E1B8C1C05B19875B6659F4DE23C3B667BF297BA9AA47740787137D8"
     "96D5724E4C70A825F872C9EA60D2EDF5",
     "EC3A4E415B4E19A4568618029F427FA5DA9A8BC4AE92E02E06AAE5286B300C64"
     "DEF8F0EA9055866064A254515480BC13",
     "8015D9B72D7D57244EA8EF9AC0C621896708A59367F9DFB9F54CA84B3F1C9DB1"
     "288B231C3AE0D4FE7344FD2533264720",
     "sha384",
     "94EDBB92A5ECB8AAD4736E56C691916B3F88140666CE9FA73D64C4EA95AD133C"
     "81A648152E44ACF96E36DD1E80FABE46",
     "99EF4AEB15F178CEA1FE40DB2603138F130E740A19624526203B6351D0A3A94F"
     "A329C145786E679E7B82C71A38628AC8"),
]
_RFC6979_P521 = [
    ("RFC6979-A.2.7-P521-SHA512", "p521",
     "00FAD06DAA62BA3B25D2FB40133DA757205DE67F5BB0018FEE8C86E1B68C7E75"
     "CAA896EB32F1F47C70855836A6D16FCC1466F6D8FBEC67DB89EC0C08B0E996B8"
     "3538",
     "01894550D0785932E00EAA23B694F213F8C3121F86DC97A04E5A7167DB4E5BCD"
     "371123D46E45DB6B5D5370A7F20FB633155D38FFA16D2BD761DCAC474B9A2F50"
     "23A4",
     "00493101C962CD4D2FDDF782285E64584139C2F91B47F87FF82354D6630F746A"
     "28A0DB25741B5B34A828008B22ACC23F924FAAFBD4D33F81EA66956DFEAA2BFD"
     "FCF5",
     "sha512",
     "00C328FAFCBD79DD77850370C46325D987CB525569FB63C5D3BC53950E6D4C5F"
     "174E25A1EE9017B5D450606ADD152B534931D7D4E8455CC91F9B15BF05EC36E3"
     "77FA",
     "00617CCE7CF5064806C467F678D3B4080D6F1CC50AF26CA209417308281B68AF"
     "282623EAA63E5B5C0723D8B8C37FF0777B1A20F8CCB1DCCC43997F1EE0E44DA4"
     "A67A"),
]


def _affine_mul(c, k, P):
    """Deliberately naive affine double-and-add, used to cross-check Jacobian code."""
    acc = None
    add = P
    while k:
        if k & 1:
            acc = point_add(c, acc, add)
        add = point_add(c, add, add)
        k >>= 1
    return acc


def selftest():
    """Run known-answer tests; return the number of assertions passed."""
    cnt = 0
    for name, bits in (("p256", 256), ("p384", 384), ("p521", 521)):
        c = CURVES[name]
        g = (c.gx, c.gy)
        assert c.p.bit_length() == bits and c.n.bit_length() == bits, name + " bit lengths"
        assert c.size == (bits + 7) // 8, name + " size"
        assert c.a == c.p - 3, name + " a = -3"
        assert c["p"] == c.p and c["hashname"] == c.hashname == c["hash"], name + " item access"
        assert on_curve(c, c.gx, c.gy), name + " base point on curve"
        assert not on_curve(c, c.gx, (c.gy + 1) % c.p), name + " off-curve point"
        assert not on_curve(c, c.gx + c.p, c.gy), name + " unreduced coordinate"
        assert point_mul(c, c.n, g) is None, name + " n*G is infinity"
        assert point_mul(c, c.n - 1, g) == point_neg(c, g), name + " (n-1)*G == -G"
        assert point_mul(c, c.n + 1, g) == g, name + " (n+1)*G == G"
        assert point_mul(c, 1, g) == g and point_mul(c, 0, g) is None, name + " trivial scalars"
        assert point_mul(c, 2, g) == point_add(c, g, g), name + " 2G"
        assert point_add(c, g, point_neg(c, g)) is None, name + " G + (-G)"
        assert point_add(c, g, None) == g and point_add(c, None, g) == g, name + " identity"
        cnt += 14
        for k in (3, 5, 0xDEADBEEF, (1 << 200) - 12345, c.n - 2):
            q = point_mul(c, k, g)
            assert q == _affine_mul(c, k, g), name + " Jacobian vs affine, k=%x" % k
            assert on_curve(c, *q), name + " k*G on curve"
            cnt += 2
        k1, k2 = 0x1234567 << 100 | 0x55, c.n - 987654321
        q = point_mul(c, 77, g)
        assert _double_mul(c, k1, g, k2, q) == point_add(c, point_mul(c, k1, g), point_mul(c, k2, q)), \
            name + " double multiplication"
        assert _double_mul(c, 5, g, 5, point_neg(c, g)) is None, name + " double multiplication P2 = -P1"
        assert _double_mul(c, 6, g, 5, point_neg(c, g)) == g, name + " double multiplication P2 = -P1 (b)"
        cnt += 3

    # P-256: 2G from a public table of multiples of the base point
    c = CURVES["p256"]
    assert point_mul(c, 2, c.g) == (
        _h("7CF27B188D034F7E8A52380304B51AC3C08969E277F21B35A60B48FC47669978"),
        _h("07775510DB8ED040293D9AC69F7430DBBA7DADE63CE982299E04B79D227873D1")), "P-256 2G known value"
    cnt += 1

    msg = b"sample"
    for name, cname, x, ux, uy, hname, r, s in _RFC6979 + _RFC6979_P521:
        c = CURVES[cname]
        x, ux, uy, r, s = _h(x), _h(ux), _h(uy), _h(r), _h(s)
        pub = (ux, uy)
        assert on_curve(c, ux, uy), name + " public key on curve"
        assert pub_from_private(c, x) == pub, name + " public key from private"
        assert c.hashname == hname, name + " default hash"
        assert verify_message(c, pub, msg, r, s), name + " verify (default hash)"
        assert verify_message(cname, pub, msg, r, s, hname), name + " verify (explicit hash, curve by name)"
        dig = hashlib.new(hname, msg).digest()
        assert verify_digest(c, pub, dig, r, s), name + " verify digest"
        assert not verify_message(c, pub, b"Sample", r, s), name + " flipped message"
        assert not verify_message(c, pub, msg, r ^ 1, s), name + " flipped r"
        assert not verify_message(c, pub, msg, r, s ^ 2), name + " flipped s"
        assert not verify_message(c, pub, msg, s, r), name + " swapped r/s"
        assert verify_message(c, pub, msg, r, c.n - s), name + " (r, n-s) also verifies"
        assert not verify_message(c, pub, msg, 0, s), name + " r = 0"
        assert not verify_message(c, pub, msg, r, 0), name + " s = 0"
        assert not verify_message(c, pub, msg, r + c.n, s), name + " r >= n"
        assert not verify_message(c, pub, msg, r, c.n), name + " s = n"
        assert not verify_message(c, (ux, (uy + 1) % c.p), msg, r, s), name + " public key off curve"
        assert not verify_message(c, point_mul(c, 2, pub), msg, r, s), name + " wrong public key"
        cnt += 17
        der = der_encode_sig(r, s)
        assert der_decode_sig(der) == (r, s), name + " DER round trip"
        raw = raw_encode_sig(r, s, c.size)
        assert len(raw) == 2 * c.size and raw_decode_sig(raw, c.size) == (r, s), name + " raw round trip"
        cnt += 2

    # truncation rule: a digest longer than the order is cut to its leftmost bits
    c = CURVES["p256"]
    _n, _c, x, ux, uy, _hn, r, s = _RFC6979[0]
    pub = (_h(ux), _h(uy))
    d512 = hashlib.sha512(msg).digest()
    # RFC 6979 A.2.5, P-256 with SHA-512, message "sample"
    r512 = _h("8496A60B5E9B47C825488827E0495B0E3FA109EC4568FD3F8D1097678EB97F00")
    s512 = _h("2362AB1ADBE2B8ADF9CB9EDAB740EA6049C028114F2460F96554F61FAE3302FE")
    assert verify_digest(c, pub, d512, r512, s512), "P-256/SHA-512 digest truncation"
    assert verify_digest(c, pub, d512[:32], r512, s512), "P-256/SHA-512 explicit truncation"
    assert not verify_digest(c, pub, d512[32:], r512, s512), "P-256/SHA-512 wrong half"
    cnt += 3

    # DER details
    assert der_encode_sig(1, 127) == bytes.fromhex("3006020101" "02017f"), "DER small"
    assert der_encode_sig(128, 0) == bytes.fromhex("3007" "02020080" "020100"), "DER sign padding"
    big = (1 << 527) | 1
    enc = der_encode_sig(big, big)
    assert enc[:3] == b"\x30\x81\x8a" and der_decode_sig(enc) == (big, big), "DER long-form length"
    cnt += 3
    for label, bad in (
        ("empty", ""),
        ("trailing", "3006020101020102" "00"),
        ("short", "30060201010201"),
        ("wrong tag", "3106020101020102"),
        ("not integer", "3006030101020102"),
        ("negative", "3006020181020102"),
        ("non-minimal int", "30070202000102" "0102"),
        ("empty int", "30050200020102"),
        ("non-minimal length", "308106020101020102"),
        ("indefinite length", "3080020101020102" "0000"),
        ("three ints", "3009020101020102020103"),
        ("one int", "3003020101"),
        ("inner overrun", "3006020101020302"),
    ):
        try:
            der_decode_sig(bytes.fromhex(bad))
        except ValueError:
            cnt += 1
        else:
            raise AssertionError("DER malformed input accepted: " + label)
    for fn, args in ((raw_decode_sig, (bytes(63), 32)), (raw_encode_sig, (1 << 256, 1, 32)),
                     (raw_encode_sig, (1, -1, 32)), (der_encode_sig, (-1, 1)),
                     (pub_from_private, ("p256", 0)), (pub_from_private, ("p256", CURVES["p256"].n))):
        try:
            fn(*args)
        except ValueError:
            cnt += 1
        else:
            raise AssertionError("bad argument accepted by " + fn.__name__)
    assert raw_encode_sig(1, 2, 32) == bytes(31) + b"\x01" + bytes(31) + b"\x02", "raw leading zeros"
    cnt += 1
    return cnt


if __name__ == "__main__":
    print("ecdsa selftest:", selftest())
