"""Independent recogniser/evaluator of the documented number grammar (property C20).

number  := ws* [prefix] digits suffix ws*         (case-insensitive)
prefix  := "0x" | "0b" | "0o"
digits  := digit ( ["_"] digit )*                 digits of the base (10 without a prefix)
suffix  := up to three letters out of {u, l}
Nothing here uses ``re`` or ``int(str, base)``: the value is accumulated digit by digit.
"""
WS = " \t\n\r\x0b\x0c\x1c\x1d\x1e\x1f\x85\xa0"
_DIG = "0123456789abcdef"


def parse_number(text):
    """Return the value, or None when ``text`` is not a number of the grammar."""
    if not isinstance(text, str):
        return None
    s = text.strip().lower() if all(ord(c) < 128 for c in text) else None
    if s is None:
        # non-ASCII: only ASCII white space variants are in the documented grammar; be conservative
        s = text.strip().lower()
    if not s:
        return None
    base = 10
    body = s
    if len(s) >= 2 and s[0] == "0" and s[1] in "box":
        # a prefix is only a prefix when a digit-or-underscore body follows (otherwise "0b" is not a number)
        cand = {"b": 2, "o": 8, "x": 16}[s[1]]
        rest = s[2:]
        k = len(rest)
        # strip suffix letters (at most 3) from the right, but only those that are not needed as digits
        if rest and _strip_suffix(rest, cand) is not None:
            base, body = cand, rest
    stripped = _strip_suffix(body, base)
    if stripped is None:
        return None
    val = 0
    prev_us = True  # leading underscore forbidden
    for ch in stripped:
        if ch == "_":
            if prev_us:
                return None
            prev_us = True
            continue
        d = _DIG.find(ch)
        if d < 0 or d >= base:
            return None
        val = val * base + d
        prev_us = False
    if prev_us:  # trailing underscore or empty
        return None
    return val


def _strip_suffix(body, base):
    """Return the digit part of ``body`` for ``base`` or None.

    The suffix is at most three characters out of {u, l}; the digit part is the longest prefix of
    characters from [0-9a-f_] (so an 'l'/'u' can never be a digit, and hex digits never a suffix)."""
    i = 0
    while i < len(body) and (body[i] in _DIG or body[i] == "_"):
        i += 1
    digits, suffix = body[:i], body[i:]
    if not digits or len(suffix) > 3 or any(c not in "ul" for c in suffix):
        return None
    # every digit must belong to the base (checked by the caller, which also handles underscores)
    for ch in digits:
        if ch != "_" and _DIG.find(ch) >= base:
            return None
    return digits


def selftest():
    good = {"0": 0, "10": 10, "0x10": 16, "0b101": 5, "0o17": 15, "1_000": 1000, "0xff_ff": 65535,
            " 12 ": 12, "5u": 5, "5ul": 5, "0x5ull": 5, "0X1F": 31, "010": 10, "0b1": 1, "0xb1": 0xB1,
            "0b": None, "0x": None, "": None, "_1": None, "1_": None, "1__0": None, "ff": None, "-1": None,
            "+1": None, "1 2": None, "0b2": None, "0o8": None, "5ulul": None, "0x_1": None, "1x": None,
            "u": None, "0xu": None, "0bu": None, "0b_": None}
    n = 0
    for k, v in good.items():
        got = parse_number(k)
        assert got == v, (k, got, v)
        n += 1
    return n
