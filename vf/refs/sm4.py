"""Pure-Python SM4 block cipher (GB/T 32907-2016), standard library only."""

import functools
import struct

__all__ = ["sm4_encrypt_block", "sm4_decrypt_block", "sm4_cbc_encrypt", "sm4_cbc_decrypt",
           "sm4_ecb_encrypt", "sm4_ecb_decrypt", "selftest"]

_SBOX = bytes.fromhex(
    "d690e9fecce13db716b614c228fb2c05"
    "2b679a762abe04c3aa44132649860699"
    "9c4250f491ef987a33540b43edcfac62"
    "e4b31ca9c908e89580df94fa758f3fa6"
    "4707a7fcf37317ba83593c19e6854fa8"
    "686b81b27164da8bf8eb0f4b70569d35"
    "1e240e5e6358d1a225227c3b01217887"
    "d40046579fd327524c3602e7a0c4c89e"
    "eabf8ad240c738b5a3f7f2cef96115a1"
    "e0ae5da49b341a55ad933230f58cb1e3"
    "1df6e22e8266ca60c02923ab0d534e6f"
    "d5db3745defd8e2f03ff6a726d6c5b51"
    "8d1baf92bbddbc7f11d95c411f105ad8"
    "0ac13188a5cd7bbd2d74d012b8e5b4b0"
    "8969974a0c96777e65b9f109c56ec684"
    "18f07dec3adc4d2079ee5f3ed7cb3948"
)

_FK = (0xA3B1BAC6, 0x56AA3350, 0x677D9197, 0xB27022DC)
_CK = tuple(
    sum((((4 * i + j) * 7) & 0xFF) << (24 - 8 * j) for j in range(4)) for i in range(32)
)
_M32 = 0xFFFFFFFF
_PACK = struct.Struct(">4I")


def _rol(x, n):
    return ((x << n) | (x >> (32 - n))) & _M32


def _tau(x):
    s = _SBOX
    return (s[x >> 24] << 24) | (s[(x >> 16) & 255] << 16) | (s[(x >> 8) & 255] << 8) | s[x & 255]


def _l_enc(b):
    return b ^ _rol(b, 2) ^ _rol(b, 10) ^ _rol(b, 18) ^ _rol(b, 24)


def _t_enc(x):
    """Round transform T = L(tau(x)) straight from the definition (used by selftest)."""
    return _l_enc(_tau(x))


# L is linear over GF(2), so T splits into four byte-indexed tables.
_T0 = [_l_enc(s << 24) for s in _SBOX]
_T1 = [_l_enc(s << 16) for s in _SBOX]
_T2 = [_l_enc(s << 8) for s in _SBOX]
_T3 = [_l_enc(s) for s in _SBOX]


def _t_key(x):
    b = _tau(x)
    return b ^ _rol(b, 13) ^ _rol(b, 23)


@functools.lru_cache(maxsize=128)
def _round_keys(key16):
    if len(key16) != 16:
        raise ValueError("SM4 key must be 16 bytes, got %d" % len(key16))
    k = [m ^ f for m, f in zip(_PACK.unpack(key16), _FK)]
    for i in range(32):
        k.append(k[i] ^ _t_key(k[i + 1] ^ k[i + 2] ^ k[i + 3] ^ _CK[i]))
    return tuple(k[4:])


def _crypt(rks, block16):
    if len(block16) != 16:
        raise ValueError("SM4 block must be 16 bytes, got %d" % len(block16))
    x0, x1, x2, x3 = _PACK.unpack(block16)
    t0, t1, t2, t3 = _T0, _T1, _T2, _T3
    for rk in rks:
        v = x1 ^ x2 ^ x3 ^ rk
        x0, x1, x2, x3 = x1, x2, x3, x0 ^ t0[v >> 24] ^ t1[(v >> 16) & 255] ^ t2[(v >> 8) & 255] ^ t3[v & 255]
    return _PACK.pack(x3, x2, x1, x0)


def _crypt_slow(rks, block16):
    """Same as _crypt but evaluating T from its definition (selftest cross-check)."""
    x0, x1, x2, x3 = _PACK.unpack(block16)
    for rk in rks:
        x0, x1, x2, x3 = x1, x2, x3, x0 ^ _t_enc(x1 ^ x2 ^ x3 ^ rk)
    return _PACK.pack(x3, x2, x1, x0)


def sm4_encrypt_block(key16, block16):
    return _crypt(_round_keys(bytes(key16)), bytes(block16))


def sm4_decrypt_block(key16, block16):
    return _crypt(_round_keys(bytes(key16))[::-1], bytes(block16))


def _xor(a, b):
    return (int.from_bytes(a, "big") ^ int.from_bytes(b, "big")).to_bytes(len(a), "big")


def _check(data, iv=None):
    if len(data) % 16:
        raise ValueError("SM4: data length %d is not a multiple of 16" % len(data))
    if iv is not None and len(iv) != 16:
        raise ValueError("SM4: IV must be 16 bytes, got %d" % len(iv))


def sm4_ecb_encrypt(key, data):
    data = bytes(data)
    _check(data)
    rks = _round_keys(bytes(key))
    return b"".join(_crypt(rks, data[i:i + 16]) for i in range(0, len(data), 16))


def sm4_ecb_decrypt(key, data):
    data = bytes(data)
    _check(data)
    rks = _round_keys(bytes(key))[::-1]
    return b"".join(_crypt(rks, data[i:i + 16]) for i in range(0, len(data), 16))


def sm4_cbc_encrypt(key, iv, data):
    data = bytes(data)
    iv = bytes(iv)
    _check(data, iv)
    rks = _round_keys(bytes(key))
    out = []
    prev = iv
    for i in range(0, len(data), 16):
        prev = _crypt(rks, _xor(data[i:i + 16], prev))
        out.append(prev)
    return b"".join(out)


def sm4_cbc_decrypt(key, iv, data):
    data = bytes(data)
    iv = bytes(iv)
    _check(data, iv)
    rks = _round_keys(bytes(key))[::-1]
    out = []
    prev = iv
    for i in range(0, len(data), 16):
        blk = data[i:i + 16]
        out.append(_xor(_crypt(rks, blk), prev))
        prev = blk
    return b"".join(out)


# -------------------------------------------------------------- selftest ---

_KAT_KEY = bytes.fromhex("0123456789abcdeffedcba9876543210")
_KAT_CT = bytes.fromhex("681edf34d206965e86b3e94f536e4246")
# GB/T 32907 example 2: the same block encrypted 1,000,000 times (checked once
# during development; too slow for the routine selftest)
_KAT_1M = bytes.fromhex("595298c7c6fd271f0402f804c33d3f66")
# draft-ribose-cfrg-sm4 A.2.2.1 SM4-CBC example (also confirmed against OpenSSL)
_CBC_KEY = bytes.fromhex("0123456789abcdeffedcba9876543210")
_CBC_IV = bytes.fromhex("000102030405060708090a0b0c0d0e0f")
_CBC_PT = bytes.fromhex("aaaaaaaabbbbbbbbccccccccddddddddeeeeeeeeffffffffaaaaaaaabbbbbbbb")
_CBC_CT = bytes.fromhex("78ebb11cc40b0a48312aaeb2040244cb4cb7016951909226979b0d15dc6a8f6d")


def selftest(million=False):
    """Run known-answer tests; return the number of assertions passed."""
    n = 0
    assert sorted(_SBOX) == list(range(256)), "SM4 sbox is not a permutation"
    assert _CK[0] == 0x00070E15 and _CK[31] == 0x646B7279, "SM4 CK constants"
    n += 2
    rks = _round_keys(_KAT_KEY)
    assert rks[0] == 0xF12186F9 and rks[31] == 0x9124A012, "SM4 GB/T 32907 round keys"
    n += 1
    assert sm4_encrypt_block(_KAT_KEY, _KAT_KEY) == _KAT_CT, "SM4 GB/T 32907 example 1 encrypt"
    assert sm4_decrypt_block(_KAT_KEY, _KAT_CT) == _KAT_KEY, "SM4 GB/T 32907 example 1 decrypt"
    n += 2
    assert _crypt_slow(rks, _KAT_KEY) == _KAT_CT, "SM4 GB/T 32907 example 1 (definition path)"
    for i in range(16):
        blk = bytes((37 * i + 11 * j + 5) & 0xFF for j in range(16))
        assert _crypt(rks, blk) == _crypt_slow(rks, blk), "SM4 table path vs definition path %d" % i
    n += 17
    assert sm4_cbc_encrypt(_CBC_KEY, _CBC_IV, _CBC_PT) == _CBC_CT, "SM4-CBC example encrypt"
    assert sm4_cbc_decrypt(_CBC_KEY, _CBC_IV, _CBC_CT) == _CBC_PT, "SM4-CBC example decrypt"
    n += 2
    assert sm4_ecb_decrypt(_KAT_KEY, sm4_ecb_encrypt(_KAT_KEY, _CBC_PT)) == _CBC_PT, "SM4-ECB round trip"
    assert sm4_cbc_encrypt(_KAT_KEY, bytes(16), _KAT_KEY) == _KAT_CT, "SM4-CBC zero IV single block"
    n += 2
    for fn, args in ((sm4_encrypt_block, (bytes(15), bytes(16))), (sm4_encrypt_block, (bytes(16), bytes(17))),
                     (sm4_cbc_encrypt, (bytes(16), bytes(16), bytes(15))),
                     (sm4_cbc_decrypt, (bytes(16), bytes(15), bytes(16)))):
        try:
            fn(*args)
        except ValueError:
            n += 1
        else:
            raise AssertionError("SM4 bad length accepted by %s" % fn.__name__)
    if million:
        b = _KAT_KEY
        rks = _round_keys(_KAT_KEY)
        for _ in range(1000000):
            b = _crypt(rks, b)
        assert b == _KAT_1M, "SM4 GB/T 32907 example 2 (1,000,000 rounds)"
        n += 1
    return n


if __name__ == "__main__":
    print("sm4 selftest:", selftest())
