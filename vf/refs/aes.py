"""Pure-Python AES (FIPS-197) reference implementation.

Independent oracle code: imports only the standard library.  The block
functions use the classic 32-bit T-table formulation; all tables are derived
at import time from the GF(2^8) definition of the S-box, nothing is pasted.
"""

import functools
import struct

__all__ = ["AES", "get_aes", "selftest"]


# ---------------------------------------------------------------- tables ---

def _xtime(a):
    a <<= 1
    if a & 0x100:
        a ^= 0x11B
    return a & 0xFF


def _gmul(a, b):
    r = 0
    while b:
        if b & 1:
            r ^= a
        a = _xtime(a)
        b >>= 1
    return r


def _build_sbox():
    # multiplicative inverse through log/antilog tables with generator 3
    exp = [0] * 255
    log = [0] * 256
    x = 1
    for i in range(255):
        exp[i] = x
        log[x] = i
        x ^= _xtime(x)  # multiply by 3
    sbox = [0] * 256
    for v in range(256):
        inv = 0 if v == 0 else exp[(255 - log[v]) % 255]
        s = inv
        r = inv
        for _ in range(4):
            r = ((r << 1) | (r >> 7)) & 0xFF
            s ^= r
        sbox[v] = s ^ 0x63
    return sbox


_SBOX = _build_sbox()
_INV_SBOX = [0] * 256
for _i, _s in enumerate(_SBOX):
    _INV_SBOX[_s] = _i


def _ror8(w):
    return ((w >> 8) | (w << 24)) & 0xFFFFFFFF


_TE0 = [0] * 256
_TD0 = [0] * 256
for _i in range(256):
    _s = _SBOX[_i]
    _TE0[_i] = (_gmul(_s, 2) << 24) | (_s << 16) | (_s << 8) | _gmul(_s, 3)
    _s = _INV_SBOX[_i]
    _TD0[_i] = (_gmul(_s, 14) << 24) | (_gmul(_s, 9) << 16) | (_gmul(_s, 13) << 8) | _gmul(_s, 11)
_TE1 = [_ror8(w) for w in _TE0]
_TE2 = [_ror8(w) for w in _TE1]
_TE3 = [_ror8(w) for w in _TE2]
_TD1 = [_ror8(w) for w in _TD0]
_TD2 = [_ror8(w) for w in _TD1]
_TD3 = [_ror8(w) for w in _TD2]

# final-round tables (S-box only, pre-shifted)
_S0 = [s << 24 for s in _SBOX]
_S1 = [s << 16 for s in _SBOX]
_S2 = [s << 8 for s in _SBOX]
_S3 = list(_SBOX)
_IS0 = [s << 24 for s in _INV_SBOX]
_IS1 = [s << 16 for s in _INV_SBOX]
_IS2 = [s << 8 for s in _INV_SBOX]
_IS3 = list(_INV_SBOX)

_RCON = [1]
while len(_RCON) < 14:
    _RCON.append(_xtime(_RCON[-1]))

_PACK = struct.Struct(">4I")


# ----------------------------------------------------------------- class ---

class AES:
    """AES block cipher with a 16, 24 or 32 byte key."""

    block_size = 16

    def __init__(self, key):
        key = bytes(key)
        if len(key) not in (16, 24, 32):
            raise ValueError("AES key must be 16, 24 or 32 bytes, got %d" % len(key))
        self.key_size = len(key)
        nk = len(key) // 4
        self.rounds = nr = nk + 6
        w = list(struct.unpack(">%dI" % nk, key))
        for i in range(nk, 4 * (nr + 1)):
            t = w[i - 1]
            if i % nk == 0:
                t = ((t << 8) | (t >> 24)) & 0xFFFFFFFF
                t = (_S0[t >> 24] | _S1[(t >> 16) & 255] | _S2[(t >> 8) & 255] | _S3[t & 255])
                t ^= _RCON[i // nk - 1] << 24
            elif nk > 6 and i % nk == 4:
                t = (_S0[t >> 24] | _S1[(t >> 16) & 255] | _S2[(t >> 8) & 255] | _S3[t & 255])
            w.append(w[i - nk] ^ t)
        self._ek = w
        # decryption schedule for the equivalent inverse cipher
        dk = []
        for r in range(nr, -1, -1):
            for c in range(4):
                v = w[4 * r + c]
                if 0 < r < nr:
                    v = (_TD0[_SBOX[v >> 24]] ^ _TD1[_SBOX[(v >> 16) & 255]]
                         ^ _TD2[_SBOX[(v >> 8) & 255]] ^ _TD3[_SBOX[v & 255]])
                dk.append(v)
        self._dk = dk

    def encrypt_block(self, block16):
        if len(block16) != 16:
            raise ValueError("AES block must be 16 bytes")
        k = self._ek
        s0, s1, s2, s3 = _PACK.unpack(block16)
        s0 ^= k[0]
        s1 ^= k[1]
        s2 ^= k[2]
        s3 ^= k[3]
        te0 = _TE0
        te1 = _TE1
        te2 = _TE2
        te3 = _TE3
        i = 4
        for _ in range(self.rounds - 1):
            t0 = te0[s0 >> 24] ^ te1[(s1 >> 16) & 255] ^ te2[(s2 >> 8) & 255] ^ te3[s3 & 255] ^ k[i]
            t1 = te0[s1 >> 24] ^ te1[(s2 >> 16) & 255] ^ te2[(s3 >> 8) & 255] ^ te3[s0 & 255] ^ k[i + 1]
            t2 = te0[s2 >> 24] ^ te1[(s3 >> 16) & 255] ^ te2[(s0 >> 8) & 255] ^ te3[s1 & 255] ^ k[i + 2]
            s3 = te0[s3 >> 24] ^ te1[(s0 >> 16) & 255] ^ te2[(s1 >> 8) & 255] ^ te3[s2 & 255] ^ k[i + 3]
            s0 = t0
            s1 = t1
            s2 = t2
            i += 4
        return _PACK.pack(
            (_S0[s0 >> 24] | _S1[(s1 >> 16) & 255] | _S2[(s2 >> 8) & 255] | _S3[s3 & 255]) ^ k[i],
            (_S0[s1 >> 24] | _S1[(s2 >> 16) & 255] | _S2[(s3 >> 8) & 255] | _S3[s0 & 255]) ^ k[i + 1],
            (_S0[s2 >> 24] | _S1[(s3 >> 16) & 255] | _S2[(s0 >> 8) & 255] | _S3[s1 & 255]) ^ k[i + 2],
            (_S0[s3 >> 24] | _S1[(s0 >> 16) & 255] | _S2[(s1 >> 8) & 255] | _S3[s2 & 255]) ^ k[i + 3],
        )

    def decrypt_block(self, block16):
        if len(block16) != 16:
            raise ValueError("AES block must be 16 bytes")
        k = self._dk
        s0, s1, s2, s3 = _PACK.unpack(block16)
        s0 ^= k[0]
        s1 ^= k[1]
        s2 ^= k[2]
        s3 ^= k[3]
        td0 = _TD0
        td1 = _TD1
        td2 = _TD2
        td3 = _TD3
        i = 4
        for _ in range(self.rounds - 1):
            t0 = td0[s0 >> 24] ^ td1[(s3 >> 16) & 255] ^ td2[(s2 >> 8) & 255] ^ td3[s1 & 255] ^ k[i]
            t1 = td0[s1 >> 24] ^ td1[(s0 >> 16) & 255] ^ td2[(s3 >> 8) & 255] ^ td3[s2 & 255] ^ k[i + 1]
            t2 = td0[s2 >> 24] ^ td1[(s1 >> 16) & 255] ^ td2[(s0 >> 8) & 255] ^ td3[s3 & 255] ^ k[i + 2]
            s3 = td0[s3 >> 24] ^ td1[(s2 >> 16) & 255] ^ td2[(s1 >> 8) & 255] ^ td3[s0 & 255] ^ k[i + 3]
            s0 = t0
            s1 = t1
            s2 = t2
            i += 4
        return _PACK.pack(
            (_IS0[s0 >> 24] | _IS1[(s3 >> 16) & 255] | _IS2[(s2 >> 8) & 255] | _IS3[s1 & 255]) ^ k[i],
            (_IS0[s1 >> 24] | _IS1[(s0 >> 16) & 255] | _IS2[(s3 >> 8) & 255] | _IS3[s2 & 255]) ^ k[i + 1],
            (_IS0[s2 >> 24] | _IS1[(s1 >> 16) & 255] | _IS2[(s0 >> 8) & 255] | _IS3[s3 & 255]) ^ k[i + 2],
            (_IS0[s3 >> 24] | _IS1[(s2 >> 16) & 255] | _IS2[(s1 >> 8) & 255] | _IS3[s0 & 255]) ^ k[i + 3],
        )


@functools.lru_cache(maxsize=256)
def _get_aes_cached(key):
    return AES(key)


def get_aes(key):
    """Return a (cached) AES object for ``key``."""
    return _get_aes_cached(bytes(key))


# -------------------------------------------------------------- selftest ---

_FIPS197_PT = "00112233445566778899aabbccddeeff"
_FIPS197 = [
    # (name, key, ciphertext)  -- FIPS-197 appendix C.1 / C.2 / C.3
    ("FIPS197-C.1-AES128", "000102030405060708090a0b0c0d0e0f",
     "69c4e0d86a7b0430d8cdb78070b4c55a"),
    ("FIPS197-C.2-AES192", "000102030405060708090a0b0c0d0e0f1011121314151617",
     "dda97ca4864cdfe06eaf70a0ec0d7191"),
    ("FIPS197-C.3-AES256", "000102030405060708090a0b0c0d0e0f101112131415161718191a1b1c1d1e1f",
     "8ea2b7ca516745bfeafc49904b496089"),
]


def selftest():
    """Run known-answer tests; return the number of assertions passed."""
    n = 0
    # S-box spot values from FIPS-197 figure 7 / figure 14
    for x, s in ((0x00, 0x63), (0x01, 0x7C), (0x53, 0xED), (0xFF, 0x16), (0x10, 0xCA)):
        assert _SBOX[x] == s, "AES sbox[%02x]" % x
        assert _INV_SBOX[s] == x, "AES inv sbox[%02x]" % s
        n += 2
    # FIPS-197 appendix B example
    a = AES(bytes.fromhex("2b7e151628aed2a6abf7158809cf4f3c"))
    assert a.encrypt_block(bytes.fromhex("3243f6a8885a308d313198a2e0370734")) == \
        bytes.fromhex("3925841d02dc09fbdc118597196a0b32"), "FIPS197-B"
    n += 1
    pt = bytes.fromhex(_FIPS197_PT)
    for name, key, ct in _FIPS197:
        a = AES(bytes.fromhex(key))
        assert a.encrypt_block(pt) == bytes.fromhex(ct), name + " encrypt"
        assert a.decrypt_block(bytes.fromhex(ct)) == pt, name + " decrypt"
        assert get_aes(bytes.fromhex(key)).encrypt_block(pt) == bytes.fromhex(ct), name + " cached"
        n += 3
    for bad in (0, 15, 17, 33):
        try:
            AES(bytes(bad))
        except ValueError:
            n += 1
        else:
            raise AssertionError("AES key length %d accepted" % bad)
    return n


if __name__ == "__main__":
    print("aes selftest:", selftest())
