"""RSA signature *verification* reference (RFC 8017), standard library only.

RSASSA-PKCS1-v1_5 and RSASSA-PSS with MGF1.  Both verifiers return ``False``
for anything malformed; they never raise for bad signatures.
"""

import hashlib

__all__ = ["verify_pkcs1v15", "verify_pss", "mgf1", "emsa_pkcs1v15_encode", "selftest"]

# DER DigestInfo prefixes (RFC 8017 section 9.2 note 1)
_DIGEST_INFO = {
    "sha1": bytes.fromhex("3021300906052b0e03021a05000414"),
    "sha224": bytes.fromhex("302d300d06096086480165030402040500041c"),
    "sha256": bytes.fromhex("3031300d060960864801650304020105000420"),
    "sha384": bytes.fromhex("3041300d060960864801650304020205000430"),
    "sha512": bytes.fromhex("3051300d060960864801650304020305000440"),
}


def _norm_hash(hashname):
    h = str(hashname).lower().replace("-", "").replace("_", "")
    if h not in _DIGEST_INFO:
        raise ValueError("unsupported hash %r" % (hashname,))
    return h


def _digest(hashname, message, prehashed):
    """Return the message digest, or None when a prehashed value has the wrong size."""
    hlen = hashlib.new(hashname).digest_size
    if prehashed:
        message = bytes(message)
        return message if len(message) == hlen else None
    return hashlib.new(hashname, bytes(message)).digest()


def _rsavp1(n, e, signature):
    """Return (k, m) or None when the signature representative is out of range."""
    if not isinstance(n, int) or not isinstance(e, int) or n < 3 or e < 1:
        return None
    k = (n.bit_length() + 7) // 8
    try:
        signature = bytes(signature)
    except (TypeError, ValueError):
        return None
    if len(signature) != k:
        return None
    s = int.from_bytes(signature, "big")
    if s >= n:
        return None
    return k, pow(s, e, n)


def emsa_pkcs1v15_encode(digest, em_len, hashname="sha256"):
    """EMSA-PKCS1-v1_5 encoding of an already computed digest (None if too short)."""
    t = _DIGEST_INFO[_norm_hash(hashname)] + bytes(digest)
    if em_len < len(t) + 11:
        return None
    return b"\x00\x01" + b"\xff" * (em_len - len(t) - 3) + b"\x00" + t


def verify_pkcs1v15(n, e, message, signature, hashname="sha256", prehashed=False):
    hashname = _norm_hash(hashname)
    rep = _rsavp1(n, e, signature)
    if rep is None:
        return False
    k, m = rep
    digest = _digest(hashname, message, prehashed)
    if digest is None:
        return False
    expected = emsa_pkcs1v15_encode(digest, k, hashname)
    if expected is None:
        return False
    return m.to_bytes(k, "big") == expected


def mgf1(seed, length, hashname="sha256"):
    out = b""
    counter = 0
    while len(out) < length:
        out += hashlib.new(hashname, bytes(seed) + counter.to_bytes(4, "big")).digest()
        counter += 1
    return out[:length]


def verify_pss(n, e, message, signature, hashname="sha256", salt_len=None, prehashed=False):
    """RSASSA-PSS-VERIFY.  ``salt_len`` None = digest length, -1 = any length."""
    hashname = _norm_hash(hashname)
    rep = _rsavp1(n, e, signature)
    if rep is None:
        return False
    _k, m = rep
    hlen = hashlib.new(hashname).digest_size
    if salt_len is None:
        salt_len = hlen
    if salt_len < -1:
        return False
    m_hash = _digest(hashname, message, prehashed)
    if m_hash is None:
        return False
    em_bits = n.bit_length() - 1
    em_len = (em_bits + 7) // 8
    if m.bit_length() > 8 * em_len:
        return False
    em = m.to_bytes(em_len, "big")
    # EMSA-PSS-VERIFY (RFC 8017 section 9.1.2)
    if em_len < hlen + max(salt_len, 0) + 2:
        return False
    if em[-1] != 0xBC:
        return False
    db_len = em_len - hlen - 1
    masked_db = em[:db_len]
    h = em[db_len:-1]
    zero_bits = 8 * em_len - em_bits
    if zero_bits and masked_db[0] >> (8 - zero_bits):
        return False
    db = bytearray(a ^ b for a, b in zip(masked_db, mgf1(h, db_len, hashname)))
    if zero_bits:
        db[0] &= 0xFF >> zero_bits
    if salt_len == -1:
        i = 0
        while i < db_len and db[i] == 0:
            i += 1
        if i == db_len or db[i] != 0x01:
            return False
        salt = bytes(db[i + 1:])
    else:
        ps_len = db_len - salt_len - 1
        if any(db[:ps_len]) or db[ps_len] != 0x01:
            return False
        salt = bytes(db[ps_len + 1:])
    return hashlib.new(hashname, bytes(8) + m_hash + salt).digest() == h


# -------------------------------------------------------------- selftest ---
# RSA-2048 key and signatures produced once with the `cryptography` package
# (OpenSSL) at development time; nothing is generated at run time.

_N_HEX = (
    "b642a62f13284be41128a2f9eedb3af59fc7f9050272f9d1f5fb2efae3370d3f"
    "d883b8c252f96bf52e506ad241046c999dfea71839e68c9c1ec60a621192fba2"
    "28c6b66c210bf9a52afaa4bc7aa73ab26c2f619fcc59223fca8a28e7ed076f40"
    "39dd2f7af53ee278530e163862d0b63da475cf8b65c7683097848430ddee8793"
    "bb3a7e3b10cedf4d6e131f563b3f313e4f8616a7f0775423f1366180748c061a"
    "e44b9f89d7118d230c1f7f38a1632f6f3a83eea2c4bad74e381b38a71b1d91f5"
    "64aaa3d5584303b66d48ca19b8ebc097004f61f0f3bbe3cb33a21eded8ff9423"
    "05b744a57b041418f56148849db3da4ab23d47d1da02b0181489d943d78f7e1b"
)
_E = 65537
_MSG = b"vf.refs.rsa selftest message"
_SIG_PKCS1_SHA256 = (
    "16ba12f9e081b6cc4f39e7f10e62f3e1837f358941470ea5fe3f6445936cbbd2"
    "7ba6a51bd2d4621b2631eb3c8a6b27a697842c3850da6d756c9ab515262329f2"
    "c1fa3b83cf6603e73b1c51be49f56a294aed3d07bfc802f8034ff4e639f9224e"
    "cd5e3a2a1fb05e1702a475a5bae5217f5780b9fe05d67895ab76fedf5e02f1e2"
    "44c31b8b0f1a029469565c50dd748c9e3e2e3685502fc523da45297c9ba78132"
    "f109d5ffbe9fe49f2fdc774b883052d89e3f016eda409cf76599ec18b26dbf68"
    "a6eef44cfd08b73acb7d9772e1db8a7edc3a444d9cd7cf06add8b2a9e9644591"
    "f65b0c28899a4b6a967e4769b9b35efaaf13801ce8c2ff877dff14d77c24ed42"
)
_SIG_PSS_SHA256_SALT32 = (
    "a0de674d9d15e3b4cf57cbb930a01148474655c807858b97a26d168eff2f603e"
    "384f64181d408ac56f1b2272feb7d390f671f855c2c05ea0867a51c0bd044984"
    "f2e2db81510a38f2df138240e239f6571cb4334ebfc39b17512309ae21fdb953"
    "fb24b4af0cf66e5b1cb77ceef784ec31c0b926da4145d829ce62c59e3a0e8171"
    "5886eff5f6d9765b3b2217f44fe8ea03e27cebb78a374bd0f31bfca5e853258c"
    "0c09d28654e3b420a1ef7a23281d07c0fed74f91ed9cd697dcd1d2505027169d"
    "9e680394a299a81132355f4c0f9cbb15e4298893e30f7632db4324a228f91820"
    "4f19d4e76c2e9bc86e99237b4f628b06b7d85bb7a7cdd81cc0d434bd983b06f2"
)
_SIG_PSS_SHA256_SALTMAX = (
    "03e3fc2e5c52a3f7cdcd8d622b6e68f8f336ddd55e61cf39bc999dc12b1f71d5"
    "6cbafc52d47333321c5555da9c285fa9a9aeb3cf19c306179c26c5f530507682"
    "6e905e05edb599f4e5a042a7ebe071db2f2a1e3d3e5eb0fdd216b3fd4e92230e"
    "65108e32729d9f9fef12f503ea4e4c2fb48d9957a02a2615e355e30002ccfee7"
    "dc01b311cacb641d13bca967be5cdeca788ab0b4126505f75a2b096d40cf2af2"
    "8f4a65503e766a06414ebb28d6b39b1e73c8bfa89267f52f0706bb5114465fad"
    "df3c1bea3a7e88ada3184e191024180c351d27c150434fac98b96612c80325d9"
    "137942ffdda79dca2da5f052a9b62522f0688f1f019796d76efec0acaf48a63d"
)
_SIG_PKCS1_SHA384 = (
    "4a24b1fd1bcbe008363b0da676ab0dbfa3e99a5ee8ddb25f8e5969279ad602aa"
    "9199ef2d0015ba4dcc79226d85dd9e4d747d4f2bb74bc45e4c49a10eef901223"
    "63b8d334943df10952fbf1ebd2724344f667399a1a16259e4a53a17560e13a72"
    "dcb09f7de75cb8e207a2a4cd0deff9ac072cd20d987398e4e6e191a73204045b"
    "dca07ed6cda496940df5caa2925545c8164a46cd9585ad2af2977865ef9ba706"
    "c9894f3e30f357d6f48eb98a0f8d6a9c916ca668965f246c58d9e9ecd59ee343"
    "0f2f19286b50176078df2dcb57b2a1b88888f9bb1261726e0d830faeab432efa"
    "5548d08c8d6a9d7ddce169ab0db9261622d4300beb04f259c245bf3689c7e701"
)


def _flip(data, index=0, bit=1):
    b = bytearray(data)
    b[index] ^= bit
    return bytes(b)


def selftest():
    """Run known-answer tests; return the number of assertions passed."""
    cnt = 0
    n = int(_N_HEX, 16)
    e = _E
    assert n.bit_length() == 2048, "RSA selftest modulus size"
    cnt += 1
    # MGF1 sanity: definition for a single block and prefix property
    assert mgf1(b"seed", 32) == hashlib.sha256(b"seed" + bytes(4)).digest(), "MGF1 first block"
    assert mgf1(b"seed", 70)[:32] == mgf1(b"seed", 32), "MGF1 prefix"
    assert mgf1(b"seed", 70)[32:64] == hashlib.sha256(b"seed\x00\x00\x00\x01").digest(), "MGF1 second block"
    cnt += 3

    sig = bytes.fromhex(_SIG_PKCS1_SHA256)
    dig = hashlib.sha256(_MSG).digest()
    assert verify_pkcs1v15(n, e, _MSG, sig), "PKCS1v15/SHA-256 accept"
    assert verify_pkcs1v15(n, e, _MSG, sig, "sha256"), "PKCS1v15/SHA-256 accept (explicit hash)"
    assert verify_pkcs1v15(n, e, dig, sig, "sha256", prehashed=True), "PKCS1v15/SHA-256 prehashed accept"
    assert not verify_pkcs1v15(n, e, _flip(_MSG), sig), "PKCS1v15 flipped message"
    assert not verify_pkcs1v15(n, e, _MSG, _flip(sig, 100)), "PKCS1v15 flipped signature"
    assert not verify_pkcs1v15(n, e, _MSG, _flip(sig, 255, 0x80)), "PKCS1v15 flipped signature (last byte)"
    assert not verify_pkcs1v15(n, e, _MSG, sig, "sha384"), "PKCS1v15 wrong hash"
    assert not verify_pkcs1v15(n, e, _MSG, sig[1:]), "PKCS1v15 short signature"
    assert not verify_pkcs1v15(n, e, _MSG, b"\x00" + sig), "PKCS1v15 long signature"
    assert not verify_pkcs1v15(n, e, _MSG, b"\xff" * 256), "PKCS1v15 s >= n"
    assert not verify_pkcs1v15(n, e, dig[:-1], sig, "sha256", prehashed=True), "PKCS1v15 short prehash"
    assert not verify_pkcs1v15(n, e, _MSG, bytes.fromhex(_SIG_PSS_SHA256_SALT32)), "PKCS1v15 given a PSS signature"
    cnt += 12
    sig384 = bytes.fromhex(_SIG_PKCS1_SHA384)
    assert verify_pkcs1v15(n, e, _MSG, sig384, "sha384"), "PKCS1v15/SHA-384 accept"
    assert not verify_pkcs1v15(n, e, _MSG, sig384, "sha256"), "PKCS1v15/SHA-384 wrong hash"
    cnt += 2

    pss = bytes.fromhex(_SIG_PSS_SHA256_SALT32)
    assert verify_pss(n, e, _MSG, pss), "PSS/SHA-256 accept (default salt)"
    assert verify_pss(n, e, _MSG, pss, "sha256", 32), "PSS/SHA-256 accept (salt 32)"
    assert verify_pss(n, e, _MSG, pss, "sha256", -1), "PSS/SHA-256 accept (auto salt)"
    assert verify_pss(n, e, dig, pss, "sha256", None, prehashed=True), "PSS/SHA-256 prehashed accept"
    assert not verify_pss(n, e, _flip(_MSG), pss), "PSS flipped message"
    assert not verify_pss(n, e, _MSG, _flip(pss, 17)), "PSS flipped signature"
    assert not verify_pss(n, e, _MSG, _flip(pss, 255)), "PSS flipped signature (last byte)"
    assert not verify_pss(n, e, _MSG, pss, "sha256", 20), "PSS wrong salt length 20"
    assert not verify_pss(n, e, _MSG, pss, "sha256", 222), "PSS wrong salt length max"
    assert not verify_pss(n, e, _MSG, pss, "sha384"), "PSS wrong hash"
    assert not verify_pss(n, e, _MSG, pss[:-1]), "PSS short signature"
    assert not verify_pss(n, e, _MSG, b"\xff" * 256), "PSS s >= n"
    assert not verify_pss(n, e, _MSG, bytes.fromhex(_SIG_PKCS1_SHA256), "sha256", -1), "PSS given a PKCS1 signature"
    cnt += 13
    pssmax = bytes.fromhex(_SIG_PSS_SHA256_SALTMAX)
    assert verify_pss(n, e, _MSG, pssmax, "sha256", 256 - 32 - 2), "PSS max salt accept"
    assert verify_pss(n, e, _MSG, pssmax, "sha256", -1), "PSS max salt accept (auto)"
    assert not verify_pss(n, e, _MSG, pssmax), "PSS max salt rejected with digest-length salt"
    assert not verify_pss(n, e, _MSG, pssmax, "sha256", 256 - 32 - 1), "PSS impossible salt length"
    cnt += 4
    return cnt


if __name__ == "__main__":
    print("rsa selftest:", selftest())
