"""Worker process: runs one shard of a property's cases and streams JSONL events."""
from __future__ import annotations

import importlib
import json
import os
import signal
import sys
import time
import traceback

from vf import core


class CaseTimeout(Exception):
    pass


class CaseCpuExceeded(Exception):
    """The case burnt more CPU time than any legitimate case comes near (load independent, unlike wall clock)."""


def _alarm(signum, frame):  # noqa: ARG001
    raise CaseTimeout()


def _cpu_alarm(signum, frame):  # noqa: ARG001
    # where is the interpreter spinning?  innermost frame that belongs to the tree under test or to /verif decides
    root = core.repo_root() + os.sep
    where, side = "?", "other"
    f = frame
    while f is not None:
        fn = os.path.abspath(f.f_code.co_filename) if not f.f_code.co_filename.startswith("<") else ""
        if fn.startswith(root):
            where, side = f"{os.path.basename(fn)}:{f.f_code.co_name}", "repo"
            break
        if fn.startswith(core.VERIF_ROOT + os.sep):
            where, side = f"{os.path.basename(fn)}:{f.f_code.co_name}", "verif"
            break
        f = f.f_back
    e = CaseCpuExceeded(where)
    e.side = side
    raise e


def load_prop(prop_id: str):
    return importlib.import_module(f"vf.props.{prop_id.lower()}")


def warm_database() -> None:
    from spsdk.utils.database import DatabaseManager

    DatabaseManager().quick_info  # noqa: B018  (creates / loads the cache single-threaded)


def run_one(prop, ctx: core.Ctx, idx: int, case: dict, timeout_s: int) -> None:
    ctx.begin_case(idx, case)
    t0 = time.monotonic()
    c0 = time.process_time()
    signal.signal(signal.SIGALRM, _alarm)
    signal.alarm(timeout_s)
    cpu_limit = float(os.environ.get("VERIF_CASE_CPU_LIMIT_S") or getattr(prop, "CASE_CPU_LIMIT_S", 420))
    signal.signal(signal.SIGPROF, _cpu_alarm)
    signal.setitimer(signal.ITIMER_PROF, cpu_limit)
    try:
        prop.run_case(case, ctx)
    except CaseTimeout:
        ctx._emit({"t": "timeout", "i": idx, "case": core.jsonable(case)})
    except CaseCpuExceeded as e:
        if getattr(e, "side", "") == "repo":
            # the tree under test spins: a hang witness that does not depend on the load of the machine
            ctx.violation(f"cpu-budget-exceeded:{e.args[0]}", {"cpu_limit_s": cpu_limit, "spinning_in": e.args[0]})
        else:
            ctx._emit({"t": "timeout", "i": idx, "case": core.jsonable(case)})
    except core.Inconclusive as e:
        ctx._emit({"t": "inconclusive", "i": idx, "why": str(e)[:300]})
    except core.StepBudgetExceeded as e:
        ctx.violation("step-budget-exceeded", {"what": str(e)})
    except Exception as e:  # pylint: disable=broad-except
        tb = traceback.format_exc()
        if core.origin_of(e) == "repo":
            mech = getattr(prop, "escape_mechanism", None)
            key = mech(case, e) if mech else None
            ctx.violation(key or f"escape:{type(e).__name__}", {"exception": core.exc_brief(e), "traceback": tb[-1500:]})
        else:
            ctx._emit({"t": "harness_error", "i": idx, "case": core.jsonable(case), "tb": tb[-2000:]})
    finally:
        signal.alarm(0)
        signal.setitimer(signal.ITIMER_PROF, 0)
    ctx._emit({"t": "case_end", "i": idx, "s": round(time.monotonic() - t0, 4), "cpu": round(time.process_time() - c0, 4)})


def enable_decoy_cwd(workdir: str) -> str:
    """The worker's working directory becomes a decoy: for every file written below the worker's scratch folder (the inputs a
    case prepares for SPSDK) a file of the same NAME with other content appears in the working directory.  A build takes
    its files from its project - the search paths it is given - wherever the tool is started."""
    workdir = os.path.abspath(workdir)
    decoy = os.path.join(workdir, "decoy_cwd")
    os.makedirs(decoy, exist_ok=True)
    os.chdir(decoy)
    garbage = bytes([0xDE, 0xC0, 0x1E, 0x00]) * 64
    last: dict = {}  # file name -> path of the file that was written under this name last time

    def hook(event, args):
        if event != "open" or len(args) < 2 or not isinstance(args[0], str) or not isinstance(args[1], str):
            return
        if not any(c in args[1] for c in "wax"):
            return
        ap = os.path.abspath(args[0])
        if not ap.startswith(workdir + os.sep) or ap.startswith(decoy + os.sep):
            return
        name = os.path.basename(ap)
        # the decoy gets what the file of this name held the last time one was written (an earlier case's well-formed input
        # of the same kind; the hook runs before the open truncates it) - meaningless bytes the first time
        content = garbage
        prev = last.get(name)
        if prev:
            try:
                fd = os.open(prev, os.O_RDONLY)
                try:
                    content = os.read(fd, 1 << 24) or garbage
                finally:
                    os.close(fd)
            except OSError:
                content = garbage
        last[name] = ap
        try:
            fd = os.open(os.path.join(decoy, name), os.O_WRONLY | os.O_CREAT | os.O_TRUNC, 0o644)
        except OSError:
            return
        try:
            os.write(fd, content)
        finally:
            os.close(fd)

    sys.addaudithook(hook)
    return decoy


def main(argv: list[str]) -> int:
    prop_id, tier, seed, shard, nshards, outfile = argv[0], argv[1], int(argv[2]), int(argv[3]), int(argv[4]), argv[5]
    mode = argv[6] if len(argv) > 6 else "run"
    if not os.environ.get(core.GUARD):
        print(f"{core.GUARD} is not set: refusing to instrument anything", file=sys.stderr)
        return 3
    workdir = os.environ["VERIF_WORKDIR"]
    os.makedirs(workdir, exist_ok=True)
    with open(outfile, "w", buffering=1 << 16) as out:
        ctx = core.Ctx(prop_id, tier, seed, shard, nshards, out, workdir)
        try:
            core.setup_import_path()
            prop = load_prop(prop_id)
            if hasattr(prop, "install_monitors"):
                prop.install_monitors(ctx)
            if getattr(prop, "DECOY_CWD", False) and mode in ("run", "replay"):
                enable_decoy_cwd(workdir)
            if getattr(prop, "ROTATING_PKI", 0) and mode == "run":
                from vf import pki

                pki.enable_rotation(workdir, f"{seed}/{prop_id}/{shard}/rotating-pki", float(prop.ROTATING_PKI))
        except Exception:  # pylint: disable=broad-except
            ctx._emit({"t": "fatal", "tb": traceback.format_exc()[-3000:]})
            return 2
        timeout_s = int(getattr(prop, "CASE_TIMEOUT_S", 120))
        if mode == "prepare":
            try:
                warm_database()
                st = prop.selftest(ctx) if hasattr(prop, "selftest") else None
                n = sum(1 for _ in prop.cases(tier, seed))
                ctx._emit({"t": "prepared", "ncases": n, "selftest": core.jsonable(st)})
            except Exception:  # pylint: disable=broad-except
                ctx._emit({"t": "fatal", "tb": traceback.format_exc()[-3000:]})
                return 2
        elif mode == "replay":
            with open(argv[7], encoding="utf-8") as f:
                rp = json.load(f)
            ctx.seed = int(rp.get("seed", seed))
            run_one(prop, ctx, int(rp["index"]), rp["case"], timeout_s)
        else:
            only = os.environ.get("VERIF_ONLY_CASE")
            for idx, case in enumerate(prop.cases(tier, seed)):
                if idx % nshards != shard:
                    continue
                if only is not None and idx != int(only):
                    continue
                run_one(prop, ctx, idx, case, timeout_s)
            if hasattr(prop, "finish"):
                try:
                    prop.finish(ctx)
                except Exception:  # pylint: disable=broad-except
                    ctx._emit({"t": "harness_error", "i": -1, "case": None, "tb": traceback.format_exc()[-2000:]})
        if getattr(prop, "ROTATING_PKI", 0) and mode == "run":
            from vf import pki

            ctx.count("rotating_pki_paths", pki.rotation_stats())
        ctx._emit({"t": "counters", "v": ctx.counters})
        ctx._emit({"t": "done"})
    return 0


if __name__ == "__main__":
    sys.exit(main(sys.argv[1:]))
