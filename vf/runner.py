"""./check <ID> [--tier quick|thorough] [--replay FILE] [--jobs N]

Spawns the workers, aggregates their event logs into a three-valued verdict, writes
evidence/<ID>.json and replay files.  Exit 0 held / 1 violation / 2 inconclusive.
"""
from __future__ import annotations

import argparse
import collections
import importlib
import json
import os
import shutil
import subprocess
import sys
import time

from vf import core

ROOT = core.VERIF_ROOT
PY = "/venv/bin/python"


def load_known(prop_id: str) -> dict[str, str]:
    path = os.path.join(ROOT, "known_findings.json")
    if not os.path.exists(path):
        return {}
    with open(path, encoding="utf-8") as f:
        data = json.load(f)
    return {e["key"]: e.get("what", "") for e in data.get("findings", []) if e.get("property") == prop_id}


def child_env(workdir: str, seed: int, tier: str) -> dict[str, str]:
    env = dict(os.environ)
    env.update(
        {
            core.GUARD: "1",
            "PYTHONHASHSEED": "0",
            "PYTHONPATH": f"{core.repo_root()}:{ROOT}",
            "SPSDK_CACHE_FOLDER": os.path.join(workdir, "cache"),
            "SPSDK_DEBUG_LOGGING_DISABLED": "1",
            "VERIF_WORKDIR": workdir,
            "VERIF_SEED": str(seed),
            "VERIF_TIER": tier,
            "VERIF_REPO": core.repo_root(),
            "PYTHONDONTWRITEBYTECODE": "1",
            "HOME": workdir,
        }
    )
    env.pop("SPSDK_CACHE_DISABLED", None)
    return env


def read_events(path: str):
    if not os.path.exists(path):
        return
    with open(path, encoding="utf-8") as f:
        for line in f:
            line = line.strip()
            if not line:
                continue
            try:
                yield json.loads(line)
            except json.JSONDecodeError:
                yield {"t": "garbled"}


def main(argv=None) -> int:
    ap = argparse.ArgumentParser()
    ap.add_argument("prop")
    ap.add_argument("--tier", default=os.environ.get("VERIF_TIER") or "quick", choices=["quick", "thorough"])
    ap.add_argument("--replay")
    ap.add_argument("--jobs", type=int, default=int(os.environ.get("VERIF_JOBS", "16")))
    ap.add_argument("--keep", action="store_true")
    args = ap.parse_args(argv)
    prop_id = args.prop.upper()
    seed = int(os.environ.get("VERIF_SEED") or 0)
    tier = args.tier
    t0 = time.monotonic()

    sys.path.insert(0, ROOT)
    prop = importlib.import_module(f"vf.props.{prop_id.lower()}")
    workdir = os.path.join(ROOT, ".work", f"{prop_id}-{os.getpid()}")
    shutil.rmtree(workdir, ignore_errors=True)
    os.makedirs(os.path.join(workdir, "cache"))
    env = child_env(workdir, seed, tier)
    watchdog = int(getattr(prop, "WATCHDOG_S", {}).get(tier, 1500 if tier == "quick" else 7200))
    reasons: list[str] = []
    try:
        return _run(prop, prop_id, tier, seed, args, workdir, env, watchdog, reasons, t0)
    finally:
        if not args.keep:
            shutil.rmtree(workdir, ignore_errors=True)


def _run(prop, prop_id, tier, seed, args, workdir, env, watchdog, reasons, t0) -> int:
    logs: list[str] = []
    # 1. prepare: warm the database cache single-threaded, reference self-tests, count cases
    prep = os.path.join(workdir, "prepare.jsonl")
    r = subprocess.run(
        [PY, "-m", "vf.worker", prop_id, tier, str(seed), "0", "1", prep, "prepare"],
        env=env, cwd=ROOT, capture_output=True, text=True, timeout=watchdog, check=False,
    )
    ncases, selftest = None, None
    for ev in read_events(prep):
        if ev["t"] == "prepared":
            ncases, selftest = ev["ncases"], ev.get("selftest")
        elif ev["t"] == "fatal":
            reasons.append("prepare failed: " + ev["tb"][-600:])
    if ncases is None and not reasons:
        reasons.append(f"prepare died rc={r.returncode}: {r.stderr[-600:]}")

    # 2. shards
    events: list[dict] = []
    if not reasons:
        if args.replay:
            nshards = 1
            out = os.path.join(workdir, "replay.jsonl")
            cmds = [[PY, "-m", "vf.worker", prop_id, tier, str(seed), "0", "1", out, "replay", os.path.abspath(args.replay)]]
            logs = [out]
        else:
            nshards = max(1, min(args.jobs, ncases or 1, int(getattr(prop, "MAX_JOBS", 16))))
            cmds = []
            for s in range(nshards):
                out = os.path.join(workdir, f"shard{s}.jsonl")
                logs.append(out)
                cmds.append([PY, "-m", "vf.worker", prop_id, tier, str(seed), str(s), str(nshards), out])
        procs = []
        for i, c in enumerate(cmds):
            # every worker gets its own copy of the warmed database cache: workers never share cache files, so
            # a cache-loader problem in the tree under test (property C18) cannot take other checks down
            wcache = os.path.join(workdir, f"cache{i}")
            shutil.copytree(os.path.join(workdir, "cache"), wcache, dirs_exist_ok=True)
            procs.append(subprocess.Popen(
                c, env=dict(env, VERIF_WORKDIR=os.path.join(workdir, f"w{i}"), SPSDK_CACHE_FOLDER=wcache), cwd=ROOT,
                stdout=subprocess.DEVNULL, stderr=subprocess.PIPE, text=True))
        deadline = time.monotonic() + watchdog
        for i, p in enumerate(procs):
            try:
                _, err = p.communicate(timeout=max(1.0, deadline - time.monotonic()))
            except subprocess.TimeoutExpired:
                p.kill()
                _, err = p.communicate()
                reasons.append(f"watchdog: shard {i} killed after {watchdog}s")
            if p.returncode not in (0, None) and not any("watchdog" in x for x in reasons):
                reasons.append(f"shard {i} exited rc={p.returncode}: {(err or '')[-400:]}")
        for i, lg in enumerate(logs):
            done = False
            for ev in read_events(lg):
                events.append(ev)
                if ev["t"] == "done":
                    done = True
            if not done:
                reasons.append(f"shard {i} did not finish")

    # 3. aggregate
    evaluations = refused = trivial = cases_run = 0
    sigs: set[str] = set()
    samples: list = []
    notes: dict[str, list] = collections.defaultdict(list)
    counters: collections.Counter = collections.Counter()
    refusal_reasons: collections.Counter = collections.Counter()
    viols: list[dict] = []
    case_time = 0.0
    slowest = (0.0, -1)
    slowest_cpu = (0.0, -1)
    for ev in events:
        t = ev["t"]
        if t == "ok":
            evaluations += ev.get("n", 1)
            if "sig" in ev:
                sigs.add(ev["sig"])
            if ev.get("triv"):
                trivial += ev.get("n", 1)
        elif t == "refused":
            evaluations += ev.get("n", 1)
            refused += ev.get("n", 1)
            refusal_reasons[ev.get("why", "")[:80]] += ev.get("n", 1)
        elif t == "viol":
            evaluations += 1
            viols.append(ev)
        elif t == "sample":
            if len(samples) < 8:
                samples.append(ev["v"])
        elif t == "note":
            if len(notes[ev["k"]]) < 12 and ev["v"] not in notes[ev["k"]]:
                notes[ev["k"]].append(ev["v"])
        elif t == "counters":
            counters.update(ev["v"])
        elif t == "case_end":
            cases_run += 1
            case_time += ev.get("s", 0)
            slowest = max(slowest, (ev.get("s", 0), ev.get("i", -1)))
            slowest_cpu = max(slowest_cpu, (ev.get("cpu", 0), ev.get("i", -1)))
        elif t == "harness_error":
            reasons.append(f"harness error in case {ev.get('i')}: {ev['tb'][-500:]}")
        elif t == "timeout":
            reasons.append(f"case {ev.get('i')} hit the wall-clock watchdog")
        elif t == "inconclusive":
            reasons.append(f"case {ev.get('i')}: {ev.get('why')}")
        elif t == "fatal":
            reasons.append("worker failed to start: " + ev["tb"][-500:])
        elif t == "garbled":
            reasons.append("garbled event log line")

    known = load_known(prop_id)
    by_mech: dict[str, list[dict]] = collections.defaultdict(list)
    for v in viols:
        by_mech[v["mech"]].append(v)
    replay_dir = os.path.join(ROOT, ".work", "replays")
    os.makedirs(replay_dir, exist_ok=True)
    new_violations = 0
    known_hit: dict[str, int] = {}
    lines: list[str] = []
    for mech, vs in sorted(by_mech.items()):
        if mech in known:
            known_hit[mech] = len(vs)
            lines.append(f"KNOWN-FINDING: property={prop_id} {mech}: {known[mech]} (observed {len(vs)}x)")
            continue
        new_violations += len(vs)
        for k, v in enumerate(vs[:3]):
            path = os.path.join(replay_dir, f"{prop_id}-{tier}-s{seed}-p{os.getpid()}-{mech.replace('/', '_').replace(':', '_')[:60]}-{k}.json")
            with open(path, "w", encoding="utf-8") as f:
                json.dump({"property": prop_id, "seed": seed, "tier": tier, "index": v["i"], "case": v["case"],
                           "mechanism": mech, "detail": v.get("detail")}, f, indent=1)
            lines.append(f"VIOLATION property={prop_id} replay={path}")
            lines.append(f"  mechanism={mech} detail={json.dumps(v.get('detail'))[:700]}")
    for k in known:
        if k not in known_hit and not args.replay:
            lines.append(f"NOTE: listed finding not observed in this run: property={prop_id} {k}")

    for c in getattr(prop, "REQUIRED_COUNTERS", []):
        if counters.get(c, 0) <= 0 and not args.replay:
            reasons.append(f"deciding monitor never reached: counter {c} == 0")
    if not args.replay and len(sigs) < 2:
        reasons.append(f"too few distinct non-trivial cases ({len(sigs)})")
    if not args.replay and ncases is not None and cases_run != ncases:
        reasons.append(f"cases run {cases_run} != cases generated {ncases}")

    wall = time.monotonic() - t0
    level = getattr(prop, "LEVEL", "exploration")
    coverage = {
        "evaluations": evaluations,
        "distinct_nontrivial": len(sigs),
        "rule": getattr(prop, "RULE", ""),
        "samples": samples or [{"note": "no sample recorded"}],
        "cases_generated": ncases,
        "cases_run": cases_run,
        "refused": refused,
        "trivial": trivial,
        "refusal_reasons_top": refusal_reasons.most_common(8),
        "monitor_evaluations": dict(counters),
        "reference_selftest": selftest,
        "known_findings_hit": known_hit,
        "observations": dict(notes),
        "worker_cpu_s": round(case_time, 2),
        "slowest_case_wall_s": {"s": slowest[0], "case": slowest[1]},
        "slowest_case_cpu_s": {"s": slowest_cpu[0], "case": slowest_cpu[1]},
        "inconclusive_reasons": reasons[:10],
    }
    if hasattr(prop, "extra_coverage"):
        try:
            coverage.update(prop.extra_coverage(events, counters))
        except Exception as e:  # pylint: disable=broad-except
            reasons.append(f"extra_coverage failed: {e}")
    evidence = {
        "property_id": prop_id,
        "tier": tier,
        "seed": seed,
        "level": level,
        "coverage": coverage,
        "assumptions": list(getattr(prop, "ASSUMPTIONS", [])),
        "wall_s": round(wall, 2),
        "violations": new_violations,
        "verdict": "violated" if new_violations else ("inconclusive" if reasons else "held-on-observed"),
    }
    if not args.replay:
        # evidence/ describes /repo; a run against another tree (VERIF_REPO: seeded changes, scratch worktrees) keeps its
        # evidence apart so that it never passes for a statement about /repo
        edir = os.environ.get("VERIF_EVIDENCE_DIR") or (
            os.path.join(ROOT, "evidence") if core.repo_root() == "/repo" else os.path.join(ROOT, ".work", "evidence-other-tree"))
        os.makedirs(edir, exist_ok=True)
        with open(os.path.join(edir, f"{prop_id}.json"), "w", encoding="utf-8") as f:
            json.dump(evidence, f, indent=1, sort_keys=True)
            f.write("\n")

    for ln in lines:
        print(ln)
    print(f"{prop_id} tier={tier} seed={seed}: cases={cases_run}/{ncases} evaluations={evaluations} "
          f"distinct_nontrivial={len(sigs)} refused={refused} violations={new_violations} "
          f"known={sum(known_hit.values())} wall={wall:.1f}s")
    if counters:
        print("  monitors: " + ", ".join(f"{k}={v}" for k, v in sorted(counters.items())[:40]))
    if new_violations:
        for rs in reasons[:5]:
            print(f"NOTE: also inconclusive in part: {rs[:300]}")
        return 1
    if reasons:
        for rs in reasons[:10]:
            print(f"INCONCLUSIVE property={prop_id} reason={rs}")
        return 2
    return 0


if __name__ == "__main__":
    sys.exit(main())
