"""Shared plumbing for the property checks (see DESIGN.md section 1).

A property module ``vf.props.cNN`` provides::

    ID = "C20"                      # property id
    LEVEL = "exploration"           # evidence level
    TECHNIQUE = "..."               # a few words
    RULE = "..."                    # how cases are generated / what is non-trivial
    ASSUMPTIONS = [...]
    REQUIRED_COUNTERS = [...]       # counters that must be > 0, else the run is inconclusive
    def selftest(ctx): ...          # reference-model self-test; raise => inconclusive
    def cases(tier, seed): ...      # deterministic iterable of JSON-able dicts
    def run_case(case, ctx): ...    # drives the real code, judges it, reports through ctx

Workers are plain child processes; every outcome is streamed as a JSON line.  The verdict is
three-valued: exit 0 held, exit 1 violation, exit 2 inconclusive.
"""
from __future__ import annotations

import hashlib
import json
import os
import random
import sys
import time
import traceback
from typing import Any, Callable, Iterable, Optional

VERIF_ROOT = os.path.dirname(os.path.dirname(os.path.abspath(__file__)))
GUARD = "SPSDK_VERIF_MONITORS"


def repo_root() -> str:
    return os.path.abspath(os.environ.get("VERIF_REPO", "/repo"))


def setup_import_path() -> None:
    """Put the tree under test first on sys.path and make sure that is what gets imported."""
    root = repo_root()
    if root in sys.path:
        sys.path.remove(root)
    sys.path.insert(0, root)
    tp = os.path.join(VERIF_ROOT, "third_party")
    if os.path.isdir(tp) and tp not in sys.path:
        sys.path.append(tp)  # LAST: never shadow the repository's own pins
    import spsdk  # noqa: E402

    f = os.path.abspath(spsdk.__file__)
    if not f.startswith(root + os.sep):
        raise Inconclusive(f"spsdk imported from {f}, not from {root}")


class Inconclusive(Exception):
    """The harness could not decide (never a violation)."""


class RefReject(Exception):
    """A reference model rejects the artifact it was given (reason in args[0])."""


class StepBudgetExceeded(Exception):
    """Deterministic step budget exhausted (a hang witness that does not depend on load)."""


def hx(b: Any, limit: int = 64) -> Any:
    """Short printable form of a value for samples / replay files."""
    if isinstance(b, (bytes, bytearray)):
        h = bytes(b).hex()
        if len(h) > 2 * limit:
            return f"{h[:limit]}..{h[-limit:]}(len={len(b)})"
        return h
    return b


def jsonable(o: Any, depth: int = 0) -> Any:
    if depth > 6:
        return str(type(o))
    if isinstance(o, (bytes, bytearray)):
        return hx(o)
    if isinstance(o, (str, int, float, bool)) or o is None:
        if isinstance(o, int) and not isinstance(o, bool) and abs(o) > 1 << 63:
            if o.bit_length() > 4096:  # never serialise monster integers (a mis-evaluated shift can have billions of bits)
                return f"<int of {o.bit_length()} bits>"
            return hex(o)
        if isinstance(o, str) and len(o) > 2000:
            return o[:1000] + "...(len=%d)" % len(o)
        return o
    if isinstance(o, dict):
        return {str(k): jsonable(v, depth + 1) for k, v in list(o.items())[:200]}
    if isinstance(o, (list, tuple, set, frozenset)):
        return [jsonable(v, depth + 1) for v in list(o)[:200]]
    s = repr(o)
    return s[:300]


def origin_of(exc: BaseException) -> str:
    """Where an exception was raised: 'repo' (tree under test or a library it called) or 'verif'."""
    tb = exc.__traceback__
    root = repo_root() + os.sep
    last = "verif"
    while tb is not None:
        raw = tb.tb_frame.f_code.co_filename
        if raw.startswith("<"):  # <frozen importlib...>, <string>: belongs to neither side
            tb = tb.tb_next
            continue
        fn = os.path.abspath(raw)
        if fn.startswith(root):
            last = "repo"
        elif fn.startswith(VERIF_ROOT + os.sep):
            last = "verif"
        tb = tb.tb_next
    # the innermost frame that belongs to either side decides (library frames are ignored)
    return last


def exc_brief(exc: BaseException) -> str:
    tb = traceback.extract_tb(exc.__traceback__)
    where = ""
    if tb:
        fr = tb[-1]
        where = f" @ {os.path.basename(fr.filename)}:{fr.lineno} {fr.name}"
    msg = str(exc).replace("\n", " ")
    return f"{type(exc).__name__}: {msg[:200]}{where}"


class Ctx:
    """Per-worker reporting context."""

    MAX_SAMPLES = 6

    def __init__(self, prop_id: str, tier: str, seed: int, shard: int, nshards: int, out, workdir: str):
        self.prop_id = prop_id
        self.tier = tier
        self.seed = seed
        self.shard = shard
        self.nshards = nshards
        self._out = out
        self.workdir = workdir
        self.counters: dict[str, int] = {}
        self.case_index = -1
        self.case: Optional[dict] = None
        self.rng = random.Random(f"{seed}/{prop_id}/selftest")
        self._samples = 0
        self._viol_in_case = 0
        self._sigs_seen: set = set()

    # -- plumbing -------------------------------------------------------------------------
    def _emit(self, rec: dict) -> None:
        self._out.write(json.dumps(rec, separators=(",", ":"), default=str) + "\n")

    def begin_case(self, index: int, case: dict) -> None:
        self.case_index = index
        self.case = case
        self._viol_in_case = 0
        self.rng = random.Random(f"{self.seed}/{self.prop_id}/{index}")

    def flush(self) -> None:
        self._out.flush()

    # -- outcomes -------------------------------------------------------------------------
    def ok(self, sig: Any, n: int = 1, nontrivial: bool = True, sample: Any = None) -> None:
        """One (or n) judged execution(s) that agreed with the oracle."""
        key = json.dumps(jsonable(sig), sort_keys=True, default=str)
        rec = {"t": "ok", "n": n}
        if nontrivial and key not in self._sigs_seen:
            self._sigs_seen.add(key)
            rec["sig"] = key
        if not nontrivial:
            rec["triv"] = 1
        self._emit(rec)
        if sample is not None and self._samples < self.MAX_SAMPLES:
            self._samples += 1
            self._emit({"t": "sample", "v": jsonable({"case": self.case_index, "sig": sig, "observed": sample})})

    def refused(self, sig: Any, reason: str = "", n: int = 1) -> None:
        """The code under test refused the input (counted, not judged)."""
        self._emit({"t": "refused", "n": n, "why": str(reason)[:160], "cls": jsonable(sig)})

    def violation(self, mech: str, detail: Any = None) -> None:
        """A refuting observation.  ``mech`` is the mechanism key used for known findings."""
        self._viol_in_case += 1
        if self._viol_in_case > 25:
            return
        self._emit(
            {
                "t": "viol",
                "mech": mech,
                "i": self.case_index,
                "case": jsonable(self.case),
                "detail": jsonable(detail),
            }
        )
        self.flush()

    def count(self, name: str, n: int = 1) -> None:
        self.counters[name] = self.counters.get(name, 0) + n

    def note(self, key: str, value: Any) -> None:
        self._emit({"t": "note", "k": key, "v": jsonable(value)})

    def sample(self, value: Any) -> None:
        if self._samples < self.MAX_SAMPLES:
            self._samples += 1
            self._emit({"t": "sample", "v": jsonable(value)})

    # -- calling the code under test ---------------------------------------------------------
    def call(self, fn: Callable, *a: Any, **kw: Any):
        """Call into the tree under test.  Returns (True, result) or (False, exception).

        Only the documented error families count as a refusal; everything else is re-raised so
        that the property decides (default: the worker reports an escape)."""
        try:
            return True, fn(*a, **kw)
        except Exception as e:  # pylint: disable=broad-except
            if is_refusal(e):
                return False, e
            raise


def is_refusal(e: BaseException) -> bool:
    """Documented error families of SPSDK."""
    try:
        from spsdk.exceptions import SPSDKError
    except Exception:  # pragma: no cover
        return False
    return isinstance(e, SPSDKError)


class Escape(Exception):
    """Internal: wraps a non-SPSDK exception escaping the tree under test."""


def stable_hash(*parts: Any) -> str:
    h = hashlib.sha256()
    for p in parts:
        h.update(repr(p).encode())
    return h.hexdigest()[:16]


def pick(rng: random.Random, seq):
    seq = list(seq)
    return seq[rng.randrange(len(seq))]


def rand_bytes(rng: random.Random, n: int) -> bytes:
    return rng.getrandbits(8 * n).to_bytes(n, "little") if n else b""


def now() -> float:
    return time.monotonic()
