"""C12 - per-device configuration areas: template, configuration and binary round trip.

Runtime monitoring: for every area instance the *database under test* offers (family x revision x
PFR CMPA/CFPA, IFR ROMCFG/CMACTABLE, BCA, FCF, FCB per memory type, XMCD per memory/block type,
TrustZone preset, fuse map, memory-configuration option words) the real classes are driven
through   template -> YAML -> schema -> load -> export -> parse -> export -> get_config -> load
with default, random, all-ones, all-zeros and per-enum values, and the observations are judged by
the round-trip laws and by an independent recomputation of the computed fields from the exported
bytes (inverse half-words, SEAL marker, ROTKH, XMCD CRC, block tags / sizes).

One case = one area instance (all its value draws) or one CLI sample.
"""
from __future__ import annotations

import copy
import hashlib
import io
import json
import os
import struct

from vf import core
from vf.props import c12_adapters as A
from vf.refs import crcs

ID = "C12"
LEVEL = "exploration"
TECHNIQUE = "runtime monitoring: round-trip laws + independent recomputation of computed fields over the database-wide cross product"
RULE = (
    "instances enumerated from the database under test (family x revision x area x sub-type/memory type/peripheral); "
    "quick: one instance per distinct (register-spec content hash, computed-field signature), rotated by the seed, 3 random "
    "draws; thorough: every instance, 10 random draws; each instance additionally gets defaults, all-ones, all-zeros and "
    "per-enum draws. A signature is (area kind, sub-type, specification hash, value mode); non-trivial = the template "
    "loaded and the area was exported/parsed/re-loaded and judged."
)
ASSUMPTIONS = [
    "documented sizes: PFR/IFR BINARY_SIZE, BCA.SIZE, FCF.SIZE, FCB.SIZE, XMCD = size field of its own header, "
    "TrustZone = 4 bytes per preset word, option words = 4 bytes per word the count rule yields",
    "bit-fields the database marks computed / hidden / reserved are not value-swept; they are recomputed from the bytes",
    "block-describing fields (BCA/FCB tag, XMCD header) are kept at their template values",
    "enumerated bit-fields are swept over the first value of every name (a later value that shares its name with an earlier "
    "one cannot be named by a configuration: recorded as known finding config-enum-name-shared-by-several-values, re-observed "
    "by a directed witness in every run)",
    "plain registers get values with non-zero end bytes (the length-class ambiguity of reversed registers with "
    "alternative widths is C11's known finding, not judged here)",
    "the fuse map has no binary layout: it is judged by the template and configuration laws only",
    "a PyYAML(1.1)/ruamel(1.2) difference in scalar typing is an observation; rejection by any of them is a violation",
    "the seal covers only words whose names say digest / CRC / CMAC (naming convention of the register data)",
    "whole-register raw values sweep the bits some uniquely named bit-field describes (hidden ones included); bits of "
    "equally named fields stay at reset (known finding config-bitfield-name-used-twice-in-one-register, directed witness), "
    "bits that no bit-field describes stay at reset",
    "a PFR register with a computed field that is given as ONE raw value is taken as it is (documented): not drawn raw",
]
REQUIRED_COUNTERS = [
    "template_yaml", "template_schema", "template_loads", "export_size", "parse_accepts", "reexport_identity",
    "config_roundtrip", "config_roundtrip_diff", "value_survives", "computed_inverse", "computed_seal",
    "computed_rotkh", "xmcd_crc", "xmcd_verify", "cli_template", "partial_configs", "computed_inverse_partial", "cli_binary_roundtrips",
]
# wall-clock guards only ever yield "inconclusive"; estimated for 16 idle cores: quick ~40 s (440 CPU-s), thorough ~9 min
# (8 000 CPU-s) - but the machine is shared and a run has been seen to get 3 % of a core per worker
CASE_TIMEOUT_S = 1800
WATCHDOG_S = {"quick": 3600, "thorough": 6 * 3600}
MAX_JOBS = 16

N_RANDOM = {"quick": 3, "thorough": 10}
N_ENUM = {"quick": 3, "thorough": 9}
N_CLI = {"quick": 2, "thorough": 6}
# whole registers set as ONE raw value (reserved and hidden bits included); not for the areas whose option words
# decide the layout of the rest (memcfg, xmcd) nor for the TrustZone word lists (no bit-fields)
N_RAWREG = {"quick": 1, "thorough": 4}
RAWREG_KINDS = ("pfr", "bca", "fcf", "fcb", "fuses")
# instances whose chain is slow (XMCD deep-copies its registers on every access, FCB / fuse schemas are large) are
# split over several cases (each takes every n-th value mode) so that the shards balance
PARTS = {("xmcd", "full"): 5, "xmcd": 2, "fcb": 3, "fuses": 3}


# ------------------------------------------------------------------------------------------
_SPEC_LOAD_ERRORS: list[str] = []


def install_monitors(ctx):
    """Observe SPSDK's own error channel: `Registers.__init__` swallows a specification that cannot be loaded and only
    logs "Loading of database failed ..." - the area then silently has fewer registers than its specification."""
    import logging

    class _Capture(logging.Handler):
        def emit(self, record):
            try:
                msg = record.getMessage()
            except Exception:  # pylint: disable=broad-except
                return
            if "Loading of database failed" in msg:
                _SPEC_LOAD_ERRORS.append(msg.replace("\n", " ")[:300])

    lg = logging.getLogger("spsdk")
    lg.addHandler(_Capture(level=logging.ERROR))
    lg.setLevel(logging.ERROR)  # thousands of "register has been recomputed" warnings otherwise
    lg.propagate = False


def selftest(ctx):
    n = crcs.selftest()
    # inverse / seal / ROTKH oracles on hand-made data
    assert _inverse_ok("pfr_reg_inverse_high_half", 0xFFFE0001) and not _inverse_ok("pfr_reg_inverse_high_half", 0x00000001)
    assert _inverse_ok("pfr_reg_inverse_lower_8_bits", 0x1234A55A) and not _inverse_ok("pfr_reg_inverse_lower_8_bits", 0x12345A5A)
    # RFC 6234 style ground truth for the hash used by the ROTKH oracle
    assert hashlib.sha256(b"abc").hexdigest().startswith("ba7816bf8f01cfea")
    assert _rkth("cert_block_1", [("rsa", 0x10001, 0xC5)]) == hashlib.sha256(
        hashlib.sha256(b"\xc5\x01\x00\x01").digest() + bytes(96)).digest()
    one = _rkth("cert_block_21", [("ecc", 256, 5, 7)])
    assert one == hashlib.sha256((5).to_bytes(32, "big") + (7).to_bytes(32, "big")).digest()
    import yaml
    from ruamel.yaml import YAML

    doc = "a: 0x10\nb:\n  c: 'x'  # comment\n"
    assert yaml.safe_load(doc) == YAML(typ="safe", pure=True).load(io.StringIO(doc)) == {"a": 16, "b": {"c": "x"}}
    return {"crcs": n, "oracles": 6}


# ------------------------------------------------------------------------------------------
def _witness(inst) -> bool:
    """Instances that carry a section-3 defect (selected by structure, so a data fix keeps them as ordinary cases)."""
    k = inst["kind"]
    if k == "pfr" and inst["sub"] == "cmactable":
        return True
    if k == "fcb" and inst["mem"] == "xspi_nor":
        return True
    if k == "memcfg" and inst["peripheral"] == "spi_nor":
        try:
            ad = A.ADAPTERS[k]
            rule = ad.computed_signature(inst)[1]
            if rule in ("OptionSize", "AcTimingMode"):
                with open(ad.spec_files(inst)[0], encoding="utf-8") as f:
                    return f'"{rule}"' not in f.read()
        except Exception:  # pylint: disable=broad-except
            return False
    return False


def cases(tier, seed):
    insts = A.enumerate_all()
    if tier == "thorough":
        chosen = insts
    else:
        groups: dict[str, list[dict]] = {}
        for i in insts:
            groups.setdefault(A.ADAPTERS[i["kind"]].signature(i), []).append(i)
        chosen = []
        seen_w = set()
        for sig in sorted(groups):
            g = groups[sig]
            pick = g[seed % len(g)]
            chosen.append(pick)
            # one directed witness per defect class, independent of the seed
            for i in g:
                if _witness(i):
                    wk = (i["kind"], i.get("sub"), i.get("mem"), i.get("peripheral"))
                    if wk not in seen_w:
                        seen_w.add(wk)
                        if i is not pick:
                            chosen.append(i)
                    break
    for i in chosen:
        modes = _modes(tier, i["kind"])
        parts = PARTS.get((i["kind"], i.get("cfgtype")), PARTS.get(i["kind"], 1))
        for p in range(parts):
            c = dict(i)
            c["op"] = "area"
            c["modes"] = modes[p::parts]
            c["part"] = p
            yield c
    kinds = sorted(A.ADAPTERS)
    for kind in kinds:
        for k in range(N_CLI[tier]):
            yield {"op": "cli", "kind": kind, "k": k}
    for k in range(8 if tier == "quick" else 80):
        yield {"op": "cli_binary", "kind": "pfr", "k": k}
    yield {"op": "naming_witness", "kind": "pfr"}


def _modes(tier, kind):
    m = ["default", "zeros", "ones"]
    if kind == "tz":
        return m + ["subset"] + [f"random{j}" for j in range(N_RANDOM[tier])]
    n_enum = N_ENUM[tier]
    if kind in ("fuses", "xmcd", "fcb"):
        # the slow chains (schema compiled on every load, XMCD deep-copies its registers on every access);
        # random draws pick a named value for 70 % of the enumerated fields anyway
        n_enum = 0 if tier == "quick" else 2
    raw = [f"rawreg{j}" for j in range(N_RAWREG[tier])] if kind in RAWREG_KINDS else []
    return m + [f"random{j}" for j in range(N_RANDOM[tier])] + [f"enum{j}" for j in range(n_enum)] + raw


def extra_coverage(events, counters):
    """Measured in the parent from the worker logs: judged (area kind, specification) pairs per kind."""
    per_kind: dict[str, set] = {}
    for ev in events:
        if ev.get("t") == "ok" and "sig" in ev:
            try:
                sig = json.loads(ev["sig"])
            except ValueError:
                continue
            if isinstance(sig, list) and len(sig) >= 4:
                per_kind.setdefault(str(sig[0]), set()).add((str(sig[1]), str(sig[2]), str(sig[3])))
    return {"judged_specifications_per_kind": {k: len(v) for k, v in sorted(per_kind.items())}}


# ------------------------------------------------------------------------------------------
# oracles that look only at bytes


def _inverse_ok(method: str, word: int):
    if method == "pfr_reg_inverse_high_half":
        return (word >> 16) & 0xFFFF == (~word) & 0xFFFF
    if method == "pfr_reg_inverse_lower_8_bits":
        return (word >> 8) & 0xFF == (~word) & 0xFF
    return None


def _rkth(rot_type: str, keys: list[tuple]) -> bytes:
    """Root-key-table hash from public numbers (hashlib only)."""
    rkhs = []
    for k in keys:
        if k[0] == "rsa":
            _, e, n = k
            rkhs.append(hashlib.sha256(n.to_bytes((n.bit_length() + 7) // 8, "big") + e.to_bytes((e.bit_length() + 7) // 8, "big")).digest())
        else:
            _, bits, x, y = k
            cs = (bits + 7) // 8
            h = {256: hashlib.sha256, 384: hashlib.sha384, 521: hashlib.sha512}[bits]
            rkhs.append(h(x.to_bytes(cs, "big") + y.to_bytes(cs, "big")).digest())
    if rot_type == "cert_block_1":
        table = b"".join(rkhs) + bytes(32 * (4 - len(rkhs)))
        return hashlib.sha256(table).digest()
    if len(rkhs) == 1:
        return rkhs[0]
    h = {32: hashlib.sha256, 48: hashlib.sha384, 64: hashlib.sha512}[len(rkhs[0])]
    return h(b"".join(rkhs)).digest()


def _make_keys(rng, rot_type: str):
    """Deterministic public keys: (SPSDK key objects, public numbers for the oracle)."""
    from cryptography.hazmat.primitives.asymmetric import ec, rsa
    from spsdk.crypto.keys import PublicKeyEcc, PublicKeyRsa

    cnt = rng.randrange(1, 5)
    objs, nums = [], []
    if rot_type == "cert_block_1":
        for _ in range(cnt):
            n = rng.getrandbits(2048) | (1 << 2047) | 1
            objs.append(PublicKeyRsa(rsa.RSAPublicNumbers(0x10001, n).public_key()))
            nums.append(("rsa", 0x10001, n))
    else:
        bits, curve = core.pick(rng, [(256, ec.SECP256R1()), (384, ec.SECP384R1())])
        for i in range(cnt):
            d = rng.getrandbits(bits - 8) | 1
            pub = ec.derive_private_key(d, curve).public_key()
            pn = pub.public_numbers()
            if i == 0 and rng.random() < 0.5:
                # a key with a coordinate that starts with a zero byte (1 key in 128): the record hashes the fixed-size form
                d = rng.randrange(2, 1 << 16)
                while min(pn.x.bit_length(), pn.y.bit_length()) > bits - 8:
                    d += 1
                    pub = ec.derive_private_key(d, curve).public_key()
                    pn = pub.public_numbers()
            objs.append(PublicKeyEcc(pub))
            nums.append(("ecc", bits, pn.x, pn.y))
    return objs, nums


# ------------------------------------------------------------------------------------------
# value generation


def _canon(bf, raw: int) -> int:
    """Canonical representative of the name class of ``raw`` in the specification's own enum table."""
    enums = [(e.name, e.get_value_int()) for e in bf.get_enums() if 0 <= e.get_value_int() < (1 << bf.width)]
    for _ in range(4):
        name = next((n for n, v in enums if v == raw), None)
        if name is None:
            return raw
        first = next(v for n, v in enums if n == name)
        if first == raw:
            return raw
        raw = first
    return raw


def _plain_value(reg, rng, mode: str):
    """(int value, user form) for a register without visible bit-fields."""
    widths = sorted(set((reg.alt_widths or []) + [reg.width]))
    w = core.pick(rng, widths) if mode in ("random", "enum") else widths[-1]
    nbytes = w // 8
    if mode == "zeros":
        val = 0
    elif mode == "ones":
        val = (1 << w) - 1
    else:
        b = bytearray(core.rand_bytes(rng, nbytes))
        b[0] = b[0] or 0x5A
        b[-1] = b[-1] or 0xA5
        if reg.config_as_hexstring and rng.random() < 0.3:
            # hexadecimal text that could be mistaken for another notation: decimal digits only, or the look of a binary literal
            if rng.random() < 0.6:
                b = bytearray(rng.choice(range(10)) * 16 + rng.choice(range(10)) for _ in range(nbytes))
                b[0] = b[0] or 0x12
            else:
                b = bytearray([0x0B] + [rng.choice((0x00, 0x01, 0x10, 0x11)) for _ in range(nbytes - 1)])
        val = int.from_bytes(b, "big")
    digits = nbytes * 2
    if reg.config_as_hexstring:
        user = f"{val:0{digits}X}"
    else:
        user = core.pick(rng, [f"0x{val:0{digits}X}", f"0x{val:x}", val]) if w <= 64 else f"0x{val:0{digits}X}"
    return val, w, user


def _reserved_name(name: str) -> bool:
    """Bit-fields the data marks reserved by their name (several may share the name inside one register)."""
    n = name.lower()
    return n.startswith(("reserved", "rsvd", "rfu", "restricted")) or n in ("-", "n/a")


def _draw(regs, rng, mode: str, k: int, frozen: set):
    """Settings dictionary for every user-visible register / bit-field + the expectations."""
    settings: dict = {}
    expect: list[dict] = []
    frozen_regs = {r for r, _ in frozen}
    for reg in regs.get_registers():
        if (reg.name, None) in frozen:
            continue
        bfs = reg.get_bitfields()
        if mode == "rawreg" and reg._bitfields:  # pylint: disable=protected-access
            # the whole register as ONE raw value: reserved / hidden bits get values too, and they are part of the area
            if reg.name in frozen_regs or reg.has_group_registers() or reg.reverse or reg.width > 64:
                continue
            # bits that no bit-field of the specification describes have no name in a configuration: they keep their
            # reset value (a configuration cannot carry them, so they are outside the swept range)
            described = 0
            all_names = [b.name for b in reg._bitfields]  # pylint: disable=protected-access
            for bf in reg._bitfields:  # pylint: disable=protected-access
                # (one of several equally named fields cannot be addressed by a configuration key either, see below)
                if bf.width > 0 and all_names.count(bf.name) == 1:
                    described |= ((1 << bf.width) - 1) << bf.offset
            described &= (1 << reg.width) - 1
            val = (rng.getrandbits(reg.width) & described) | (reg.get_reset_value() & ~described & ((1 << reg.width) - 1))
            # values that the specification gives one and the same name are one setting (see _canon)
            for bf in reg._bitfields:  # pylint: disable=protected-access
                if bf.width > 0 and bf.offset + bf.width <= reg.width and bf.get_enums():
                    m = ((1 << bf.width) - 1) << bf.offset
                    val = (val & ~m) | (_canon(bf, (val & m) >> bf.offset) << bf.offset)
            if reg.config_as_hexstring:
                user = f"{val:0{reg.width // 4}X}"
            else:
                user = core.pick(rng, [f"0x{val:0{reg.width // 4}X}", val, {"value": f"0x{val:X}"}])
            settings[reg.name] = user
            expect.append({"reg": reg.name, "bf": None, "raw": val, "w": reg.width})
            continue
        if mode == "rawreg":
            mode_ = "random"
        else:
            mode_ = mode
        if bfs:
            d: dict = {}
            used = 0
            names = [b.name for b in bfs]
            for bf in bfs:
                if (reg.name, bf.name) in frozen or bf.width <= 0 or _reserved_name(bf.name):
                    continue
                if names.count(bf.name) > 1:
                    continue  # a configuration key cannot address one of several equally named fields ("Restricted" x3)
                mask = ((1 << bf.width) - 1) << bf.offset
                if used & mask or bf.name in d:
                    continue  # alias registers may describe the same bits twice
                used |= mask
                enums = [e for e in bf.get_enums() if 0 <= e.get_value_int() < (1 << bf.width)]
                if mode == "zeros":
                    raw = 0
                elif mode == "ones":
                    raw = (1 << bf.width) - 1
                elif mode == "enum" and enums:
                    raw = enums[k % len(enums)].get_value_int()
                elif enums and rng.random() < 0.7:
                    raw = core.pick(rng, enums).get_value_int()
                else:
                    raw = rng.getrandbits(bf.width)
                by_name = None
                if enums:
                    raw = _canon(bf, raw)
                    by_name = next((e.name for e in enums if e.get_value_int() == raw), None)
                uval = bf.config_processor.post_process(raw)
                if by_name is not None:
                    user = by_name
                else:
                    user = core.pick(rng, [uval, f"0x{uval:X}", f"0x{uval:0{max(1, bf.config_width // 4)}X}"])
                d[bf.name] = user
                expect.append({"reg": reg.name, "bf": bf.name, "raw": raw, "uval": uval, "off": bf.offset, "w": bf.width})
            if d:
                settings[reg.name] = d
        elif not reg._bitfields:  # pylint: disable=protected-access
            val, w, user = _plain_value(reg, rng, mode_)
            settings[reg.name] = user
            expect.append({"reg": reg.name, "bf": None, "raw": val, "w": w})
    return settings, expect


# ------------------------------------------------------------------------------------------
# plumbing


def _try(ctx, ad, inst, step: str, fn, *a, **kw):
    """Run one step against the tree; an exception is classified and reported, (False, exc) returned."""
    try:
        return True, fn(*a, **kw)
    except core.Inconclusive:
        raise
    except Exception as e:  # pylint: disable=broad-except
        if not core.is_refusal(e) and core.origin_of(e) != "repo":
            raise
        ctx.violation(_classify(ad, inst, step, e), {"instance": ad.label(inst), "step": step, "exception": core.exc_brief(e),
                                                    "mode": inst.get("_mode")})
        return False, e


_SPEC_PROBLEMS: dict[str, list[str]] = {}


def _problems(ad, inst) -> list[str]:
    key = ad.label(inst)
    if key not in _SPEC_PROBLEMS:
        try:
            regs = ad.registers(ad.fresh(inst))
            _SPEC_PROBLEMS[key] = A.spec_problems(regs, addressed=ad.has_binary) if regs is not None else []
        except Exception:  # pylint: disable=broad-except
            _SPEC_PROBLEMS[key] = []
    return _SPEC_PROBLEMS[key]


_SPEC_EXPLAINED_STEPS = {
    "value-lost-on-load", "value-not-in-exported-bytes", "parse-changes-values", "reexport-differs",
    "config-roundtrip-changes-values", "config-roundtrip-changes-values-diff", "config-roundtrip-changes-binary",
    "config-roundtrip-changes-binary-diff", "yaml-roundtrip-changes-values", "load-of-create_config",
}


def _area_name(inst) -> str:
    return inst.get("sub") or inst["kind"]


def _classify(ad, inst, step: str, exc=None, hint: str = "") -> str:
    """Mechanism key decided by inspecting the case (never by its random values)."""
    kind = inst["kind"]
    name = _area_name(inst)
    tname = type(exc).__name__ if exc is not None else ""
    msg = str(exc) if exc is not None else ""
    if kind == "memcfg" and tname == "SPSDKRegsErrorBitfieldNotFound":
        rule = ad.computed_signature(inst)[1]
        if rule and f"The {rule} is not found" in msg:
            # the count rule of the database names a bit-field the peripheral's specification does not have
            return f"memcfg-ow-count-rule-{rule}-bitfield-missing"
    if kind == "fcb" and step in ("parse", "cli-parse") and "Tag value" in msg:
        if inst.get("_tag_from_template"):
            return f"fcb-{inst['mem'].split('_')[0]}-default-tag"
        return "fcb-parse-rejects-tag"
    if step.startswith("template-yaml"):
        return f"{name}-template-not-valid-yaml" + (":" + hint if hint else "")
    if kind != "tz" and (step in _SPEC_EXPLAINED_STEPS or step.startswith(("load-of-get_config", "export-after-get_config"))):
        probs = _problems(ad, inst)
        if any(p.startswith("group ") for p in probs):
            # a group register whose sub-registers do not exist in this revision's specification
            return f"{name}-group-register-incomplete"
        if probs:
            # laws broken on a specification whose registers overlap / share names
            return f"{name}-spec-overlapping-registers"
    key = f"{name}-{step}"
    if hint:
        key += ":" + hint
    if tname:
        key += ":" + tname
    return key


def _viol(ctx, ad, inst, step: str, detail: dict, hint: str = ""):
    d = {"instance": ad.label(inst), "step": step, "mode": inst.get("_mode")}
    d.update(detail)
    ctx.violation(_classify(ad, inst, step, None, hint), d)


def _first_diff(a, b):
    if isinstance(a, (bytes, bytearray)) and isinstance(b, (bytes, bytearray)):
        if len(a) != len(b):
            return {"len": [len(a), len(b)]}
        for i, (x, y) in enumerate(zip(a, b)):
            if x != y:
                return {"offset": i, "a": bytes(a[max(0, i - 4): i + 12]).hex(), "b": bytes(b[max(0, i - 4): i + 12]).hex()}
        return None
    if isinstance(a, list) and isinstance(b, list):
        if len(a) != len(b):
            return {"len": [len(a), len(b)]}
        out = [(x, y) for x, y in zip(a, b) if x != y][:4]
        return {"entries": [[core.jsonable(x), core.jsonable(y)] for x, y in out]} if out else None
    return None if a == b else {"a": core.jsonable(a), "b": core.jsonable(b)}


# ------------------------------------------------------------------------------------------
# template law


def _yaml_hint(text: str) -> str:
    """Why a template is not YAML: a plain key folded over two lines is the one mechanism known."""
    lines = text.splitlines()
    for i, ln in enumerate(lines[:-1]):
        s = ln.strip()
        if not s or s.startswith("#") or s.startswith("-"):
            continue
        if ":" not in s and lines[i + 1].strip() and not lines[i + 1].strip().startswith("#") and ":" in lines[i + 1]:
            return "long-key-folded"
    return ""


def _fast_yaml(text: str):
    import yaml

    return yaml.load(text, Loader=getattr(yaml, "CSafeLoader", yaml.SafeLoader))  # same YAML 1.1 rules as safe_load


def _yaml11_bool_leaf(a12, b11, path=""):
    """First leaf that is a string for the YAML 1.2 reader and a boolean for the YAML 1.1 reader."""
    if isinstance(a12, dict) and isinstance(b11, dict):
        for k in a12:
            if k in b11:
                r = _yaml11_bool_leaf(a12[k], b11[k], f"{path}/{k}")
                if r:
                    return r
        return None
    if isinstance(a12, str) and isinstance(b11, bool):
        return f"{path} = {a12!r}"
    return None


def _template_law(ctx, ad, inst, text: str, tag: str = "api"):
    """valid YAML for PyYAML, ruamel and load_configuration -> dict that satisfies the schemas."""
    import yaml
    from ruamel.yaml import YAML
    from spsdk.utils.misc import load_configuration
    from spsdk.utils.schema_validator import check_config

    if not isinstance(text, str) or not text.strip():
        _viol(ctx, ad, inst, "template-empty", {"type": type(text).__name__})
        return None
    ctx.count("template_yaml")
    parsed = {}
    errs = {}
    try:
        parsed["pyyaml"] = _fast_yaml(text)  # libyaml when available; load_configuration below runs the pure-Python safe_load
    except yaml.YAMLError as e:
        errs["pyyaml"] = str(e).replace("\n", " ")[:300]
    try:
        parsed["ruamel"] = YAML(typ="safe", pure=True).load(io.StringIO(text))
    except Exception as e:  # pylint: disable=broad-except  (ruamel's error classes)
        errs["ruamel"] = str(e).replace("\n", " ")[:300]
    os.makedirs(ctx.workdir, exist_ok=True)
    path = os.path.join(ctx.workdir, f"tmpl_{os.getpid()}_{tag}.yaml")
    with open(path, "w", encoding="utf-8") as f:
        f.write(text)
    try:
        parsed["spsdk"] = load_configuration(path)
    except Exception as e:  # pylint: disable=broad-except
        if not core.is_refusal(e):
            raise
        errs["spsdk"] = str(e).replace("\n", " ")[:300]
    finally:
        os.remove(path)
    if errs:
        ctx.violation(_classify(ad, inst, "template-yaml", None, _yaml_hint(text)),
                      {"instance": ad.label(inst), "source": tag, "rejected_by": errs, "template_len": len(text)})
        return None
    cfg = parsed["spsdk"]
    if not isinstance(cfg, dict) or parsed["pyyaml"] != cfg:
        _viol(ctx, ad, inst, "template-yaml-loaders-disagree", {"diff": _first_diff(parsed["pyyaml"], cfg)})
        return None
    bool_leaf = None
    if parsed["ruamel"] != cfg:
        bool_leaf = _yaml11_bool_leaf(parsed["ruamel"], cfg)
        ctx.note("yaml11_vs_yaml12_scalar_difference", [ad.label(inst), bool_leaf])
    ctx.count("template_schema")
    try:
        check_config(cfg, ad.schemas(inst))
    except Exception as e:  # pylint: disable=broad-except
        if not core.is_refusal(e) and core.origin_of(e) != "repo":
            raise
        if bool_leaf is not None and core.is_refusal(e):
            # the writer (ruamel, YAML 1.2) leaves Yes/No/On/Off unquoted, the reader (PyYAML, YAML 1.1) makes them booleans
            key = f"{_area_name(inst)}-template-enum-name-read-as-yaml11-bool"
        else:
            key = _classify(ad, inst, "template-schema", e)
        ctx.violation(key, {"instance": ad.label(inst), "source": tag, "exception": core.exc_brief(e), "bool_leaf": bool_leaf})
        return None
    return cfg


# ------------------------------------------------------------------------------------------
# the chain of laws for one configuration


def _bytes_value_law(ctx, ad, inst, regs_x, data: bytes, expect: list[dict]) -> int:
    """Every value that was set can be read from the exported bytes at the place the specification names."""
    n = 0
    by_name = {}
    for r in A.all_regs(regs_x):
        by_name.setdefault(r.name, r)
    for e in expect:
        reg = by_name.get(e["reg"])
        if reg is None:
            continue  # register not part of this layout (XMCD option word 1)
        nb = reg.width // 8
        if reg.offset + nb > len(data):
            continue  # beyond the exported words (option words)
        chunk = data[reg.offset: reg.offset + nb]
        if e["bf"] is not None:
            if reg.has_group_registers() or reg.reverse:
                continue
            got = (int.from_bytes(chunk, "little") >> e["off"]) & ((1 << e["w"]) - 1)
            want = e["raw"]
        elif reg.reverse:
            wb = e["w"] // 8
            got, want = chunk[:wb], e["raw"].to_bytes(wb, "big")
        else:
            got, want = int.from_bytes(chunk, "little"), e["raw"]
        n += 1
        if got != want:
            _viol(ctx, ad, inst, "value-not-in-exported-bytes",
                  {"register": e["reg"], "bitfield": e["bf"], "offset": reg.offset, "want": core.hx(want), "got": core.hx(got)})
            break
    return n


def _api_value_law(ctx, ad, inst, regs_x, expect: list[dict], where: str) -> int:
    n = 0
    by_name = {}
    for r in regs_x.get_registers():
        by_name.setdefault(r.name, r)
    for e in expect:
        reg = by_name.get(e["reg"])
        if reg is None:
            continue
        if e["bf"] is not None:
            bf = next((b for b in reg.get_bitfields() if b.name == e["bf"]), None)
            if bf is None:
                continue
            got, want = bf.get_value(), e["uval"]
        else:
            got, want = reg.get_value(), e["raw"]
        n += 1
        if got != want:
            _viol(ctx, ad, inst, "value-lost-" + where, {"register": e["reg"], "bitfield": e["bf"], "want": want, "got": got})
            break
    return n


def _computed_law(ctx, ad, inst, obj, data: bytes):
    """Computed fields recomputed from the bytes alone (offsets from the register specification)."""
    kind = inst["kind"]
    if kind == "pfr":
        comp = obj.computed_fields or {}
        for reg_uid, fields in comp.items():
            reg = obj.registers.get_reg(reg_uid)
            word = int.from_bytes(data[reg.offset: reg.offset + 4], "little")
            for _bf_uid, method in fields.items():
                verdict = _inverse_ok(method, word)
                if verdict is None:
                    raise core.Inconclusive(f"unknown compute method {method} in the database")
                ctx.count("computed_inverse")
                if not verdict:
                    _viol(ctx, ad, inst, "computed-inverse-wrong", {"register": reg.name, "method": method, "word": hex(word)})
    elif kind == "xmcd":
        ctx.count("xmcd_crc")
        want = crcs.crc32_mpeg2(data).to_bytes(4, "big")
        got = obj.crc
        if got != want:
            _viol(ctx, ad, inst, "crc-wrong", {"got": got, "want": want})
        hdr = int.from_bytes(data[0:4], "little")
        from spsdk.image.xmcd.xmcd import MEMORY_INTERFACE_TO_VALUE

        mem, ct = ad._types(inst)  # pylint: disable=protected-access
        want_hdr = {"tag": 0x0C, "version": 0, "interface": MEMORY_INTERFACE_TO_VALUE[mem], "blocktype": ct.tag, "size": len(data)}
        got_hdr = {"tag": hdr >> 28, "version": (hdr >> 24) & 0xF, "interface": (hdr >> 20) & 0xF, "blocktype": (hdr >> 12) & 0xF,
                   "size": hdr & 0xFFF}
        if got_hdr != want_hdr:
            _viol(ctx, ad, inst, "header-wrong", {"got": got_hdr, "want": want_hdr})
    elif kind == "bca":
        if data[0:4] != b"kcfg":
            _viol(ctx, ad, inst, "tag-wrong", {"got": data[0:4]})


def _chain(ctx, ad, inst, cfg: dict, expect: list[dict], mode: str) -> bool:
    """load -> export -> parse -> export -> get_config -> load; returns True when everything was judged clean."""
    inst["_mode"] = mode
    v0 = ctx._viol_in_case  # pylint: disable=protected-access
    ok, x = _try(ctx, ad, inst, "load", ad.load, inst, cfg)
    if not ok:
        return False
    ctx.count("template_loads" if mode == "default" else "draw_loads")
    regs_x = ad.registers(x)
    if regs_x is not None and expect:
        ctx.count("value_survives", _api_value_law(ctx, ad, inst, regs_x, expect, "on-load"))
    ok, state_x = _try(ctx, ad, inst, "state", ad.dump, x, regs_x)
    if not ok:
        return False
    data = None
    if ad.has_binary:
        ok, data = _try(ctx, ad, inst, "export", ad.export, x)
        if not ok:
            return False
        ok, want_size = _try(ctx, ad, inst, "size", ad.size, inst, x, data)
        if not ok:
            return False
        ctx.count("export_size")
        if len(data) != want_size:
            _viol(ctx, ad, inst, "export-size", {"len": len(data), "documented": want_size})
        if regs_x is not None and expect:
            ctx.count("value_survives", _bytes_value_law(ctx, ad, inst, regs_x, data, expect))
        _computed_law(ctx, ad, inst, x, data)
        # the area's own parser (and verifier) accepts the export, and re-export is the identity
        ctx.count("parse_accepts")
        ok, y = _try(ctx, ad, inst, "parse", ad.parse, inst, data)
        if ok:
            ver = ad.verify(y)
            if ver is not None:
                ctx.count("xmcd_verify")
                if ver:
                    _viol(ctx, ad, inst, "verifier-rejects-own-export", {"verifier": ver})
            ok2, data2 = _try(ctx, ad, inst, "re-export", ad.export, y)
            if ok2:
                ctx.count("reexport_identity")
                if data2 != data:
                    _viol(ctx, ad, inst, "reexport-differs", {"diff": _first_diff(data, data2)})
                if ad.dump(y) != state_x:
                    _viol(ctx, ad, inst, "parse-changes-values", {"diff": _first_diff(state_x, ad.dump(y))})
    # configuration round trip
    src = x
    if inst["kind"] == "tz":
        ok, src = _try(ctx, ad, inst, "parse", ad.parse, inst, data)
        if not ok:
            return False
    for diff in ([False, True] if ad.has_diff else [False]):
        step = "get_config-diff" if diff else "get_config"
        ok, c = _try(ctx, ad, inst, step, ad.get_config, src, diff)
        if not ok:
            continue
        if inst["kind"] == "tz":
            c["revision"] = inst["revision"]
        c_before = copy.deepcopy(c)
        ok, x2 = _try(ctx, ad, inst, "load-of-" + step, ad.load, inst, c)
        if not ok:
            continue
        ctx.count("config_roundtrip_diff" if diff else "config_roundtrip")
        if ad.dump(x2) != state_x:
            _viol(ctx, ad, inst, "config-roundtrip-changes-values" + ("-diff" if diff else ""),
                  {"diff": _first_diff(state_x, ad.dump(x2))})
        elif ad.has_binary:
            ok, d2 = _try(ctx, ad, inst, "export-after-" + step, ad.export, x2)
            if ok and d2 != data:
                _viol(ctx, ad, inst, "config-roundtrip-changes-binary" + ("-diff" if diff else ""), {"diff": _first_diff(data, d2)})
        if c != c_before:
            ctx.note("load_mutates_its_config_argument", inst["kind"])
    # the commented YAML the area writes for its user
    if mode in ("default", "random0") and inst["kind"] in ("bca", "fcf", "memcfg"):
        ok, text = _try(ctx, ad, inst, "create_config", ad.yaml_config, x)
        if ok:
            c = _template_law(ctx, ad, inst, text, tag="created")
            if c is not None:
                ok, x3 = _try(ctx, ad, inst, "load-of-create_config", ad.load, inst, c)
                if ok:
                    ctx.count("config_roundtrip")
                    if ad.dump(x3) != state_x:
                        _viol(ctx, ad, inst, "yaml-roundtrip-changes-values", {"diff": _first_diff(state_x, ad.dump(x3))})
    return ctx._viol_in_case == v0  # pylint: disable=protected-access


# ------------------------------------------------------------------------------------------
# PFR extras: seal marker and ROTKH


def _pfr_extras(ctx, ad, inst, cfg: dict, default: bool):
    from spsdk.pfr.exceptions import SPSDKPfrRotkhIsNotPresent

    inst["_mode"] = "seal"
    ok, x = _try(ctx, ad, inst, "load", ad.load, inst, cfg)
    if not ok:
        return
    ok, plain = _try(ctx, ad, inst, "export", ad.export, x)
    if not ok:
        return
    ok, sealed = _try(ctx, ad, inst, "export-seal", ad.export, x, add_seal=True)
    if not ok:
        return
    ok, sealed_again = _try(ctx, ad, inst, "export-seal", ad.export, x, add_seal=True)
    if ok and sealed_again != sealed:
        _viol(ctx, ad, inst, "sealed-export-of-the-same-object-differs-the-second-time", {"diff": _first_diff(sealed, sealed_again)})
        return
    cls = ad._cls(inst)  # pylint: disable=protected-access
    start_uid = A._db_get(inst["family"], inst["revision"], cls.FEATURE_NAME, [inst["sub"], "seal_start"], "")  # pylint: disable=protected-access
    count = A._db_get(inst["family"], inst["revision"], cls.FEATURE_NAME, [inst["sub"], "seal_count"], 0)  # pylint: disable=protected-access
    ctx.count("computed_seal")
    if not start_uid or not count:
        if sealed != plain:
            _viol(ctx, ad, inst, "seal-without-seal-data", {"diff": _first_diff(plain, sealed)})
    else:
        regs = A.all_regs(x.registers)
        off = next((r.offset for r in regs if r.uid == start_uid), None)
        if off is None:
            _viol(ctx, ad, inst, "seal-start-register-unknown", {"seal_start": start_uid})
            return
        end = off + 4 * int(count)
        want = bytearray(plain)
        want[off:end] = b"SEAL" * int(count)
        if len(sealed) != len(plain) or sealed != bytes(want):
            _viol(ctx, ad, inst, "seal-marker-wrong", {"seal": [off, end], "diff": _first_diff(bytes(want), sealed)})
        # the marker may only cover the digest / CRC / CMAC words of the page
        covered = [r.name for r in regs if off <= r.offset < end or r.offset <= off < r.offset + r.width // 8]
        is_digest = lambda n: any(t in n.upper() for t in ("DIGEST", "CRC", "CMAC", "SHA"))  # noqa: E731
        if end > len(plain) or not covered or not all(is_digest(n) for n in covered):
            _viol(ctx, ad, inst, "seal-range-not-on-digest-words", {"seal": [off, end], "covered": covered})
        ok, y = _try(ctx, ad, inst, "parse-sealed", ad.parse, inst, sealed)
        if ok:
            ok, again = _try(ctx, ad, inst, "export-seal", ad.export, y, add_seal=True)
            if ok and again != sealed:
                _viol(ctx, ad, inst, "sealed-reexport-differs", {"diff": _first_diff(sealed, again)})
    # ROTKH
    if inst["sub"] != "cmpa":
        return
    inst["_mode"] = "rotkh"
    rot_type = A._db_get(inst["family"], inst["revision"], "cert_block", "rot_type", "")  # pylint: disable=protected-access
    regs = A.all_regs(x.registers)
    rot = next((r for r in regs if r.name == "ROTKH"), None)
    if rot_type not in ("cert_block_1", "cert_block_21"):
        if rot is not None:
            ctx.note("rotkh_register_without_rot_type", ad.label(inst))
        return
    keys, nums = _make_keys(ctx.rng, rot_type)
    x2 = copy.deepcopy(x)
    try:
        out = ad.export(x2, keys=keys)
    except SPSDKPfrRotkhIsNotPresent:
        if rot is not None:
            _viol(ctx, ad, inst, "rotkh-refused-although-register-present", {})
        return
    except Exception as e:  # pylint: disable=broad-except
        if core.is_refusal(e) or core.origin_of(e) == "repo":
            ctx.violation(_classify(ad, inst, "export-rotkh", e), {"instance": ad.label(inst), "exception": core.exc_brief(e),
                                                                 "keys": [k[0:2] for k in nums]})
            return
        raise
    ctx.count("computed_rotkh")
    if rot is None:
        _viol(ctx, ad, inst, "rotkh-accepted-without-register", {})
        return
    want = _rkth(rot_type, nums)
    nb = rot.width // 8
    got = out[rot.offset: rot.offset + nb]
    if got != want.ljust(nb, b"\0"):
        _viol(ctx, ad, inst, "rotkh-wrong", {"got": got, "want": want, "keys": len(nums), "type": nums[0][0:2]})
    rest = bytearray(out)
    rest[rot.offset: rot.offset + nb] = plain[rot.offset: rot.offset + nb]
    if bytes(rest) != plain:
        _viol(ctx, ad, inst, "rotkh-export-changes-other-bytes", {"diff": _first_diff(plain, bytes(rest))})
    # explicit ROTKH bytes (on the template values only: a shorter hash does not clear a longer earlier value)
    if not default:
        return
    x3 = copy.deepcopy(x)
    ok, out3 = _try(ctx, ad, inst, "export-rotkh-bytes", ad.export, x3, rotkh=want)
    if ok and out3 != out:
        _viol(ctx, ad, inst, "rotkh-bytes-differs-from-keys", {"diff": _first_diff(out, out3)})


def _pfr_partial(ctx, ad, inst, cfg: dict, expect: list[dict], rng):
    """Partial configurations (a hand-written subset, the output of ``get_config(diff=True)``): a register that is left
    out keeps the value of a fresh area, a register that is given keeps the given values, and every register given by
    bit-fields without its computed field gets that field computed - wherever it stands among the computed registers."""
    inst["_mode"] = "partial"
    fresh = ad.fresh(inst)
    comp = fresh.computed_fields or {}
    settings = cfg[ad.settings_key]
    names = list(settings)
    comp_regs = {fresh.registers.get_reg(uid).name: (fresh.registers.get_reg(uid), fields) for uid, fields in comp.items()}
    present = [n for n in comp_regs if isinstance(settings.get(n), dict)]
    fresh_state = {e[0]: e for e in ad.dump(fresh)}
    for trial in range(3):
        keep = {n for n in names if rng.random() < 0.5}
        if len(present) >= 2:
            # the shape "an earlier computed register left out (or given raw), a later one given by bit-fields"
            i = rng.randrange(len(present) - 1)
            keep.discard(present[i])
            keep.add(present[rng.randrange(i + 1, len(present))])
        part = copy.deepcopy(cfg)
        part[ad.settings_key] = {n: copy.deepcopy(settings[n]) for n in names if n in keep}
        ok, x = _try(ctx, ad, inst, "load", ad.load, inst, part)
        if not ok:
            return
        ok, data = _try(ctx, ad, inst, "export", ad.export, x)
        if not ok:
            return
        ctx.count("partial_configs")
        _api_value_law(ctx, ad, inst, ad.registers(x), [e for e in expect if e["reg"] in keep], "on-partial-load")
        for e in ad.dump(x):
            top = e[0].split("/")[0]
            if top not in keep and e[0] in fresh_state and e != fresh_state[e[0]]:
                _viol(ctx, ad, inst, "partial-config-changes-register-left-out", {"register": e[0], "got": e[2], "fresh": fresh_state[e[0]][2]})
                break
        for name, (reg, fields) in comp_regs.items():
            if name not in keep or not isinstance(settings.get(name), dict):
                continue
            word = int.from_bytes(data[reg.offset: reg.offset + 4], "little")
            for bf_uid, method in fields.items():
                if reg.get_bitfield(bf_uid).name in settings[name]:
                    continue
                ctx.count("computed_inverse_partial")
                if _inverse_ok(method, word) is False:
                    _viol(ctx, ad, inst, "computed-inverse-wrong", {"register": name, "method": method, "word": hex(word),
                                                                    "registers_given": len(keep), "partial": True})
        # the SAME object is configured a second time (an in-field update: parse / load, then set other values): the
        # computed fields follow the values the registers hold now, nothing of the earlier inverse may stay behind
        given2 = [n for n in comp_regs if n in keep and isinstance(settings.get(n), dict)]
        if given2 and hasattr(x, "set_config"):
            settings2, expect2 = _draw(ad.registers(ad.fresh(inst)), rng, "random", 0, ad.frozen_fields(inst))
            second = {n: settings2[n] for n in given2 if isinstance(settings2.get(n), dict)}
            if second:
                ok, _ = _try(ctx, ad, inst, "second-set_config", x.set_config, copy.deepcopy(second))
                if ok:
                    ok, data2 = _try(ctx, ad, inst, "export", ad.export, x)
                if ok:
                    ctx.count("second_configurations_on_one_object")
                    _api_value_law(ctx, ad, inst, ad.registers(x), [e for e in expect2 if e["reg"] in second], "on-second-set_config")
                    for name in second:
                        reg, fields = comp_regs[name]
                        word = int.from_bytes(data2[reg.offset: reg.offset + 4], "little")
                        for bf_uid, method in fields.items():
                            if reg.get_bitfield(bf_uid).name in second[name]:
                                continue
                            if _inverse_ok(method, word) is False:
                                _viol(ctx, ad, inst, "computed-inverse-wrong", {"register": name, "method": method, "word": hex(word),
                                                                                "after": "second set_config on the same object"})


# ------------------------------------------------------------------------------------------
# TrustZone draws (name -> word table, no Registers object)


def _tz_draw(ad, inst, rng, mode: str, names: list[str]):
    words = {}
    for n in names:
        if mode == "zeros":
            v = 0
        elif mode == "ones":
            v = 0xFFFFFFFF
        else:
            v = rng.getrandbits(32)
        words[n] = v
    subset = names if mode != "subset" else [n for n in names if rng.random() < 0.3]
    preset = {n: core.pick(rng, [f"0x{words[n]:08X}", f"0x{words[n]:x}", words[n], str(words[n])]) for n in subset}
    return preset, words, subset


def _tz_bytes_law(ctx, ad, inst, data: bytes, names, words, subset, defaults):
    got = list(struct.unpack(f"<{len(data) // 4}I", data[: len(data) // 4 * 4]))
    want = [words[n] if n in subset else defaults[n] for n in names]
    ctx.count("value_survives", len(names))
    if got != want:
        i = next((i for i, (a, b) in enumerate(zip(got, want)) if a != b), None)
        _viol(ctx, ad, inst, "value-not-in-exported-bytes", {"word": i, "name": names[i] if i is not None and i < len(names) else None,
                                                           "len": [len(got), len(want)]})


# ------------------------------------------------------------------------------------------
def _run_cli_binary(case, ctx):
    """PFR / IFR through the tools: a page made from a drawn configuration -> ``parse-binary`` -> ``generate-binary`` gives
    the page again - for ANY revision of the family (the register set of an older revision may differ from the latest)."""
    import yaml
    from click.testing import CliRunner
    from spsdk.utils.database import get_db

    ad = A.ADAPTERS["pfr"]
    insts = [i for i in A.enumerate_all() if i["kind"] == "pfr"]
    older = [i for i in insts if get_db(i["family"], "latest").name != i["revision"]]
    # half of the draws: a revision whose register specification is not the one of the latest revision
    differing = [i for i in older if ad.spec_files(i) != ad.spec_files(dict(i, revision="latest"))]
    pool = differing if (differing and case["k"] % 2 == 0) else insts
    if case["k"] % 4 == 2:
        # every other 'differing' draw is an IFR page (its own command line tool): few of them differ between revisions
        pool = [i for i in differing if i["sub"] in ("romcfg", "cmactable")] or pool
    inst = dict(core.pick(ctx.rng, pool))
    inst["_mode"] = "cli-binary"
    outdir = os.path.join(ctx.workdir, f"clibin_{os.getpid()}_{case['k']}")
    os.makedirs(outdir, exist_ok=True)
    ok, text = _try(ctx, ad, inst, "template", ad.template, inst)
    if not ok:
        return
    cfg = _fast_yaml(text)
    fresh = ad.fresh(inst)
    settings, _expect = _draw(ad.registers(fresh), ctx.rng, "random", 0, ad.frozen_fields(inst))
    cfg[ad.settings_key].update(settings)
    ok, x = _try(ctx, ad, inst, "load", ad.load, inst, cfg)
    if not ok:
        return
    ok, page = _try(ctx, ad, inst, "export", ad.export, x)
    if not ok:
        return
    binp, ymlp, outp = (os.path.join(outdir, n) for n in ("page.bin", "parsed.yaml", "again.bin"))
    with open(binp, "wb") as f:
        f.write(page)
    ifr = inst["sub"] in ("romcfg", "cmactable")
    main = ad.cli_main(inst)
    area = ["-s", {"romcfg": "ROMCFG", "cmactable": "CMACTable"}[inst["sub"]]] if ifr else ["-t", inst["sub"]]
    a1 = ["parse-binary", "-f", inst["family"], "-r", inst["revision"]] + area + ["-b", binp, "-o", ymlp]
    res = CliRunner().invoke(main, a1)
    ctx.count("cli_binary_roundtrips")
    detail = {"instance": ad.label(inst), "args": a1[:8]}
    if res.exit_code != 0 or not os.path.isfile(ymlp):
        exc = res.exception if isinstance(res.exception, Exception) else None
        if exc is not None and not core.is_refusal(exc) and core.origin_of(exc) != "repo":
            raise exc
        _viol(ctx, ad, inst, "cli-parse-binary-fails", dict(detail, exit_code=res.exit_code, output=res.output[-300:],
                                                            exception=core.exc_brief(exc) if exc else None))
        return
    # (--ignore: the brick-condition rules of `pfr` judge the VALUES, which are random here; they are not C12's subject)
    a2 = ["generate-binary"] + (["-f", inst["family"], "-r", inst["revision"]] if ifr else ["--ignore"]) + ["-c", ymlp, "-o", outp]
    res = CliRunner().invoke(main, a2)
    if res.exit_code != 0 or not os.path.isfile(outp):
        exc = res.exception if isinstance(res.exception, Exception) else None
        if exc is not None and not core.is_refusal(exc) and core.origin_of(exc) != "repo":
            raise exc
        _viol(ctx, ad, inst, "cli-generate-binary-refuses-parsed-configuration", dict(detail, args2=a2[:6], exit_code=res.exit_code,
                                                                                    output=res.output[-300:], exception=core.exc_brief(exc) if exc else None))
        return
    with open(outp, "rb") as f:
        again = f.read()
    if again != page:
        _viol(ctx, ad, inst, "cli-binary-roundtrip-differs", dict(detail, diff=_first_diff(page, again)))
        return
    parsed_cfg = yaml.safe_load(open(ymlp, encoding="utf-8"))
    named = parsed_cfg.get("revision")
    if named is not None and str(named) not in (inst["revision"], "latest" if get_db(inst["family"], "latest").name == inst["revision"] else inst["revision"]):
        _viol(ctx, ad, inst, "cli-parse-binary-writes-another-revision", dict(detail, written=named, asked=inst["revision"]))
        return
    ctx.ok(["cli-binary", inst["sub"], "older-revision" if inst in older or get_db(inst["family"], "latest").name != inst["revision"] else "latest"],
           sample={"instance": ad.label(inst), "registers_in_parsed_configuration": len(parsed_cfg.get(ad.settings_key, {}))})


K_ENUM_ALIAS = "config-enum-name-shared-by-several-values"
K_BF_NAME_TWICE = "config-bitfield-name-used-twice-in-one-register"
K_BITS_UNNAMED = "config-register-bits-without-bitfield-are-dropped"
NAMING_WITNESS_INSTANCES = [
    {"kind": "pfr", "family": "mcxn546", "revision": "a0", "sub": "cmpa"},
    {"kind": "fuses", "family": "mimx9131", "revision": "a0"},
    {"kind": "fuses", "family": "mcxn546", "revision": "a0"},
]


def _run_naming_witness(case, ctx):
    """Directed witnesses of the three places where a CONFIGURATION cannot name what a register holds (the value sweeps
    stay on the nameable side of them, see ASSUMPTIONS): a raw value on the other side is in range for the register, and
    object -> configuration -> load loses it.  Looked up by structure in fixed instances, so a data repair turns the
    witness into an ordinary clean case."""
    for inst0 in NAMING_WITNESS_INSTANCES:
        inst = dict(inst0)
        ad = A.ADAPTERS[inst["kind"]]
        inst["_mode"] = "naming-witness"
        try:
            fresh = ad.fresh(inst)
        except Exception as e:  # pylint: disable=broad-except
            if core.origin_of(e) != "repo" and not core.is_refusal(e):
                raise
            continue  # the instance is not in the database under test
        found: dict = {}
        for reg in ad.registers(fresh).get_registers():
            bfs = [b for b in reg._bitfields if b.width > 0 and b.offset + b.width <= reg.width]  # pylint: disable=protected-access
            if not bfs or reg.has_group_registers() or reg.reverse or reg.width > 64:
                continue
            names = [b.name for b in bfs]
            described = 0
            for b in bfs:
                described |= ((1 << b.width) - 1) << b.offset
            free = ~described & ((1 << reg.width) - 1)
            base = reg.get_reset_value()
            if K_BITS_UNNAMED not in found and free:
                bit = free & -free
                found[K_BITS_UNNAMED] = (reg.name, base ^ bit, f"bit {bit.bit_length() - 1} belongs to no bit-field")
            for b in bfs:
                if K_BF_NAME_TWICE not in found and names.count(b.name) > 1 and names.index(b.name) != bfs.index(b):
                    cur = (base >> b.offset) & ((1 << b.width) - 1)
                    found[K_BF_NAME_TWICE] = (reg.name, base ^ (((cur ^ 1) ^ cur) << b.offset), f"second bit-field called {b.name!r} at bit {b.offset}")
                enums = [(e.name, e.get_value_int()) for e in b.get_enums() if 0 <= e.get_value_int() < (1 << b.width)]
                if K_ENUM_ALIAS not in found and names.count(b.name) == 1:
                    for n, v in enums:
                        first = next(v2 for n2, v2 in enums if n2 == n)
                        if first != v:
                            val = (base & ~(((1 << b.width) - 1) << b.offset)) | (v << b.offset)
                            found[K_ENUM_ALIAS] = (reg.name, val, f"{b.name} = {v} carries the name {n!r} of the value {first}")
                            break
        for key, (rname, val, why) in found.items():
            obj = ad.fresh(inst)
            reg = ad.registers(obj).find_reg(rname)
            reg.set_value(val, raw=True)
            ok, cfg = _try(ctx, ad, inst, "get_config", ad.get_config, obj, False)
            if not ok:
                continue
            if inst["kind"] == "pfr":
                cfg = dict(cfg)
            ok, back = _try(ctx, ad, inst, "load-of-get_config", ad.load, inst, cfg)
            if not ok:
                continue
            got = ad.registers(back).find_reg(rname).get_value(raw=True)
            ctx.count("naming_witnesses")
            if got != val:
                ctx.violation(key, {"instance": ad.label(inst), "register": rname, "value": hex(val), "after_configuration_round_trip": hex(got), "why": why})
            else:
                ctx.ok(["naming-witness", key, ad.label(inst)], sample={"register": rname, "value": hex(val), "why": why, "survives": True})


def run_case(case, ctx):
    if case["op"] == "naming_witness":
        return _run_naming_witness(case, ctx)
    if case["op"] == "cli":
        return _run_cli(case, ctx)
    if case["op"] == "cli_binary":
        return _run_cli_binary(case, ctx)
    inst = dict(case)
    ad = A.ADAPTERS[inst["kind"]]
    rng = ctx.rng
    del _SPEC_LOAD_ERRORS[:]
    try:
        _run_area(case, ctx, inst, ad, rng)
    finally:
        if _SPEC_LOAD_ERRORS:
            ctx.count("spec_load_errors_seen", len(_SPEC_LOAD_ERRORS))
            ctx.violation(f"{_area_name(inst)}-register-spec-not-loadable",
                          {"instance": ad.label(inst), "spsdk_error_log": _SPEC_LOAD_ERRORS[0], "times": len(_SPEC_LOAD_ERRORS)})
            del _SPEC_LOAD_ERRORS[:]


def _run_area(case, ctx, inst, ad, rng):
    tier = ctx.tier
    spec = "+".join(A.file_hash(p) for p in ad.spec_files(inst))
    sigbase = [inst["kind"], inst.get("sub") or inst.get("mem") or inst.get("peripheral") or "", inst.get("cfgtype", ""), spec]

    ok, text = _try(ctx, ad, inst, "template", ad.template, inst)
    if not ok:
        return
    if case.get("part", 0) == 0:
        cfg0 = _template_law(ctx, ad, inst, text)
    else:  # the template law is judged by part 0 of this instance; here the template is only the base of the draws
        try:
            cfg0 = _fast_yaml(text)
        except Exception:  # pylint: disable=broad-except
            cfg0 = None
    if cfg0 is None:
        return
    if ad.settings_key not in cfg0 or not isinstance(cfg0[ad.settings_key], dict):
        _viol(ctx, ad, inst, "template-without-settings", {"keys": sorted(cfg0)})
        return

    if inst["kind"] == "fcb":
        inst["_tag_from_template"] = True  # the tag is never drawn: it always comes from the template
    modes = list(case["modes"])
    if "default" in modes:
        if _chain(ctx, ad, inst, cfg0, [], "default"):
            ctx.ok(sigbase + ["default"], sample={"instance": ad.label(inst), "template_bytes": len(text), "mode": "default"})
        if inst["kind"] == "pfr":
            _pfr_extras(ctx, ad, inst, cfg0, True)
        modes.remove("default")

    if inst["kind"] == "tz":
        from spsdk.utils.database import DatabaseManager
        from spsdk.utils.misc import value_to_int

        names = ad.preset_names(inst)
        defaults = {n: value_to_int(v) for n, v in DatabaseManager().db.load_db_cfg_file(ad.spec_files(inst)[0]).items()}
        if set(cfg0[ad.settings_key]) != set(names):
            _viol(ctx, ad, inst, "template-names-differ-from-spec", {"template": len(cfg0[ad.settings_key]), "spec": len(names)})
        for mode in modes:
            preset, words, subset = _tz_draw(ad, inst, rng, mode, names)
            cfg = copy.deepcopy(cfg0)
            cfg[ad.settings_key] = preset
            inst["_mode"] = mode
            v0 = ctx._viol_in_case  # pylint: disable=protected-access
            ok, x = _try(ctx, ad, inst, "load", ad.load, inst, cfg)
            if not ok:
                continue
            ok, data = _try(ctx, ad, inst, "export", ad.export, x)
            if not ok:
                continue
            _tz_bytes_law(ctx, ad, inst, data, names, words, subset, defaults)
            _chain(ctx, ad, inst, cfg, [], mode)
            if ctx._viol_in_case == v0:  # pylint: disable=protected-access
                ctx.ok(sigbase + [mode.rstrip("0123456789")], sample={"instance": ad.label(inst), "mode": mode, "words": len(names)})
        return

    if not modes:
        return
    fresh = ad.fresh(inst)
    regs = ad.registers(fresh)
    frozen = ad.frozen_fields(inst)
    for mode in modes:
        base = mode.rstrip("0123456789")
        j = int(mode[len(base):] or 0)
        fz = frozen
        if base == "rawreg":
            # a register with a computed field given as one raw value is taken as it is (documented with a warning):
            # the computed-field law does not apply to it, so these registers are not drawn
            comp = getattr(fresh, "computed_fields", None) or {}
            fz = set(frozen) | {(fresh.registers.get_reg(uid).name, "*computed*") for uid in comp}
        settings, expect = _draw(regs, rng, base, j, fz)
        cfg = copy.deepcopy(cfg0)
        cfg[ad.settings_key].update(settings)
        if _chain(ctx, ad, inst, cfg, expect, mode):
            ctx.ok(sigbase + [base], sample={"instance": ad.label(inst), "mode": mode, "fields_set": len(expect)})
        if mode == "random0" and inst["kind"] == "pfr":
            _pfr_extras(ctx, ad, inst, cfg, False)
        if base == "random" and inst["kind"] == "pfr":
            _pfr_partial(ctx, ad, inst, cfg, expect, rng)


# ------------------------------------------------------------------------------------------
# CLI sample: the user path produces the same template as the API path


def _run_cli(case, ctx):
    from click.testing import CliRunner
    from spsdk.utils.database import get_db

    ad = A.ADAPTERS[case["kind"]]
    insts = [i for i in A.enumerate_all() if i["kind"] == case["kind"]]
    # the commands without a revision option work on the latest revision
    latest = [i for i in insts if get_db(i["family"], "latest").name == i["revision"]]
    pool = latest or insts
    inst = dict(core.pick(ctx.rng, pool))
    outdir = os.path.join(ctx.workdir, f"cli_{os.getpid()}_{case['kind']}_{case['k']}")
    os.makedirs(outdir, exist_ok=True)
    args, out = ad.cli_template(inst, outdir)
    main = ad.cli_main(inst)
    inst["_mode"] = "cli"
    res = CliRunner().invoke(main, args)
    ctx.count("cli_template")
    if res.exit_code != 0 or not os.path.isfile(out):
        exc = res.exception
        ctx.violation(_classify(ad, inst, "cli-get-template", exc if isinstance(exc, Exception) else None),
                      {"instance": ad.label(inst), "args": args, "exit_code": res.exit_code, "output": res.output[-300:],
                       "exception": core.exc_brief(exc) if isinstance(exc, Exception) else None, "file_exists": os.path.isfile(out)})
        return
    with open(out, encoding="utf-8") as f:
        cli_text = f.read()
    # the commands without a revision option ask the API for "latest"
    api_inst = dict(inst) if "-r" in args else dict(inst, revision="latest")
    ok, api_text = _try(ctx, ad, inst, "template", ad.template, api_inst)
    if not ok:
        return
    body = lambda t: "\n".join(ln for ln in t.splitlines() if not ln.startswith("#"))  # noqa: E731  (titles differ)
    if body(cli_text) != body(api_text):
        _viol(ctx, ad, inst, "cli-template-differs-from-api", {"args": args, "cli_len": len(cli_text), "api_len": len(api_text)})
        return
    cfg = _template_law(ctx, ad, inst, cli_text, tag="cli")
    if cfg is None:
        return
    if inst["kind"] == "fcb":
        inst["_tag_from_template"] = True
    if _chain(ctx, ad, inst, cfg, [], "default"):
        ctx.ok(["cli", case["kind"]], sample={"instance": ad.label(inst), "args": args[:3], "template_bytes": len(cli_text)})
