"""C14 - Bootable image: segments land at the device offsets and come back on parse.

Runtime monitoring.  For (family, revision, memory type) triples enumerated from the database
under test, parsable segments are built (FCB, XMCD, BEE region headers, opaque key blob / key
store, image version, and a small real MBI / HAB / AHAB container or an SB2.1 / SB3.1 shaped
file), merged through ``BootableImage.load_from_config`` (and ``nxpimage bootable-image merge``),
and the exported bytes are judged by the independent placement model ``vf.refs.bimg_ref`` which
reads the *raw* layout description (segment offsets, fill pattern) of the same database.  The image
is then parsed back (``BootableImage.parse`` / ``nxpimage bootable-image parse``); every supplied
segment must come back byte-identical, with the same initial offset and an identical re-export.
"""
from __future__ import annotations

import contextlib
import os
import shutil
import struct

from vf import core
from vf.refs import bimg_ref

ID = "C14"
DECOY_CWD = True  # the worker runs in a directory that holds other bytes under every input file name (vf/worker.py)
LEVEL = "exploration"
TECHNIQUE = (
    "runtime monitoring: independent placement model (interval arithmetic on the exported bytes, raw database "
    "offsets / fill pattern) + parse / re-export round trip, API and CLI"
)
RULE = (
    "every (family, named revision, memory type) triple of features.bootable_image in the database under test "
    "(quick: one triple per distinct layout and draw, rotating with the seed; thorough: every triple) x 15 draws: "
    "random subset of the optional segments, initial offset cycling over 0 and every segment start (as a number, as a "
    "value between two starts, or through the API as a segment name), opaque block sizes from {1, mid, format size "
    "-1/0/+1, room to the next offset -1/0}, application payload sizes from small/mid/large classes, every plain / CRC "
    "MBI variant the family has / plain HAB / unsigned one-image AHAB (target memory derived from the memory type) / "
    "SB2.1- and SB3.1-shaped files, FCB from FCB(family, memory).export(), XMCD of every (memory, block type) of the "
    "family, BEE region headers; plus per layout (thorough: per triple) a directed sweep with all segments and every "
    "segment start, CLI merge/parse/merge samples, directed witnesses of the known finding and directed cases for every "
    "input feature that was seen to matter. A case signature is (case kind, layout, initial-offset class, request form, "
    "supplied segments with their size classes / container variant); non-trivial = the image was built, agreed with the "
    "placement model, and the parse round trip was judged."
)
ASSUMPTIONS = [
    "a layout without image_pattern is filled with 0x00 (the documented default); only single-byte fill patterns are modelled",
    "floating segments (negative database offset) start at the end of their layout predecessor rounded up to 1 KiB (AHAB container sets) and are only supplied together with that predecessor",
    "a header block supplied shorter than its fixed format size comes back padded to that size with the fill byte (the field has no length of its own)",
    "opaque blocks never consist of fill bytes only (such a block is indistinguishable from an absent one); payload bytes are 7-bit (no container-tag look-alikes)",
    "random payloads (applications and opaque blocks) carry an invalid MBI image type at every offset where another start offset would make the parser look for an MBI header; the chance behaviour of the MBI parser on such bytes is exercised by two directed witnesses instead",
    "an initial offset between two segment starts means the next start (documented in the init_offset setter and pinned by the repository tests)",
    "a build in which all supplied segments lie before the initial offset (empty image) is not generated",
    "parse is judged with the family, revision and memory type the image was built for, and - for images that start at offset 0 - a "
    "second time without a memory type: auto-detection may settle on another memory type as long as every supplied segment is recovered",
    "block sizes beyond the room to the next segment's offset are outside the property's quantifier and are not generated",
    "a merge may refuse (documented error) only an opaque block longer than its fixed format size; refusing well-formed fitting segments is judged",
    "whether the MBI / HAB / AHAB classes read their own bytes back is the business of C01/C06/C07: where the container class alone rejects its bytes the parse clauses are not judged, where it is not idempotent the re-export clause is not judged (both counted)",
    "a configuration written by the CLI parse that the CLI merge refuses with a documented error is counted and reported, not judged (the recovered segment files are compared)",
]
REQUIRED_COUNTERS = [
    "images_built",
    "placement_checked",
    "image_info_checked",
    "parse_judged",
    "segments_compared",
    "reexport_checked",
    "cli_merge",
    "cli_parse",
    "known_witness",
    "directed_cases",
]
CASE_TIMEOUT_S = 600
WATCHDOG_S = {"quick": 3000, "thorough": 14400}

KNOWN_INIT = "bimg-init-offset-at-non-init-segment"
FEATURE = "bootable_image"
CFG_KEY = {"fcb_xspi": "fcb", "image_version_ap": "image_version"}  # documented configuration keys
OPAQUE = ("keyblob", "keystore", "bee_header_0", "bee_header_1")
DRAWS = 15

# directed witnesses of the known finding (section 3 of DESIGN.md)
WITNESSES = [
    {"family": "lpc5534", "memory": "flexspi_nor", "init": 0x600},
    {"family": "mimxrt1024", "memory": "flexspi_nor", "init": 0x400},
]
# directed witnesses: an image that starts at the FCB (an INIT_SEGMENT start) whose application holds, where the
# full layout would look for the MBI, a word that reads as (a) a plain image type, (b) a signed image type with a
# custom TrustZone block
LENIENT_MBI = "bimg-later-start-image-claimed-by-lenient-plain-mbi-match"
AUTODETECT_LENIENT_MBI = "bimg-autodetect-foreign-image-claimed-by-lenient-plain-mbi-match"
WITNESSES_MBI = [
    {"family": "mcxn947", "memory": "flexspi_nor", "init_segment": "fcb", "word": 0x00000000},
    {"family": "mimxrt595s", "memory": "flexspi_nor", "init_segment": "fcb", "word": 0x00002004,
     "directives": {"omit": ["keystore"]}},
]
# directed cases: one deterministic instance of every input feature that was seen to matter (all segments supplied
# unless told otherwise); they simply agree with the oracle on a tree where the behaviour is repaired
DIRECTED = [
    {"what": "no application container", "family": "mimxrt1189", "memory": "flexspi_nor",
     "directives": {"omit": ["ahab_container"]}},
    {"what": "no application container", "family": "lpc5536", "memory": "flexspi_nor", "directives": {"omit": ["mbi"]}},
    {"what": "hab_container key omitted", "family": "mimxrt1015", "memory": "flexspi_nor",
     "directives": {"omit": ["hab_container"]}},
    {"what": "key blob fills the room to the next offset", "family": "mimxrt1010", "memory": "flexspi_nor",
     "directives": {"opaque": {"keyblob": "room"}}},
    {"what": "BEE header one byte longer than its format size", "family": "mimxrt1024", "memory": "flexspi_nor",
     "directives": {"opaque": {"bee_header_0": "fmt+1"}}},
    {"what": "full FlexSPI-RAM XMCD (516 bytes)", "family": "mimxrt1189", "memory": "flexspi_nor",
     "directives": {"xmcd": ["flexspi_ram", "full"]}},
    {"what": "initial offset in a layout with a floating segment", "family": "mimx8ulp", "memory": "flexspi_nor", "init": 0x400},
    {"what": "initial offset in a layout with a floating segment", "family": "mimx9352", "memory": "sd", "init": 0x8000},
    {"what": "FCB for a family without FCB description", "family": "mimx9352", "memory": "flexspi_nor"},
    {"what": "absent FCB in a layout filled with 0xFF", "family": "lpc5536", "memory": "flexspi_nor",
     "directives": {"omit": ["fcb"]}},
    {"what": "absent FCB in a layout filled with 0xFF", "family": "mcxn947", "memory": "flexspi_nor",
     "directives": {"omit": ["fcb"]}},
    {"what": "absent header blocks in a layout filled with 0x00", "family": "mimxrt1176", "memory": "flexspi_nor",
     "directives": {"omit": ["keyblob", "fcb", "keystore"]}},
]

# directed CLI round trips (all segments supplied)
DIRECTED_CLI = [
    {"family": "mimxrt798s", "memory": "xspi_nor"},  # the only layout whose FCB segment kind is 'fcb_xspi'
    {"family": "mimxrt1189", "memory": "flexspi_nor"},
]

_CACHE: dict = {}


# ------------------------------------------------------------------------------------------
# enumeration of the database under test
def _triples():
    """[(family, revision, memory, raw layout dict)] for every named revision."""
    if "triples" in _CACHE:
        return _CACHE["triples"]
    from spsdk.utils.database import DatabaseManager, get_db, get_families

    out = []
    for fam in sorted(get_families(FEATURE)):
        revs = DatabaseManager().db.devices.get(fam).revisions.revision_names(False)
        for rev in revs:
            mts = get_db(fam, rev).get_dict(FEATURE, "mem_types")
            for mem, raw in mts.items():
                out.append((fam, rev, mem, raw))
    _CACHE["triples"] = out
    return out


def _layouts():
    """{layout key: [triple index]} in first-seen order."""
    if "layouts" in _CACHE:
        return _CACHE["layouts"]
    lay: dict[str, list[int]] = {}
    for i, (_f, _r, _m, raw) in enumerate(_triples()):
        lay.setdefault(bimg_ref.layout_key(raw), []).append(i)
    _CACHE["layouts"] = lay
    return lay


def _latest_name(fam: str) -> str:
    from spsdk.utils.database import get_db

    return get_db(fam, "latest").name


def selftest(ctx):
    st = bimg_ref.selftest()
    tr = _triples()
    if not tr:
        raise core.Inconclusive("no bootable_image triples in the database under test")
    st["triples"] = len(tr)
    st["families"] = len({t[0] for t in tr})
    st["distinct_layouts"] = len(_layouts())
    return st


def cases(tier, seed):
    tr = _triples()
    lay = _layouts()
    for w in WITNESSES:
        yield {"kind": "witness", **w}
    for w in WITNESSES_MBI:
        yield {"kind": "witness_mbi", **w}
    for w in DIRECTED:
        yield {"kind": "directed", **w}
    for w in DIRECTED_CLI:
        yield {"kind": "cli", "full": True, "k": 0, **w}
    if tier == "thorough":
        # every triple: the directed sweep (all segments, every segment start as initial offset), then the draws
        for f, r, m, _ in tr:
            yield {"kind": "starts", "family": f, "revision": r, "memory": m}
        for f, r, m, _ in tr:
            for k in range(3 * DRAWS):
                yield {"kind": "draw", "family": f, "revision": r, "memory": m, "k": k}
        # CLI samples (the CLI parse has no revision option: latest revision only)
        seen = set()
        for n, (f, _r, m, _) in enumerate(tr):
            if (f, m) not in seen:
                seen.add((f, m))
                yield {"kind": "cli", "family": f, "memory": m, "k": n}
        return
    # quick: every distinct layout; the triple that stands for it rotates with the seed and the draw
    for n, idxs in enumerate(lay.values()):
        f, r, m, _ = tr[idxs[(seed * 3 + n) % len(idxs)]]
        yield {"kind": "starts", "family": f, "revision": r, "memory": m}
    for n, idxs in enumerate(lay.values()):
        for k in range(DRAWS):
            f, r, m, _ = tr[idxs[(seed * DRAWS + k * 7 + n) % len(idxs)]]
            yield {"kind": "draw", "family": f, "revision": r, "memory": m, "k": k}
    for n, idxs in enumerate(lay.values()):
        f, _r, m, _ = tr[idxs[(seed * 5 + n) % len(idxs)]]
        yield {"kind": "cli", "family": f, "memory": m, "k": n + seed}


# ------------------------------------------------------------------------------------------
# monitors / helpers living in the worker
def install_monitors(ctx):
    import logging

    logging.disable(logging.CRITICAL)  # SPSDK warns on purpose-built odd inputs; keep the worker's stderr small


def _raw_layout(fam, rev, mem):
    from spsdk.utils.database import get_db

    mts = get_db(fam, rev).get_dict(FEATURE, "mem_types")
    if mem not in mts:
        raise core.Inconclusive(f"{fam}/{rev} has no bootable-image memory type {mem}")
    return mts[mem]


def _init_segment_flag(name: str) -> bool:
    """INIT_SEGMENT of the real segment class (decided at run time from the tree under test)."""
    from spsdk.image.bootable_image.segments import BootableImageSegment, get_segment_class

    return bool(get_segment_class(BootableImageSegment.from_label(name)).INIT_SEGMENT)


def _payload(rng, n: int) -> bytes:
    """n random 7-bit bytes, never all zero.

    Every word at 0x24 modulo 0x100 holds 0x7F7F7F7F.  When an image that starts at a later initial offset is parsed,
    other start offsets are tried as well and the MBI parser is handed bytes from the middle of the application or
    from a header block; it reads an image type at 0x24 of whatever it is given.  What it does when type / TrustZone
    bits happen to be valid (takes the bytes for an MBI of their own, or trips an assertion) depends on chance - 0x3F
    is no image type, so the random workload is free of that chance and two directed witnesses put a chosen word
    there instead.
    """
    if n <= 0:
        return b""
    b = bytearray(core.rand_bytes(rng, n))
    for i in range(n):
        b[i] &= 0x7F
    if b[0] == 0:
        b[0] = 0x55
    for o in range(0x24, n - 3, 0x100):
        b[o:o + 4] = b"\x7f\x7f\x7f\x7f"
    return bytes(b)


def _vector_table_app(rng, n: int, base: int) -> bytes:
    """Cortex-M shaped application: initial SP, odd reset vector inside the image."""
    n = max(n, 8)
    body = bytearray(_payload(rng, n))
    body[0:4] = struct.pack("<I", 0x20002000)
    body[4:8] = struct.pack("<I", (base + 0x40) | 1)
    return bytes(body)


# -- segment builders (inputs; they may use SPSDK) ------------------------------------------
def _build_fcb(fam, rev, mem, rng):
    """(bytes, descriptor).  A real FCB of the family when it has one, else a donor's block."""
    from spsdk.image.fcb.fcb import FCB
    from spsdk.image.mem_type import MemoryType
    from spsdk.utils.database import get_families

    key = ("fcb", fam, rev, mem)
    if key not in _CACHE:
        mt = MemoryType.from_label(mem)
        donor = None
        if fam in get_families("fcb") and mt in FCB.get_supported_memory_types(fam, rev):
            fcb = FCB(fam, mt, rev)
        else:
            donor = next(f for f in sorted(get_families("fcb")) if mt in FCB.get_supported_memory_types(f))
            fcb = FCB(donor, mt)
        tag = fcb.registers.find_reg("tag")
        tag.set_value(int.from_bytes(b"FCFB", "little"), raw=True)  # some templates default the tag to 0
        data = fcb.export()
        if data[:4] != b"FCFB":
            raise core.Inconclusive(f"FCB builder: tag not at the start for {fam}/{mem}")
        _CACHE[key] = (data, "own" if donor is None else f"donor:{donor}")
    return _CACHE[key]


def _build_xmcd(fam, rev, rng, combo=None):
    from spsdk.image.mem_type import MemoryType
    from spsdk.image.xmcd.xmcd import XMCD, ConfigurationBlockType

    mts = XMCD.get_memory_types_config(fam, rev)
    combos = [(m, c) for m, cfgs in mts.items() for c in cfgs.keys()]
    if not combos or (combo is not None and tuple(combo) not in combos):
        raise core.Inconclusive(f"no XMCD description {combo or ''} for {fam}")
    m, c = tuple(combo) if combo is not None else core.pick(rng, combos)
    key = ("xmcd", fam, rev, m, c)
    if key not in _CACHE:
        x = XMCD(fam, MemoryType.from_label(m), ConfigurationBlockType.from_label(c), rev)
        _CACHE[key] = x.export()
    return _CACHE[key], f"{m}/{c}"


def _build_bee_header(rng) -> bytes:
    from spsdk.image.bee import BeeFacRegion, BeeKIB, BeeProtectRegionBlock, BeeRegionHeader

    prdb = BeeProtectRegionBlock(counter=core.rand_bytes(rng, 12) + bytes(4))
    start = 0x60001000 + 0x1000 * rng.randrange(0, 16)
    prdb.add_fac(BeeFacRegion(start, 0x1000 * rng.randrange(1, 8), rng.randrange(0, 4)))
    hdr = BeeRegionHeader(prdb, core.rand_bytes(rng, 16), BeeKIB(core.rand_bytes(rng, 16), core.rand_bytes(rng, 16)))
    hdr.update()
    return hdr.export()


def _mbi_variants(fam, rev):
    from spsdk.utils.database import get_db

    key = ("mbiv", fam, rev)
    if key not in _CACHE:
        images = get_db(fam, rev).get_dict("mbi", "images")
        out = []
        for target, auths in images.items():
            for auth in auths:
                if auth in ("plain", "crc"):
                    out.append((target, auth))
        _CACHE[key] = out
    return _CACHE[key]


def _build_mbi(fam, rev, rng, wd, size_cls, flags_at=None):
    """A small real plain / CRC MBI.  ``flags_at`` = (offset, word): the application holds ``word`` where an MBI
    that started at ``offset`` would keep its image type / flags (0x24) - directed witnesses only."""
    from spsdk.exceptions import SPSDKError
    from spsdk.image.mbi.mbi import get_mbi_class
    from spsdk.utils.schema_validator import check_config

    variants = list(_mbi_variants(fam, rev))
    if not variants:
        raise core.Inconclusive(f"{fam}: no plain/crc MBI class")
    rng.shuffle(variants)
    n = {"small": 0x140, "mid": rng.randrange(0x200, 0x600), "large": rng.randrange(0x800, 0x2400)}[size_cls]
    n += rng.randrange(0, 4) if size_cls != "small" else 0
    app = _vector_table_app(rng, n, 0x10000000)
    if flags_at is not None:
        at, word = flags_at
        app = bytearray(app.ljust(at + 0x200, b"\x33"))
        app[at + 0x24:at + 0x28] = struct.pack("<I", word)
        app = bytes(app)
        variants = [v for v in variants if v == ("xip", "plain")] or variants
    version = rng.randrange(0, 8)
    last = None
    # the DSC (MC56F8xxxx / MWCT) image types need an application that contains the whole 0xC00-byte header area;
    # when the minimal application is refused by every variant it is tried once more at that size
    for app_try in (app, app.ljust(0xC00 + len(app), b"\x5a")):
      with open(os.path.join(wd, "mbi_app.bin"), "wb") as f:
        f.write(app_try)
      for target, auth in variants:
          cfg = {
              "family": fam,
              "revision": rev,
              "outputImageExecutionTarget": {"xip": "xip", "load_to_ram": "load-to-ram"}[target],
              "outputImageAuthenticationType": auth,
              "masterBootOutputFile": "mbi_out.bin",
              "inputImageFile": "mbi_app.bin",
              "outputImageExecutionAddress": 0x10000000 if target == "xip" else 0x20000000,
              "imageVersion": version,
          }
          try:
              cls = get_mbi_class(cfg)
              schemas = cls.get_validation_schemas(fam)
              if any("enableHwUserModeKeys" in sch.get("properties", {}) for sch in schemas):
                  cfg["enableHwUserModeKeys"] = False
              check_config(cfg, schemas, search_paths=[wd])
              mbi = cls()
              mbi.load_from_config(cfg, search_paths=[wd])
              return mbi.export(), f"mbi:{target}/{auth}/{size_cls}"
          except SPSDKError as e:  # this variant needs more than a minimal configuration (e.g. a boot config area)
              last = e
    raise core.Inconclusive(f"{fam}: no plain/crc MBI variant builds from a minimal configuration: {core.exc_brief(last)}")


def _build_hab(fam, rev, mem, raw, rng, wd, size_cls):
    from spsdk.image.hab.hab_container import HabContainer
    from spsdk.utils.database import get_db, get_families

    ivt = dict(bimg_ref.layout_segments(raw))["hab_container"]
    ils = None
    if fam in get_families("hab"):
        grp = get_db(fam, rev).get_dict("hab", "mem_types").get(mem)
        if grp:
            ils = grp.get("initial_load_size")
    if ils is None:
        ils = {0: 0x400, 0x400: 0x1000, 0x1000: 0x2000}.get(ivt, ivt + 0x1000)
    start = core.pick(rng, [0x30000000, 0x60000000, 0x80000000, 0x20200000])
    n = {"small": 8 + rng.randrange(0, 40), "mid": rng.randrange(0x100, 0x700), "large": rng.randrange(0x900, 0x2800)}[size_cls]
    app = _vector_table_app(rng, n, start + ils)
    with open(os.path.join(wd, "hab_app.bin"), "wb") as f:
        f.write(app)
    cfg = {
        "options": {"flags": 0, "startAddress": start, "ivtOffset": ivt, "initialLoadSize": ils},
        "sections": [],
        "inputImageFile": "hab_app.bin",
    }
    cfg = HabContainer.transform_bd_configuration(cfg)
    hab = HabContainer.load_from_config(cfg, search_paths=[wd])
    return hab.export(), f"hab:plain/ils{ils:#x}/{size_cls}"


def _ahab_target(mem: str) -> str:
    if mem == "serial_downloader":
        return "serial_downloader"
    if "nand" in mem:
        return "nand_2k"
    if "nor" in mem:
        return "nor"
    return "standard"


def _build_ahab(fam, rev, mem, rng, wd, size_cls, tag):
    from spsdk.image.ahab.ahab_image import AHABImage
    from spsdk.utils.database import get_db
    from spsdk.utils.schema_validator import check_config

    cores = get_db(fam, rev).get_dict("ahab", "core_ids")
    cortex = [v[1] for v in cores.values() if str(v[1]).startswith("cortex")]
    core_id = core.pick(rng, cortex or [list(cores.values())[0][1]])
    n = {"small": rng.randrange(1, 64), "mid": rng.randrange(0x100, 0x900), "large": rng.randrange(0xA00, 0x2400)}[size_cls]
    fn = f"ahab_app_{tag}.bin"
    with open(os.path.join(wd, fn), "wb") as f:
        f.write(_vector_table_app(rng, n, 0x1FFE0000) if n >= 8 else _payload(rng, n))
    cfg = {
        "family": fam,
        "revision": rev,
        "target_memory": _ahab_target(mem),
        "output": "ahab_out.bin",
        "containers": [
            {
                "container": {
                    "srk_set": "none",
                    "fuse_version": rng.randrange(0, 4),
                    "sw_version": rng.randrange(0, 4),
                    "images": [
                        {
                            "image_path": fn,
                            "load_address": 0x1FFE0000,
                            "entry_point": 0x1FFE0000,
                            "image_type": "executable",
                            "core_id": core_id,
                            "is_encrypted": False,
                            "hash_type": core.pick(rng, ["sha256", "sha384", "sha512"]),
                        }
                    ],
                }
            }
        ],
    }
    check_config(cfg, AHABImage.get_validation_schemas_family())
    check_config(cfg, AHABImage.get_validation_schemas(fam, rev), search_paths=[wd])
    ahab = AHABImage.load_from_config(cfg, search_paths=[wd])
    ahab.update_fields()
    return ahab.export(), f"ahab:{_ahab_target(mem)}/{size_cls}"


def _build_sb21_shape(rng, size_cls):
    """A file with a well-formed SB 2.1 header (96 bytes, 'STMP' / 'sgtl') and an opaque body."""
    blocks = {"small": 6, "mid": rng.randrange(20, 80), "large": rng.randrange(100, 500)}[size_cls]
    hdr = struct.pack(
        "<16s4s4s2BH4I4H4sQ12HI4s",
        _payload(rng, 16), b"\0\0\0\0", b"STMP", 2, 1, 0x08,
        blocks, 0x20, 0, 0x60, 6, 8, 5, 1, b"sgtl", 0x0002A6B1C3D4E5F0,
        0x0100, 0, 0, 0, 0, 0, 0x0100, 0, 0, 0, 0, 0, 0, b"\0\0\0\0",
    )
    assert len(hdr) == 96
    return hdr + _payload(rng, blocks * 16 - 96), f"sb21shape:{size_cls}"


def _build_sb31_shape(rng, size_cls):
    """A file with a well-formed SB 3.1 header ('sbv3', 3.1, SHA-256 block size) and an opaque body."""
    blocks = {"small": 1, "mid": rng.randrange(2, 8), "large": rng.randrange(10, 40)}[size_cls]
    total = 60 + 32 + 0x200 + 64
    hdr = struct.pack(
        "<4s2H3LQ4L16s", b"sbv3", 1, 3, 0, blocks, 292, 0x2A6B1C3D, 1, total, 6, 60 + 32,
        b"C14 sb31 shape\0\0",
    )
    assert len(hdr) == 60
    return hdr + _payload(rng, total - 60 + blocks * 292 + rng.randrange(0, 3)), f"sb31shape:{size_cls}"


def _opaque_sizes(raw, name):
    """Size classes of an opaque block: label -> length."""
    fmt = bimg_ref.FORMAT_SIZE[name]
    room = bimg_ref.room_after(raw, name)
    out = {"1": 1, "mid": max(2, fmt // 2 + 3), "fmt-1": fmt - 1, "fmt": fmt}
    if room is not None and room > fmt:
        out["fmt+1"] = fmt + 1
    if room is not None:
        out["room-1"] = room - 1
        out["room"] = room
    return out


# ------------------------------------------------------------------------------------------
def _container_status(name, fam, rev, data):
    """Does the container's *own* class read its bytes back?  'ok' | 'unparsable:<why>' | 'not-idempotent'.

    The bootable image hands the application container to the MBI / HAB / AHAB classes.  Whether those
    round-trip is the business of other properties (C01, C06, C07); C14 judges the parse clauses only on
    contents the container class itself can read, and the re-export clause only where it is idempotent.
    """
    from spsdk.exceptions import SPSDKError

    try:
        if name == "mbi":
            from spsdk.image.mbi.mbi import MasterBootImage

            obj = MasterBootImage.parse(family=fam, data=data)
            obj.validate()
            again = obj.export()
        elif name == "hab_container":
            from spsdk.image.hab.hab_container import HabContainer

            again = HabContainer.parse(data).export()
        elif name in ("ahab_container", "primary_image_container_set", "secondary_image_container_set"):
            from spsdk.image.ahab.ahab_image import AHABImage

            obj = AHABImage(family=fam, revision=rev)
            obj.parse(data)
            obj.verify().validate()
            again = obj.export()
        elif name == "sb21":
            from spsdk.sbfile.sb2.images import BootImageV21

            BootImageV21.validate_header(data)
            again = data
        elif name == "sb31":
            from spsdk.sbfile.sb31.images import SecureBinary31

            SecureBinary31.validate_header(data)
            again = data
        else:
            return "ok"
    except SPSDKError as e:
        return f"unparsable:{core.exc_brief(e)[:120]}"
    return "ok" if again == data else "not-idempotent"


def _make_plan(case, raw, rng, wd, *, full=False, init_req=None, container_size=None, version_always=False,
               mbi_flags_at=None, directives=None):
    """Choose and build the segments of one image.  Returns a plan dict.

    ``directives`` (directed cases): {"omit": [segment names], "opaque": {name: size label}, "xmcd": [memory, type]}.
    """
    directives = directives or {}
    fam, rev, mem = case["family"], case["revision"], case["memory"]
    segs = bimg_ref.layout_segments(raw)
    names = [n for n, _ in segs]
    supplied: dict[str, bytes] = {}
    config: dict = {"family": fam, "revision": rev, "memory_type": mem}
    files: dict[str, bytes] = {}
    meta: dict[str, str] = {}
    status: dict[str, str] = {}
    absent_form: dict[str, str] = {}

    def want(p):
        return full or rng.random() < p

    for idx, name in enumerate(names):
        key = CFG_KEY.get(name, name)
        data = None
        if name in directives.get("omit", ()):
            absent_form[name] = "omit"
            continue
        if name in ("image_version", "image_version_ap"):
            if version_always or want(0.7):
                val = core.pick(rng, [0, 1, 5, 0x1234, 0xFFFE, 0xFFFF]) if name == "image_version_ap" else core.pick(
                    rng, [0, 1, 7, 0x01020304, 0xFFFFFFFF])
                config[key] = val
                meta[name] = "value"
            else:
                val = None
                meta[name] = "default"
            supplied[name] = bimg_ref.image_version_bytes(name, val)
            continue
        if name in OPAQUE:
            if not want(0.7):
                pass
            elif name.startswith("bee_header") and name not in directives.get("opaque", {}) and rng.random() < 0.5:
                data = _build_bee_header(rng)
                meta[name] = "bee-region-header"
            else:
                sizes = _opaque_sizes(raw, name)
                label = directives.get("opaque", {}).get(name) or ("fmt" if full else core.pick(rng, sorted(sizes)))
                data = _payload(rng, sizes[label])
                meta[name] = f"opaque:{label}"
        elif name in ("fcb", "fcb_xspi"):
            if want(0.75):
                data, how = _build_fcb(fam, rev, mem, rng)
                if how == "own" and rng.random() < 0.2:
                    # the swapped byte order (tag 'CFBF') is a storage form SPSDK recognises: the bytes supplied must
                    # still come back as supplied
                    data = b"".join(data[i:i + 2][::-1] for i in range(0, len(data), 2))
                    how = "own-swapped"
                elif how == "own" and rng.random() < 0.15:
                    # what a read-back of the FCB's flash sector looks like: a well-formed FCB followed by the rest of the
                    # sector.  It is longer than the FCB slot: the merge refuses it, or places it without touching the others
                    data = data + _payload(rng, core.pick(rng, [1, 0x100, 4096 - len(data)]))
                    how = "own+sector-tail"
                meta[name] = f"fcb:{how}"
        elif name == "xmcd":
            if want(0.7):
                data, how = _build_xmcd(fam, rev, rng, directives.get("xmcd"))
                meta[name] = f"xmcd:{how}"
        else:
            floating = dict(segs)[name] < 0
            p = 0.6 if floating else 0.9
            # a floating segment is placed after its predecessor: it is only supplied together with it
            if want(p) and not (floating and names[idx - 1] not in supplied):
                size_cls = container_size or core.pick(rng, ["small", "mid", "large"])
                if name == "mbi":
                    data, how = _build_mbi(fam, rev, rng, wd, size_cls, flags_at=mbi_flags_at)
                elif name == "hab_container":
                    data, how = _build_hab(fam, rev, mem, raw, rng, wd, size_cls)
                elif name in ("ahab_container", "primary_image_container_set", "secondary_image_container_set"):
                    data, how = _build_ahab(fam, rev, mem, rng, wd, size_cls, name[:3])
                elif name == "sb21":
                    data, how = _build_sb21_shape(rng, size_cls)
                elif name == "sb31":
                    data, how = _build_sb31_shape(rng, size_cls)
                else:
                    raise core.Inconclusive(f"segment kind {name} has no builder")
                meta[name] = how
                status[name] = _container_status(name, fam, rev, data)
        if data:
            fn = f"{name}.bin"
            files[fn] = data
            config[key] = fn
            supplied[name] = data
        else:
            # header blocks are 'optional_file' (may be empty); container keys are 'file': only omission is accepted
            form = "omit" if name in bimg_ref.CONTAINER_KINDS else core.pick(rng, ["omit", "empty"])
            absent_form[name] = form
            if form == "empty":
                config[key] = ""

    # initial offset: the effective value is always a segment start; the request may be a number, a value between
    # two starts, or (through the API only - the configuration schema refuses text) a segment name
    starts = sorted({o for _, o in bimg_ref.segment_starts(raw)})
    by_name = None
    if init_req is None:
        choices = [0] + [s for s in starts if s > 0]
        init = choices[case.get("k", 0) % len(choices)]
        u = rng.random()
        if init and u < 0.12:
            lower = max([s for s in starts if s < init], default=0)
            init_req = rng.randrange(lower + 1, init + 1)  # anything in (previous start, this start] means this start
        elif init and u < 0.35:
            by_name = next(n for n, o in segs if o == init)
            init_req = init
        else:
            init_req = init
    ups = [s for s in starts if s >= init_req]
    init = min(ups) if init_req > 0 and ups else 0
    form = "int"
    if by_name is not None:
        form = "name"
    elif init_req != 0:
        config["init_offset"] = init_req
    elif rng.random() < 0.5:
        config["init_offset"] = 0
    return {"supplied": supplied, "config": config, "files": files, "meta": meta, "init": init, "init_req": init_req,
            "init_form": form, "init_name": by_name, "absent_form": absent_form, "status": status}


def _init_class(raw, init):
    if init == 0:
        return "0"
    at = [n for n, o in bimg_ref.segment_starts(raw) if o == init]
    if not at:
        return "?"
    return "init-segment" if all(_init_segment_flag(n) for n in at) else "non-init-segment"


def _fresh_dir(ctx, tag):
    wd = os.path.join(ctx.workdir, f"c{ctx.case_index}_{tag}")
    shutil.rmtree(wd, ignore_errors=True)
    os.makedirs(wd)
    return wd


def _write_files(wd, plan):
    for fn, data in plan["files"].items():
        with open(os.path.join(wd, fn), "wb") as f:
            f.write(data)


def _witness(case, plan, extra=None):
    w = {
        "family": case["family"], "revision": case.get("revision"), "memory": case["memory"],
        "init_offset_requested": plan["init_name"] or plan["init_req"], "init_offset": plan["init"],
        "config": dict(plan["config"]),
        "segments": {n: {"len": len(b), "how": plan["meta"].get(n), "head": core.hx(b[:16])} for n, b in plan["supplied"].items()},
    }
    if extra:
        w.update(extra)
    return w


def _refusal_expected(raw, plan):
    """May the merge refuse this input?  Only an opaque block longer than its fixed format size is a reason; every
    other generated input consists of well-formed segments that fit the layout."""
    for name, data in plan["supplied"].items():
        size = bimg_ref.FORMAT_SIZE.get(name)
        if name in OPAQUE and size and len(data) > size:
            return True
        if name in ("fcb", "fcb_xspi") and size and len(data) > size:
            return True
    return False


def _in_image(raw, plan):
    """Supplied segments that belong to the image (not cut off by the initial offset)."""
    dboff = dict(bimg_ref.layout_segments(raw))
    return {n: b for n, b in plan["supplied"].items() if dboff[n] < 0 or dboff[n] >= plan["init"]}


def _has_floating(raw):
    return any(o < 0 for _, o in bimg_ref.layout_segments(raw))


# ------------------------------------------------------------------------------------------
def _judge_image(ctx, case, raw, plan, image, where):
    """Placement clauses on the exported bytes.  Returns the expectation when the image agrees with the model."""
    try:
        exp = bimg_ref.check_image(raw, plan["supplied"], plan["init"], image)
    except bimg_ref.LayoutError as e:
        raise core.Inconclusive(f"layout not modelled: {e}") from e
    except bimg_ref.Mismatch as m:
        if m.clause == "overlap":
            raise core.Inconclusive(f"generator produced segments that do not fit the layout: {m.detail}") from m
        key = {"segment-offset": "bimg-segment-not-at-database-offset", "gap-fill": "bimg-gap-not-device-pattern",
               "length": "bimg-image-length"}[m.clause]
        d = m.detail
        if m.clause == "segment-offset" and _has_floating(raw) and plan["init"] and d.get("found_at") == d["expected_start"] + plan["init"] + 1:
            key = "bimg-init-offset-negative-with-floating-segment"  # nothing cut off, everything one byte late
        elif m.clause == "segment-offset" and dict(bimg_ref.layout_segments(raw))[d["segment"]] < 0:
            key = "bimg-floating-segment-not-at-aligned-end"
        ctx.violation(key, _witness(case, plan, {"where": where, "clause": m.clause, **d}))
        return None
    ctx.count("placement_checked")
    return exp


def _judge_image_info(ctx, case, raw, plan, bimg, exp, image):
    """The BinaryImage description (image_info) must say the same as the bytes."""
    info = bimg.image_info()
    subs = {s.name: (s.offset, s.offset + len(s)) for s in info.sub_images}
    want = {n: tuple(v) for n, v in exp["segments"].items()}
    if subs != want:
        ctx.violation("bimg-image-info-disagrees-with-export", _witness(case, plan, {"image_info": subs, "expected": want}))
        return
    if len(info) != len(image) or len(bimg) != len(image):
        ctx.violation("bimg-image-info-length", _witness(case, plan, {"len_info": len(info), "len_bimg": len(bimg), "len_export": len(image)}))
        return
    ok, e = ctx.call(info.validate)
    if not ok:
        ctx.violation("bimg-image-info-validate-fails-on-disjoint-segments", _witness(case, plan, {"error": core.exc_brief(e)}))
        return
    fb = bimg_ref.fill_byte(raw)
    pat = info.pattern.get_block(4) if info.pattern is not None else None
    if pat != bytes([fb]) * 4:
        ctx.violation("bimg-pattern-not-from-database", _witness(case, plan, {"image_pattern": bimg.image_pattern, "database": raw.get("image_pattern")}))
        return
    ctx.count("image_info_checked")


def _parse_key(raw, plan, observed_init, message="", parsed=None):
    """Mechanism key for a parse that was rejected (observed_init None) or returned another initial offset.

    The known finding is assigned only when the initial offset is the (non-zero) start of a segment whose class has
    INIT_SEGMENT = False and the failure is the one described: the generic 'not matching any of memory types'
    rejection, or a result attributed to another initial offset.  Every other failure is named after the
    feature of the case that explains it, else it gets the generic key.
    """
    present = _in_image(raw, plan)
    rejected = observed_init is None
    if plan["init"] and _init_class(raw, plan["init"]) == "non-init-segment":
        if not rejected or "not matching any of memory types" in message:
            return KNOWN_INIT
    if not any(n in bimg_ref.CONTAINER_KINDS for n in present):
        # no application container in the image: rejected, or the header bytes are taken for a later-start image
        return "bimg-header-only-image-not-parsable"
    if rejected:
        fcbs = [n for n in present if n in ("fcb", "fcb_xspi")]
        if fcbs and str(plan["meta"].get(fcbs[0], "")).startswith("fcb:donor"):
            return "bimg-fcb-of-family-without-fcb-support-not-parsable"
        if "xmcd" in present and len(present["xmcd"]) > 512:
            return "bimg-xmcd-longer-than-512-rejected-on-parse"
        return "bimg-parse-rejects-own-image"
    if parsed is not None and "mbi" in parsed and parsed["mbi"] != present.get("mbi") and observed_init < plan["init"]:
        # an earlier-start interpretation was accepted because the plain-MBI parser took bytes from the middle of
        # the real MBI for an MBI of their own
        return LENIENT_MBI
    return "bimg-parse-wrong-init-offset"


def _crash_key(plan, exc):
    """Mechanism key for a non-SPSDK exception escaping BootableImage.parse."""
    import traceback

    frames = [os.path.basename(fr.filename) for fr in traceback.extract_tb(exc.__traceback__)]
    if plan["init"] and any(f.startswith("mbi") for f in frames):
        # an earlier-start layout was tried first and handed bytes from the middle of the application to the MBI parser
        return f"bimg-later-start-image-crashes-mbi-parser:{type(exc).__name__}"
    return f"bimg-parse-crash:{type(exc).__name__}"


def _compare_segment(ctx, case, plan, name, data, got, fb, where):
    """One recovered segment against the supplied bytes.  True when equal."""
    ctx.count("segments_compared")
    if bimg_ref.recovered_equal(name, data, got, fb):
        return True
    size = bimg_ref.FORMAT_SIZE.get(name)
    key = "bimg-parse-segment-bytes-differ"
    if name in OPAQUE and size and len(data) > size and got == data[:size]:
        key = "bimg-oversize-header-block-truncated-on-parse"
    ctx.violation(key, _witness(case, plan, {"where": where, "segment": name, "supplied_len": len(data), "recovered_len": len(got),
                                           "first_difference": bimg_ref._first_diff(got, data), "recovered_head": core.hx(got[:16])}))
    return False


def _parse_skipped(ctx, raw, plan):
    """True when the container in the image cannot be read by its own class (not C14's business)."""
    bad = {n: st for n, st in plan["status"].items() if st.startswith("unparsable") and n in _in_image(raw, plan)}
    if bad:
        ctx.count("parse_skipped_container_class_rejects_own_bytes")
        ctx.note("container_class_rejects_own_bytes", {n: [plan["meta"].get(n), st] for n, st in bad.items()})
    return bool(bad)


def _judge_parse(ctx, case, raw, plan, image):
    """Parse the exported image and compare with what was supplied."""
    from spsdk.exceptions import SPSDKError
    from spsdk.image.bootable_image.bimg import BootableImage
    from spsdk.image.mem_type import MemoryType

    fam, rev, mem = case["family"], case["revision"], case["memory"]
    init = plan["init"]
    expected = _in_image(raw, plan)
    if _parse_skipped(ctx, raw, plan):
        return None
    ctx.count("parse_judged")
    given = image
    if ctx.rng.random() < 0.25:
        # the same bytes in a mutable buffer (what a read from a device or an mmap hands over)
        given = bytearray(image)
        ctx.count("parsed_from_bytearray")
    try:
        parsed = BootableImage.parse(given, family=fam, mem_type=MemoryType.from_label(mem), revision=rev)
    except SPSDKError as e:
        ctx.violation(_parse_key(raw, plan, None, str(e)),
                      _witness(case, plan, {"where": "api parse", "error": core.exc_brief(e), "image_length": len(image),
                                            "init_class": _init_class(raw, init)}))
        return False
    except Exception as e:  # pylint: disable=broad-except
        if core.origin_of(e) != "repo":
            raise
        ctx.violation(_crash_key(plan, e), _witness(case, plan, {"where": "api parse", "exception": core.exc_brief(e),
                                                               "init_class": _init_class(raw, init)}))
        return False
    if parsed.init_offset != init:
        got = {s.NAME.label: bytes(s.export()) for s in parsed.segments}
        ctx.violation(_parse_key(raw, plan, parsed.init_offset, parsed=got),
                      _witness(case, plan, {"where": "api parse", "parsed_init_offset": parsed.init_offset,
                                            "parsed_segments": {n: len(b) for n, b in got.items()},
                                            "init_class": _init_class(raw, init)}))
        return False
    fb = bimg_ref.fill_byte(raw)
    got = {s.NAME.label: bytes(s.export()) for s in parsed.segments}
    good = True
    for name, data in expected.items():
        if name not in got:
            ctx.count("segments_compared")
            ctx.violation("bimg-parse-loses-segment", _witness(case, plan, {"where": "api parse", "segment": name, "parsed": sorted(got)}))
            good = False
        elif not _compare_segment(ctx, case, plan, name, data, got[name], fb, "api parse"):
            good = False
    for name in got:
        if name not in expected:
            ctx.violation("bimg-parse-invents-segment", _witness(case, plan, {"where": "api parse", "segment": name, "len": len(got[name]),
                                                                        "head": core.hx(got[name][:16])}))
            good = False
    if not good:
        return False
    # auto-detection (no memory type named): whichever memory type SPSDK settles on, parsing has to recover the segments
    if init == 0:
        ctx.count("autodetect_parses")
        try:
            auto = BootableImage.parse(image, family=fam, revision=rev)
            got_a = {s.NAME.label: bytes(s.export()) for s in auto.segments}
            lost = sorted(n for n, data in expected.items() if n not in got_a or not bimg_ref.recovered_equal(n, data, got_a[n], fb))
            chosen = auto.mem_type.label
        except SPSDKError as e:
            lost, chosen, got_a = sorted(expected), "none: " + core.exc_brief(e)[:120], {}
        if lost:
            key = "bimg-autodetected-memory-type-loses-segments"
            if chosen != mem and "mbi" in got_a and "mbi" not in expected:
                key = AUTODETECT_LENIENT_MBI  # the first memory type of the database "recognises" a plain MBI in foreign bytes
            ctx.violation(key, _witness(case, plan, {
                "where": "api parse without a memory type", "memory_type_chosen": chosen, "memory_type_of_the_image": mem,
                "segments_not_recovered": lost, "parsed": sorted(got_a)}))
            return False
    if any(st == "not-idempotent" for n, st in plan["status"].items() if n in expected):
        ctx.count("reexport_skipped_container_class_not_idempotent")
        ctx.note("container_class_not_idempotent", sorted(plan["meta"].get(n) for n, st in plan["status"].items() if st == "not-idempotent"))
        return True
    again = parsed.export()
    ctx.count("reexport_checked")
    if again != image:
        ctx.violation("bimg-reexport-differs", _witness(case, plan, {"where": "api parse", "len_reexport": len(again), "len_image": len(image),
                                                                "first_difference": bimg_ref._first_diff(again, image)}))
        return False
    return True


def _build_api(ctx, case, raw, plan, wd, sig):
    """load_from_config + export through the API.  Returns (bimg, image) or None."""
    from spsdk.exceptions import SPSDKError
    from spsdk.image.bootable_image.bimg import BootableImage
    from spsdk.image.bootable_image.segments import BootableImageSegment

    _write_files(wd, plan)
    try:
        bimg = BootableImage.load_from_config(dict(plan["config"]), search_paths=[wd])
        if plan["init_form"] == "name":
            bimg.set_init_offset(BootableImageSegment.from_label(plan["init_name"]))
        if bimg.init_offset != plan["init"]:
            key = "bimg-init-offset-not-snapped-to-segment-start"
            if _has_floating(raw) and bimg.init_offset < 0:
                key = "bimg-init-offset-negative-with-floating-segment"
            ctx.violation(key, _witness(case, plan, {"observed_init_offset": bimg.init_offset}))
            return None
        image = bimg.export()
        second = bimg.export()
        ctx.count("second_exports_compared")
        if second != image:
            ctx.violation("bimg-second-export-of-the-same-object-differs", _witness(case, plan, {"first": len(image), "second": len(second),
                                                                                          "first_diff": next((i for i, (x, y) in enumerate(zip(image, second)) if x != y), None)}))
            return None
        # the same object visits another initial offset and comes back: the image is a function of the segments and of
        # the CURRENT initial offset only (segments cut off by an earlier, later offset belong to the image again)
        fixed = sorted({o for _n, o in bimg_ref.segment_starts(raw) if o >= 0 and o != plan["init"]})
        if fixed:
            visit = fixed[ctx.rng.randrange(len(fixed))]
            bimg.init_offset = visit
            bimg.init_offset = plan["init"]
            ctx.count("init_offset_histories")
            back = bimg.export() if bimg.init_offset == plan["init"] else None
            if back != image:
                ctx.violation("bimg-image-depends-on-earlier-initial-offsets", _witness(case, plan, {
                    "visited": visit, "init_offset_after": bimg.init_offset, "first": len(image), "after": None if back is None else len(back),
                    "first_diff": None if back is None else next((i for i, (x, y) in enumerate(zip(image, back)) if x != y), None)}))
                return None
    except SPSDKError as e:
        if not _refusal_expected(raw, plan):
            ctx.violation("bimg-merge-refuses-well-formed-segments", _witness(case, plan, {"where": "api", "error": core.exc_brief(e)}))
            return None
        ctx.refused(sig, core.exc_brief(e))
        ctx.note("refused_build", {"family": case["family"], "memory": case["memory"], "why": core.exc_brief(e)})
        return None
    except KeyError as e:
        if plan["absent_form"].get("hab_container") == "omit" and e.args and e.args[0] == "hab_container":
            ctx.violation("bimg-hab-container-key-absent-keyerror", _witness(case, plan, {"exception": core.exc_brief(e)}))
            return None
        raise
    ctx.count("images_built")
    return bimg, image


def _run_api(ctx, case, raw, plan, wd, sig):
    built = _build_api(ctx, case, raw, plan, wd, sig)
    if built is None:
        return False
    bimg, image = built
    exp = _judge_image(ctx, case, raw, plan, image, "api")
    if exp is None:
        return False
    _judge_image_info(ctx, case, raw, plan, bimg, exp, image)
    ok = _judge_parse(ctx, case, raw, plan, image)
    if ok is not False:
        ctx.ok(sig, nontrivial=ok is True,
               sample={"family": case["family"], "revision": case["revision"], "memory": case["memory"],
                       "init_offset": plan["init"], "image_length": len(image),
                       "segments": {n: list(v) for n, v in exp["segments"].items()}, "how": plan["meta"]})
    return ok


def _sig(raw, plan, kind):
    req = plan["init_form"] if plan["init_req"] == plan["init"] else "between"
    return [kind, bimg_ref.layout_key(raw), _init_class(raw, plan["init"]), req,
            sorted(f"{n}={plan['meta'].get(n)}" for n in plan["supplied"])]


def _draw_plan(case, raw, rng, wd, **kw):
    for _attempt in range(12):
        plan = _make_plan(case, raw, rng, wd, **kw)
        if _in_image(raw, plan):
            return plan
    raise core.Inconclusive("could not draw a non-empty image")


# ------------------------------------------------------------------------------------------
def run_case(case, ctx):
    kind = case["kind"]
    rng = ctx.rng
    if kind in ("witness", "witness_mbi", "directed", "cli"):
        case = dict(case, revision=_latest_name(case["family"]))
    raw = _raw_layout(case["family"], case["revision"], case["memory"])
    try:
        bimg_ref.layout_segments(raw)
        bimg_ref.fill_byte(raw)
    except bimg_ref.LayoutError as e:
        raise core.Inconclusive(f"layout not modelled: {e}") from e

    if kind == "witness":
        init = case["init"]
        at = [n for n, o in bimg_ref.segment_starts(raw) if o == init]
        if not at or any(_init_segment_flag(n) for n in at):
            raise core.Inconclusive(f"witness precondition gone: no non-INIT segment starts at {init:#x}")
        wd = _fresh_dir(ctx, "w")
        plan = _make_plan(case, raw, rng, wd, full=True, init_req=init, container_size="small")
        ctx.count("known_witness")
        _run_api(ctx, case, raw, plan, wd, _sig(raw, plan, "witness"))
        shutil.rmtree(wd, ignore_errors=True)
        return

    if kind == "directed":
        wd = _fresh_dir(ctx, "dir")
        plan = _make_plan(case, raw, rng, wd, full=True, init_req=case.get("init", 0), container_size="small",
                          directives=case.get("directives"))
        if not _in_image(raw, plan):
            raise core.Inconclusive("directed case builds no image")
        ctx.count("directed_cases")
        _run_api(ctx, case, raw, plan, wd, _sig(raw, plan, "directed"))
        shutil.rmtree(wd, ignore_errors=True)
        return

    if kind == "witness_mbi":
        dboff = dict(bimg_ref.layout_segments(raw))
        seg = case["init_segment"]
        if seg not in dboff or "mbi" not in dboff or not 0 < dboff[seg] < dboff["mbi"] or not _init_segment_flag(seg):
            raise core.Inconclusive("witness precondition gone: no INIT_SEGMENT start between 0 and the MBI")
        wd = _fresh_dir(ctx, "wm")
        # the full-layout pass looks for the MBI at its database offset, i.e. (initial offset) bytes into the real MBI
        plan = _make_plan(case, raw, rng, wd, full=True, init_req=dboff[seg], container_size="large",
                          mbi_flags_at=(dboff[seg], case["word"]), directives=case.get("directives"))
        ctx.count("lenient_mbi_witness")
        _run_api(ctx, case, raw, plan, wd, _sig(raw, plan, "witness_mbi"))
        shutil.rmtree(wd, ignore_errors=True)
        return

    if kind == "starts":
        starts = [0] + sorted({o for _, o in bimg_ref.segment_starts(raw) if o > 0})
        for j, init in enumerate(starts):
            wd = _fresh_dir(ctx, f"s{j}")
            plan = _make_plan(case, raw, rng, wd, full=True, init_req=init)
            if _in_image(raw, plan):
                _run_api(ctx, case, raw, plan, wd, _sig(raw, plan, "starts"))
            shutil.rmtree(wd, ignore_errors=True)
        return

    if kind == "draw":
        wd = _fresh_dir(ctx, "d")
        plan = _draw_plan(case, raw, rng, wd)
        _run_api(ctx, case, raw, plan, wd, _sig(raw, plan, "draw"))
        shutil.rmtree(wd, ignore_errors=True)
        return

    if kind == "cli":
        wd = _fresh_dir(ctx, "cli")
        try:
            _run_cli(ctx, case, raw, wd)
        finally:
            shutil.rmtree(wd, ignore_errors=True)
        return
    raise core.Inconclusive(f"unknown case kind {kind}")


def _cli_failure(res):
    exc = res.exception
    if exc is not None and not isinstance(exc, SystemExit):
        return exc, core.exc_brief(exc)
    return None, (res.output or "").strip()[-300:]


def _run_cli(ctx, case, raw, wd):
    import yaml
    from click.testing import CliRunner

    from spsdk.apps import nxpimage
    from spsdk.image.bootable_image.bimg import BootableImage

    rng = ctx.rng
    # the erased image-version word (nothing configured) has no configuration value that regenerates it, so the
    # parse -> merge comparison below is only meaningful with a configured version
    plan = _draw_plan(case, raw, rng, wd, version_always=True, full=bool(case.get("full")),
                      init_req=0 if case.get("full") else None,
                      directives={"xmcd": ["flexspi_ram", "simplified"]} if case.get("full") and case["family"] == "mimxrt1189" else None)
    if plan["init_form"] == "name":  # the configuration file takes numbers only
        plan["init_form"] = "int"
        if plan["init_req"]:
            plan["config"]["init_offset"] = plan["init_req"]
    sig = _sig(raw, plan, "cli")
    _write_files(wd, plan)
    cfg_path = os.path.join(wd, "bimg_config.yaml")
    with open(cfg_path, "w", encoding="utf-8") as f:
        yaml.safe_dump(plan["config"], f)
    out = os.path.join(wd, "merged.bin")
    runner = CliRunner()
    res = runner.invoke(nxpimage.main, ["bootable-image", "merge", "-c", cfg_path, "-o", out], catch_exceptions=True)
    ctx.count("cli_merge")
    if res.exit_code != 0 or not os.path.isfile(out):
        exc, text = _cli_failure(res)
        if exc is not None and not core.is_refusal(exc):
            if isinstance(exc, KeyError) and plan["absent_form"].get("hab_container") == "omit":
                ctx.violation("bimg-hab-container-key-absent-keyerror", _witness(case, plan, {"where": "cli merge", "exception": text}))
            else:
                ctx.violation(f"bimg-cli-merge-crash:{type(exc).__name__}", _witness(case, plan, {"exception": text}))
        elif not _refusal_expected(raw, plan):
            ctx.violation("bimg-merge-refuses-well-formed-segments", _witness(case, plan, {"where": "cli merge", "error": text}))
        else:
            ctx.refused(sig, f"cli merge exit {res.exit_code}: {text}")
            ctx.note("refused_build", {"family": case["family"], "memory": case["memory"], "why": text})
        return
    with open(out, "rb") as f:
        image = f.read()
    ctx.count("images_built")
    exp = _judge_image(ctx, case, raw, plan, image, "cli merge")
    if exp is None:
        return
    # the API must produce the same bytes from the same configuration
    api_img = BootableImage.load_from_config(dict(plan["config"]), search_paths=[wd]).export()
    if api_img != image:
        ctx.violation("bimg-cli-merge-differs-from-api", _witness(case, plan, {"len_cli": len(image), "len_api": len(api_img)}))
        return
    if _parse_skipped(ctx, raw, plan):
        ctx.ok(sig, nontrivial=False)
        return
    # parse through the CLI
    pdir = os.path.join(wd, "parsed")
    res = runner.invoke(nxpimage.main, ["bootable-image", "parse", "-f", case["family"], "-m", case["memory"], "-b", out, "-o", pdir],
                        catch_exceptions=True)
    ctx.count("cli_parse")
    ctx.count("parse_judged")
    cfg_out = os.path.join(pdir, f"bootable_image_{case['family']}_{case['memory']}.yaml")
    init = plan["init"]
    if res.exit_code != 0 or not os.path.isfile(cfg_out):
        exc, text = _cli_failure(res)
        if exc is not None and not core.is_refusal(exc):
            ctx.violation(_crash_key(plan, exc), _witness(case, plan, {"where": "cli parse", "exception": text}))
        else:
            ctx.violation(_parse_key(raw, plan, None, text),
                          _witness(case, plan, {"where": "cli parse", "exit_code": res.exit_code, "error": text,
                                                "init_class": _init_class(raw, init)}))
        return
    with open(cfg_out, encoding="utf-8") as f:
        pcfg = yaml.safe_load(f)
    if pcfg.get("init_offset", 0) != init:
        got = {}
        mp = os.path.join(pdir, "segment_mbi.bin")
        if os.path.isfile(mp):
            with open(mp, "rb") as f:
                got["mbi"] = f.read()
        ctx.violation(_parse_key(raw, plan, pcfg.get("init_offset", 0), parsed=got),
                      _witness(case, plan, {"where": "cli parse", "parsed_init_offset": pcfg.get("init_offset")}))
        return
    fb = bimg_ref.fill_byte(raw)
    good = True
    for name, data in _in_image(raw, plan).items():
        if name in ("image_version", "image_version_ap"):
            ctx.count("segments_compared")
            val = pcfg.get("image_version")
            same = isinstance(val, int) and bimg_ref.image_version_bytes(name, val) == data
            if not same:
                ctx.violation("bimg-cli-parse-image-version", _witness(case, plan, {"parsed_value": val, "supplied": core.hx(data)}))
                good = False
            continue
        p = os.path.join(pdir, f"segment_{name}.bin")
        if not os.path.isfile(p):
            ctx.count("segments_compared")
            ctx.violation("bimg-parse-loses-segment", _witness(case, plan, {"where": "cli parse", "segment": name, "files": sorted(os.listdir(pdir))}))
            good = False
            continue
        with open(p, "rb") as f:
            got = f.read()
        if not _compare_segment(ctx, case, plan, name, data, got, fb, "cli parse"):
            good = False
    if not good:
        return
    # the configuration written by parse must refer to every recovered segment
    for name in _in_image(raw, plan):
        if name in ("image_version", "image_version_ap"):
            continue
        if not pcfg.get(CFG_KEY.get(name, name)):
            ctx.violation("bimg-cli-parsed-config-omits-segment",
                          _witness(case, plan, {"where": "cli parse", "segment": name, "config_key": CFG_KEY.get(name, name),
                                                "parsed_config_keys": sorted(pcfg)}))
            return
    if any(st == "not-idempotent" for st in plan["status"].values()):
        ctx.count("reexport_skipped_container_class_not_idempotent")
        ctx.ok(sig, sample={"family": case["family"], "memory": case["memory"], "init_offset": init, "cli": True, "reexport": "skipped"})
        return
    # merging the parsed configuration again gives the same image (run inside the output folder: the nested AHAB
    # configuration refers to its data files relative to the working directory)
    out2 = os.path.join(wd, "merged2.bin")
    with contextlib.chdir(pdir):
        res = runner.invoke(nxpimage.main, ["bootable-image", "merge", "-c", cfg_out, "-o", out2], catch_exceptions=True)
    ctx.count("reexport_checked")
    if res.exit_code != 0 or not os.path.isfile(out2):
        exc, text = _cli_failure(res)
        if exc is not None and not core.is_refusal(exc):
            ctx.violation(f"bimg-cli-merge-crash:{type(exc).__name__}", _witness(case, plan, {"where": "merge of the parsed configuration", "exception": text}))
            return
        # merge refuses the configuration that parse wrote (documented error): counted and reported, not judged -
        # the segment files were compared above
        ctx.count("cli_parsed_config_refused_by_merge")
        ctx.note("cli_parsed_config_refused_by_merge", {"family": case["family"], "memory": case["memory"], "why": text[:260]})
        ctx.ok(sig, sample={"family": case["family"], "memory": case["memory"], "init_offset": init, "cli": True, "remerge": "refused"})
        return
    with open(out2, "rb") as f:
        image2 = f.read()
    if image2 != image:
        ctx.violation("bimg-reexport-differs", _witness(case, plan, {"where": "cli parse + merge", "len_reexport": len(image2),
                      "len_image": len(image), "first_difference": bimg_ref._first_diff(image2, image)}))
        return
    ctx.ok(sig, sample={"family": case["family"], "memory": case["memory"], "init_offset": init, "cli": True,
                        "image_length": len(image), "how": plan["meta"]})


def extra_coverage(events, counters):
    """Measured coverage keys for the evidence file (runs in the parent, from the worker logs)."""
    import json

    layouts, init_classes, kinds, forms, segsets = set(), {}, {}, {}, set()
    for ev in events:
        if ev.get("t") != "ok" or "sig" not in ev:
            continue
        try:
            kind, layout, icls, form, segs = json.loads(ev["sig"])
        except (ValueError, TypeError):
            continue
        layouts.add(layout)
        init_classes[icls] = init_classes.get(icls, 0) + 1
        kinds[kind] = kinds.get(kind, 0) + 1
        forms[form] = forms.get(form, 0) + 1
        segsets.add((layout, tuple(s.split("=")[0] for s in segs)))
    return {
        "layouts_with_agreeing_cases": len(layouts),
        "distinct_signatures_by_initial_offset_class": init_classes,
        "distinct_signatures_by_case_kind": kinds,
        "distinct_signatures_by_initial_offset_request_form": forms,
        "distinct_layout_x_supplied_segment_sets": len(segsets),
    }
