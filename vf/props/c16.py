"""C16 - BinaryImage: composition, validation, file formats preserve bytes and addresses.

Runtime monitoring.  The real ``spsdk.utils.images.BinaryImage`` is driven with

* random image trees (depth 1..4; offsets / sizes / alignments from {1,2,4,16,512,1024} and odd neighbours;
  patterns none/zeros/ones/inc/rand/1-4 byte numbers; explicit and derived sizes; layouts mutated on purpose so
  that siblings overlap / touch / nest and children protrude / fit exactly),
* BIN / Intel-HEX / S-record save + load round trips at base addresses up to 2^32-1 with execution start addresses,
  and sparse multi-segment files written by the *reference* writer (not by SPSDK) and loaded by SPSDK,
* join_images / append_image / update_offsets,
* the CLI ``nxpimage utils binary-image create|merge|convert`` (click CliRunner),
* a harvest workload: real trees built by SPSDK's own producers (register sets / PFR, MBI, bootable image, HAB,
  AHAB, OTFAD, IEE ...) are pushed through the same oracle,

and judged by ``vf.refs.binimg`` (sparse address->byte map built recursively from the tree description, interval
checker for validity, independent Intel-HEX / S-record codecs).  M-BIN: invariant wrappers on the real
``BinaryImage.export / validate / __len__`` are installed in every worker, so every export anywhere (also deep
inside the SPSDK builders) is checked.
"""
from __future__ import annotations

import json
import os

from vf import core
from vf.refs import binimg as R

ID = "C16"
LEVEL = "exploration"
TECHNIQUE = ("runtime monitoring: differential oracle (independent sparse-map reference + interval checker + independent "
             "HEX/SREC codecs) over random / hostile / harvested image trees, invariant wrappers on BinaryImage.export/validate/__len__")
RULE = (
    "random trees depth 1..4 built bottom-up (children placed with gaps from {0,1,2,4,16,512,1024}), then mutated at a random "
    "node (overlap by one byte / by k / same offset / touching / nested sibling / parent one byte too small / exact fit / "
    "negative child offset); formats: valid trees at bases {0,0x100,0xFFF8,0x08000000,0x1FFF0000,2^32-len,random} x start "
    "addresses {none,0,0x1234,0xFFFFFFFF,random} x {BIN,HEX,S19}; foreign sparse HEX/S19 files with 1..5 segments, "
    "S1/S2/S3 widths, record lengths 1..32; CLI create/merge/convert on generated configs; harvested trees from SPSDK "
    "builders. A case signature is (workload, depth, validity class, top pattern class, size mode, format ...); "
    "non-trivial = the real code ran and the reference gave the tree a defined meaning."
)
ASSUMPTIONS = [
    "layering of one image: fill pattern starting at the image's own offset 0, then its own binary at 0, then its children (DESIGN C16 oracle)",
    "an image without pattern is zero filled; a *nested* one therefore contributes zeros to its parent (export() is the BIN path and the authority)",
    "zero-length images, an own binary longer than an explicit size and a negative top-level offset have no defined meaning: exercised, not judged",
    "'rand' fill bytes are unconstrained; only their addresses are judged",
    "sparse formats (HEX/S19): the fill of a pattern-less TOP image (leading gap, inner gaps, alignment padding) is not part of the defined address set",
    "BIN payloads that are printable ASCII (possible HEX/SREC/TI-TXT text) or start with the ELF magic are excluded from the judged BIN loads (auto-detection is inherently ambiguous)",
    "number patterns are written without leading zero bytes (0x0012 and 0x12 are the same number; the unit is the minimal big-endian byte string)",
    "the execution start address stored in a HEX/S19 file is one of 'the addresses' the round trip has to preserve",
    "merge: a region file is placed with its own address space at the region offset; the fill inside a sparse region file that follows a binary_block is not judged (the schema does not say which pattern applies)",
    "trusted base: bincopy is exercised only through SPSDK; files are additionally decoded by the independent codecs in vf/refs/binimg.py",
]
REQUIRED_COUNTERS = ["export_checked", "validate_checked", "len_checked", "format_roundtrips", "foreign_loads",
                     "api_laws", "cli_runs", "harvest_trees", "mbin_export", "mbin_validate", "mbin_len"]
CASE_TIMEOUT_S = 900
WATCHDOG_S = {"quick": 1800, "thorough": 7200}
REPO_TESTS_TIMEOUT_S = {"quick": 90, "thorough": 600}  # unloaded: 8..40 s per module (incl. start-up)

KEY_NESTED_NOPATTERN = "hex-s19-save-omits-zero-fill-of-nested-patternless-image"

OFFS = [0, 0, 0, 1, 2, 4, 16, 512, 1024]
GAPS = [0, 0, 0, 1, 1, 2, 4, 16, 16, 512, 1024]
SIZES = [1, 2, 4, 16, 16, 512, 1024]
ODD = [3, 5, 7, 15, 17, 33, 511, 513]
ALIGNS = [1, 1, 1, 1, 2, 4, 4, 16, 16, 512, 1024]


# ==========================================================================================
# cases
# ==========================================================================================
def cases(tier, seed):
    th = tier == "thorough"
    # the long-running harvest cases first: case i goes to shard i % nshards, so they land in different workers
    for mod, quick_k in REPO_TEST_MODULES:
        yield {"kind": "harvest", "src": "repo_tests", "module": mod, "select": None if th else quick_k}
    yield {"kind": "witness"}
    for src, (nq, nt) in HARVEST_SOURCES.items():
        for k in range(nt if th else nq):
            yield {"kind": "harvest", "src": src, "k": k}
    for k in range(1000 if th else 32):
        yield {"kind": "trees", "k": k, "n": 120 if th else 60}
    for k in range(800 if th else 32):
        yield {"kind": "formats", "k": k, "n": 40 if th else 14}
    for k in range(256 if th else 8):
        yield {"kind": "foreign", "k": k, "n": 40 if th else 16}
    for k in range(256 if th else 8):
        yield {"kind": "api", "k": k, "n": 120 if th else 50}
    for k in range(150 if th else 8):
        yield {"kind": "cli", "k": k, "n": 30 if th else 10}


# harvest source -> (quick cases, thorough cases)
HARVEST_SOURCES = {
    "registers": (3, 12),
    "mbi": (3, 12),
    "bootable": (3, 12),
    "repo_files": (2, 2),
}
# repository test modules run under the M-BIN wrappers (pytest plugin = this module); real builders with real keys
REPO_TEST_MODULES = [  # (modules, -k selection used by the quick tier)
    ("tests/nxpimage/test_nxpimage_hab.py", "export_unsigned or export_authenticated or parse_and_export"),
    ("tests/nxpimage/test_nxpimage_bimg.py", "bimg_merge or parse_export or image_info or parse_image_adjustment"),
    ("tests/nxpimage/test_nxpimage_mbi.py", None),
    ("tests/nxpimage/test_nxpimage_ahab.py", None),
    ("tests/nxpimage/test_nxpimage_otfad.py", None),
    ("tests/nxpimage/test_nxpimage_iee.py", None),
    ("tests/nxpimage/test_nxpimage_binary.py", None),
    ("tests/nxpimage/test_nxpimage_utils_convert.py tests/utils/test_binary_image.py", None),
    ("tests/nxpimage/test_nxpimage_xmcd.py tests/nxpimage/test_nxpimage_fcb.py", None),
    ("tests/nxpimage/test_nxpimage_bca.py tests/nxpimage/test_nxpimage_fcf.py", None),
]


def selftest(ctx):
    # prepare phase (single process): build the complete device-database cache now, so that the 16 workers only ever read
    # it - concurrent first-time creation of the cache is a C18 matter and must not leak into this check
    from spsdk.utils.database import DatabaseManager

    DatabaseManager().db  # noqa: B018  pylint: disable=expression-not-assigned
    return {"binimg": R.selftest(core.repo_root())}


# ==========================================================================================
# real tree <-> description
# ==========================================================================================
def pattern_to_str(p):
    if p is None:
        return None
    if isinstance(p, str):
        return p
    return hex(p[1])


def describe_pattern(pat):
    """BinaryPattern object (or None) of a real image -> reference pattern description."""
    if pat is None:
        return None
    raw = getattr(pat, "_pattern", pat)
    if isinstance(raw, str) and raw in R.SPECIAL_PATTERNS:
        return raw
    from spsdk.utils.misc import value_to_int

    return ["num", value_to_int(raw)]


def describe(img, top=True):
    """Real BinaryImage tree -> reference description (reads attributes only)."""
    b = img.binary
    if b is not None and not isinstance(b, bytes):
        b = bytes(b)
    return {
        "name": str(img.name)[:40],
        "offset": img.offset,
        "size": img._size,
        "alignment": img.alignment,
        "pattern": describe_pattern(img.pattern),
        "binary": b,
        "children": [describe(c, False) for c in img.sub_images],
    }


def inconsistent_state(img):
    """Object states no constructor call produces (attributes changed afterwards): explicit size not a multiple of
    the alignment.  The reference gives them no meaning."""
    out = []
    stack = [img]
    while stack:
        m = stack.pop()
        if m._size and m.alignment > 0 and m._size % m.alignment:
            out.append(f"{str(m.name)[:30]}: explicit size {m._size} not a multiple of alignment {m.alignment}")
        stack.extend(m.sub_images)
    return out


def build(desc, rng=None, top=True):
    """Reference description -> real tree.  Children are added in random order (add_image has to sort them)."""
    from spsdk.utils.images import BinaryImage
    from spsdk.utils.misc import BinaryPattern

    pat = desc["pattern"]
    img = BinaryImage(
        name=desc["name"], size=desc["size"], offset=desc["offset"], binary=desc["binary"],
        pattern=None if pat is None else BinaryPattern(pattern_to_str(pat)), alignment=desc["alignment"],
    )
    kids = list(desc["children"])
    order = list(range(len(kids)))
    if rng is not None and len(kids) > 1 and not _equal_offsets(kids):
        rng.shuffle(order)
    for i in order:
        img.add_image(build(kids[i], rng, False))
    return img


def _equal_offsets(kids):
    offs = [k["offset"] for k in kids]
    return len(set(offs)) != len(offs)


def summary(desc, limit=40):
    """Small JSON-able picture of a tree for witnesses."""
    out = []
    for path, m in R.walk(desc):
        if len(out) >= limit:
            out.append("...")
            break
        out.append({"path": list(path), "off": m["offset"], "size": m["size"], "al": m["alignment"],
                    "pat": pattern_to_str(m["pattern"]), "bin": None if m["binary"] is None else len(m["binary"])})
    return out


def desc_to_json(desc):
    d = dict(desc)
    d["binary"] = None if desc["binary"] is None else desc["binary"].hex()
    d["children"] = [desc_to_json(c) for c in desc["children"]]
    return d


# ==========================================================================================
# M-BIN: invariant wrappers on the real class
# ==========================================================================================
_MON = {"ctx": None, "stack": [], "vdepth": 0, "quiet": 0, "shapes": set(), "test": None}


def install_monitors(ctx):
    if not os.environ.get(core.GUARD):
        raise core.Inconclusive(f"{core.GUARD} not set")
    from spsdk.exceptions import SPSDKError
    from spsdk.utils import images

    BI = images.BinaryImage
    _MON["ctx"] = ctx
    if getattr(BI, "_vf_mbin", False):
        return
    orig_export, orig_validate, orig_len = BI.export, BI.validate, BI.__len__
    _MON["orig"] = (orig_export, orig_validate, orig_len)
    counters = ctx.counters

    def m_len(self):
        r = orig_len(self)
        counters["mbin_len"] = counters.get("mbin_len", 0) + 1
        if r < 0 or (self._size and r != self._size) or (not self._size and self.alignment > 0 and r % self.alignment):
            _MON["ctx"].violation("mbin-len-not-explicit-size-or-aligned", {"len": r, "_size": self._size, "alignment": self.alignment})
        return r

    def m_export(self):
        st = _MON["stack"]
        frame: dict = {}
        st.append(frame)
        try:
            out = orig_export(self)
        finally:
            st.pop()
        if st:
            st[-1][id(self)] = out
        counters["mbin_export"] = counters.get("mbin_export", 0) + 1
        if not _MON["quiet"]:
            _guarded(_post_export, self, out, frame, not st)
        return out

    def m_validate(self):
        _MON["vdepth"] += 1
        exc = None
        try:
            orig_validate(self)
        except SPSDKError as e:
            exc = e
        finally:
            _MON["vdepth"] -= 1
        if _MON["vdepth"] == 0 and not _MON["quiet"]:
            counters["mbin_validate"] = counters.get("mbin_validate", 0) + 1
            _guarded(_post_validate, self, exc)
        if exc is not None:
            raise exc

    BI.export = m_export
    BI.validate = m_validate
    BI.__len__ = m_len
    BI._vf_mbin = True


def _guarded(fn, *a):
    """In a worker an error of a wrapper must surface (harness error => inconclusive).  Inside a repository test run
    (pytest plugin mode) it must not change the test's behaviour: it is recorded and makes the harvest case inconclusive."""
    if not _MON.get("pytest_mode"):
        return fn(*a)
    try:
        return fn(*a)
    except Exception as e:  # pylint: disable=broad-except
        ctx = _MON["ctx"]
        ctx.count("mbin_wrapper_errors")
        ctx.note("mbin_wrapper_error", {"error": core.exc_brief(e), "test": _MON.get("test")})
        return None


def _judged_view(img, for_export):
    """Description of a real tree the reference can judge, or (None, reason)."""
    odd = inconsistent_state(img)
    if odd:
        return None, "inconsistent-state"
    desc = describe(img)
    if for_export:
        desc["offset"] = 0
        desc, influence = R.prune_zero_length(desc)
        if influence:
            return None, "zero-length-image-determines-a-length"
    und = R.undefined_reasons(desc)
    if und:
        return None, "undefined: " + und[0].split(": ")[-1]
    return desc, None


def _post_export(img, out, frame, outermost):
    ctx = _MON["ctx"]
    orig_len = _MON["orig"][2]
    n = orig_len(img)
    exceeds = bool(img.binary) and bool(img._size) and len(img.binary) > img._size
    if len(out) != n and not exceeds and not inconsistent_state(img):
        ctx.violation("mbin-export-length-differs-from-len",
                      {"image": str(img.name)[:60], "len(export())": len(out), "len(image)": n,
                       "tree": summary(describe(img), 12), "test": _MON.get("test")})
        return
    if not img.sub_images:
        return
    desc, why = _judged_view(img, True)
    if desc is None:
        ctx.count("mbin_export_not_judged")
        ctx.count("mbin_export_not_judged:" + why[:60])
        return
    if R.layout_problems(desc):
        ctx.count("mbin_export_invalid_layout")
        return
    # every child's exported bytes (as actually produced during this export) sit at its offset
    nchk = 0
    for child in img.sub_images:
        cb = frame.get(id(child))
        if cb is None or child.offset < 0:
            continue
        nchk += 1
        if bytes(out[child.offset:child.offset + len(cb)]) != bytes(cb):
            ctx.violation("mbin-child-bytes-not-at-offset",
                          {"image": str(img.name)[:60], "child": str(child.name)[:60], "offset": child.offset,
                           "child_len": len(cb), "tree": summary(desc, 12), "test": _MON.get("test")})
            return
    ctx.count("mbin_children_at_offset", nchk)
    if outermost:
        # whole buffer against the reference map
        r = R.render(desc)
        i = r.matches(out) if len(out) == len(r) else -1
        if i is not None:
            ctx.violation("mbin-" + _export_mismatch_key(r, i),
                          {"image": str(img.name)[:60], "index": i, "tree": summary(desc, 16), "test": _MON.get("test"),
                           "got": core.hx(bytes(out[max(0, i - 4):i + 8])), "want": core.hx(bytes(r.data[max(0, i - 4):i + 8]))})
        else:
            ctx.count("mbin_full_oracle")
            _MON["shapes"].add((R.depth(desc), min(len(desc["children"]), 9), _pat_class(desc["pattern"]), bool(desc["size"])))


def _post_validate(img, exc):
    ctx = _MON["ctx"]
    desc, why = _judged_view(img, False)
    if desc is None or desc["offset"] < 0:
        ctx.count("mbin_validate_not_judged")
        return
    probs = R.layout_problems(desc)
    if exc is None and probs:
        ctx.violation("mbin-" + _accept_key(probs), {"image": str(img.name)[:60], "problems": probs[:4],
                                                     "tree": summary(desc, 16), "test": _MON.get("test")})
    elif exc is not None and not probs:
        ctx.violation("mbin-validate-rejects-valid-layout",
                      {"image": str(img.name)[:60], "error": core.exc_brief(exc)[:300], "tree": summary(desc, 16),
                       "test": _MON.get("test")})
    else:
        ctx.count("mbin_validate_agrees")


class quiet:
    """Harness-internal calls into the real class that are not observations (no judging by the wrappers)."""

    def __enter__(self):
        _MON["quiet"] += 1

    def __exit__(self, *a):
        _MON["quiet"] -= 1


# ==========================================================================================
# judging helpers
# ==========================================================================================
def _export_mismatch_key(r, i):
    if i < 0:
        return "export-length-differs-from-len"
    if r.padding[i]:
        return "export-alignment-padding-not-fill"
    o = r.origin[i]
    if o == R.ORIGIN_BINARY:
        return "export-sub-image-bytes-not-at-offset"
    if o == R.ORIGIN_PATTERN:
        return "export-gap-not-fill-pattern"
    return "export-gap-not-zero-in-patternless-image"


def _accept_key(probs):
    kinds = {p[0] for p in probs}
    if kinds == {"siblings-overlap"}:
        one = all(min(p[3][1], p[3][3]) - p[3][2] == 1 for p in probs)
        return "validate-accepts-siblings-sharing-one-byte" if one else "validate-accepts-overlapping-siblings"
    if kinds == {"child-outside-parent"}:
        neg = all(p[2][0] < 0 for p in probs)
        one = all(p[2][0] >= 0 and p[2][1] - p[2][2] == 1 for p in probs)
        if neg:
            return "validate-accepts-negative-child-offset"
        return "validate-accepts-child-ending-one-byte-past-parent" if one else "validate-accepts-child-outside-parent"
    return "validate-accepts-invalid-layout"


def validity_class(probs):
    kinds = sorted({p[0] for p in probs})
    return "valid" if not kinds else "+".join(kinds)


def judge_tree(ctx, desc, real, tag, sig_extra=(), judge_validate=True):
    """len / validate / export of one real tree against the reference.  Returns the real export or None."""
    from spsdk.exceptions import SPSDKError

    und = R.undefined_reasons(desc)
    if und:
        # exercised only: must not hang; outcomes are not judged
        try:
            len(real)
            real.validate()
            real.export()
        except Exception:  # pylint: disable=broad-except
            pass
        ctx.count("undefined_not_judged")
        ctx.ok([tag, "undefined", und[0].split(": ")[-1]], nontrivial=False)
        return None
    # --- len
    want_len = R.length(desc)
    got_len = len(real)
    ctx.count("len_checked")
    if got_len != want_len:
        ctx.violation("len-differs-from-reference", {"len(image)": got_len, "expected": want_len, "tree": summary(desc)})
        return None
    # --- validate
    probs = R.layout_problems(desc)
    try:
        real.validate()
        acc, err = True, None
    except SPSDKError as e:
        acc, err = False, e
    if not judge_validate:
        acc = not probs  # zero-length sub-images were dropped from the description: the real verdict is not judged
    ctx.count("validate_checked")
    if acc and probs:
        ctx.violation(_accept_key(probs), {"problems": probs[:4], "tree": summary(desc), "replay_tree": desc_to_json(desc)})
        return None
    if not acc and not probs:
        ctx.violation("validate-rejects-valid-layout", {"error": core.exc_brief(err)[:300], "tree": summary(desc), "replay_tree": desc_to_json(desc)})
        return None
    sig = [tag, "depth", R.depth(desc), validity_class(probs), "top", _pat_class(desc["pattern"]),
           "explicit" if desc["size"] else "derived", *sig_extra]
    if probs:
        ctx.count("invalid_layouts_rejected")
        ctx.ok(sig, sample={"tree": summary(desc, 8), "rejected_with": type(err).__name__, "problems": probs[:2]})
        return None
    # --- export
    blob = real.export()
    ctx.count("export_checked")
    r = R.render(desc)
    if len(blob) != len(r):
        ctx.violation("export-length-differs-from-len", {"len(export())": len(blob), "len(image)": got_len, "tree": summary(desc)})
        return None
    i = r.matches(blob)
    if i is not None:
        ctx.violation(_export_mismatch_key(r, i),
                      {"index": i, "origin": R.ORIGIN_NAMES[r.origin[i]], "in_alignment_padding": bool(r.padding[i]),
                       "got": core.hx(bytes(blob[max(0, i - 4):i + 8])), "want": core.hx(bytes(r.data[max(0, i - 4):i + 8])),
                       "tree": summary(desc), "replay_tree": desc_to_json(desc)})
        return None
    sig += ["nested-nopattern" if R.ORIGIN_NESTED_ZERO in r.origin else "-", "rand" if R.has_rand(desc) else "-",
            "padding" if any(r.padding) else "-"]
    ctx.ok(sig, sample={"tree": summary(desc, 8), "len": got_len, "export_head": core.hx(bytes(blob[:24]))})
    return blob


def _pat_class(p):
    if p is None:
        return "none"
    if isinstance(p, str):
        return p
    return f"num{len(R.pattern_unit(p))}"


# ==========================================================================================
# generators
# ==========================================================================================
def gen_pattern(rng, allow_none=True, allow_rand=True):
    ch = ["zeros", "ones", "inc", "num", "num"]
    if allow_none:
        ch += [None, None]
    if allow_rand:
        ch += ["rand"]
    p = core.pick(rng, ch)
    if p == "num":
        k = core.pick(rng, [1, 1, 2, 3, 4])
        v = rng.getrandbits(8 * k)
        if k > 1 and v >> (8 * (k - 1)) == 0:
            v |= rng.randrange(1, 256) << (8 * (k - 1))
        return ["num", v]
    return p


def gen_tree(rng, depth, big=True, allow_rand=True, name="n", force=True):
    """Valid tree of exactly ``depth`` levels (when force), root offset 0."""
    sizes = SIZES + ODD if big else [1, 2, 4, 16, 16, 3, 5, 7, 15, 17, 33, 64]
    aligns = ALIGNS if big else [1, 1, 1, 2, 4, 4, 16]
    gaps = GAPS if big else [0, 0, 0, 1, 1, 2, 4, 16]
    al = core.pick(rng, aligns)
    pat = gen_pattern(rng, allow_rand=allow_rand)
    if depth <= 1 or (not force and rng.random() < 0.3):
        kind = core.pick(rng, ["binary", "binary", "binary+size", "pattern", "pattern", "block"])
        if kind == "binary":
            return R.node(name, 0, 0, al, pat, core.rand_bytes(rng, core.pick(rng, sizes)))
        if kind == "binary+size":
            b = core.rand_bytes(rng, core.pick(rng, sizes))
            return R.node(name, 0, len(b) + core.pick(rng, [0, 1, 2, 4, 16, 512 if big else 8]), al, pat, b)
        if kind == "pattern":
            return R.node(name, 0, core.pick(rng, sizes), al, pat if pat is not None else "ones", None)
        return R.node(name, 0, core.pick(rng, sizes), al, pat, None)
    nkids = core.pick(rng, [1, 2, 2, 3, 3, 4])
    kids = [gen_tree(rng, depth - 1, big, allow_rand, f"{name}.{i}", force=(force and i == 0)) for i in range(nkids)]
    rng.shuffle(kids)
    binary = None
    cursor = core.pick(rng, OFFS if big else [0, 0, 1, 2, 4, 16])
    if rng.random() < 0.3:
        binary = core.rand_bytes(rng, core.pick(rng, sizes))
        if rng.random() < 0.75:
            cursor = len(binary) + core.pick(rng, gaps)  # else: the children overlay the own binary
    for c in kids:
        c["offset"] = cursor + core.pick(rng, gaps)
        cursor = c["offset"] + R.length(c)
    size = 0
    if rng.random() < 0.5:
        size = max(cursor, len(binary) if binary else 0) + core.pick(rng, gaps)
    return R.node(name, 0, size, al, pat, binary, kids)


MUTATIONS = ["ov1", "ovk", "same", "touch", "nest", "out1", "exact", "outk", "neg", "shuffle"]


def _replace_offsets(real, desc, before) -> bool:
    """Assign the offsets that changed in the description to the images of the already built tree (matched by name)."""
    kids = {c.name: c for c in real.sub_images}
    if len(kids) != len(real.sub_images) or set(kids) != {c["name"] for c in desc["children"]}:
        return False
    for c in desc["children"]:
        if before.get(id(c)) != c["offset"]:
            kids[c["name"]].offset = c["offset"]
        if not _replace_offsets(kids[c["name"]], c, before):
            return False
    return True


def mutate(rng, desc, offsets_only=False):
    """Change the layout at one random inner node; the reference decides what the result is.  Returns the mutation name."""
    inner = [m for _, m in R.walk(desc) if m["children"]]
    if not inner:
        return "none"
    m = core.pick(rng, inner)
    kids = sorted(m["children"], key=lambda c: c["offset"])
    mut = core.pick(rng, [x for x in MUTATIONS if x not in ("out1", "exact", "outk")] if offsets_only else MUTATIONS)
    j = rng.randrange(len(kids) - 1) if len(kids) > 1 else None
    if mut in ("ov1", "ovk", "same", "touch", "nest") and j is None:
        mut = "neg" if offsets_only else core.pick(rng, ["out1", "exact", "outk", "neg"])
    if mut == "ov1":
        kids[j + 1]["offset"] = kids[j]["offset"] + R.length(kids[j]) - 1
    elif mut == "ovk":
        kids[j + 1]["offset"] = kids[j]["offset"] + rng.randrange(0, max(1, R.length(kids[j])))
    elif mut == "same":
        kids[j + 1]["offset"] = kids[j]["offset"]
    elif mut == "touch":
        kids[j + 1]["offset"] = kids[j]["offset"] + R.length(kids[j])
    elif mut == "nest":
        a, b = kids[j], kids[j + 1]
        if R.length(a) < R.length(b):
            a, b = b, a
        b["offset"] = a["offset"] + min(1, max(0, R.length(a) - R.length(b)))
    elif mut in ("out1", "exact", "outk"):
        need = max([c["offset"] + R.length(c) for c in kids] + [len(m["binary"]) if m["binary"] else 0])
        if mut == "out1":
            m["size"] = max(1, need - 1)
        elif mut == "exact":
            m["size"] = need
        else:
            m["size"] = max(1, need - core.pick(rng, [2, 3, 4, 16, 17, 512]))
        if rng.random() < 0.6:
            m["alignment"] = 1
        if m["binary"] and len(m["binary"]) > R.align_up(m["size"], m["alignment"]):
            m["binary"] = m["binary"][: m["size"]]
    elif mut == "neg":
        kids[0]["offset"] = -core.pick(rng, [1, 1, 2, 4, 16])
    elif mut == "shuffle":
        core.pick(rng, kids)["offset"] = core.pick(rng, OFFS + [3, 5, 17, 100, 1000])
    return mut


def gen_degenerate(rng, desc):
    """Push the tree outside the property's domain (exercised, not judged)."""
    nodes = [m for _, m in R.walk(desc)]
    m = core.pick(rng, nodes)
    if rng.random() < 0.5 and not m["children"]:
        m["binary"], m["size"] = None, 0  # zero-length image
    else:
        m["binary"] = core.rand_bytes(rng, 24)
        m["size"] = 8  # own binary longer than the explicit size
        m["alignment"] = 1


# ==========================================================================================
# workloads
# ==========================================================================================
def run_case(case, ctx):
    kind = case["kind"]
    fn = {"witness": run_witness, "trees": run_trees, "formats": run_formats, "foreign": run_foreign,
          "api": run_api, "cli": run_cli, "harvest": run_harvest}.get(kind)
    if fn is None:
        raise core.Inconclusive(f"unknown case kind {kind}")
    os.makedirs(ctx.workdir, exist_ok=True)
    return fn(case, ctx)


def finish(ctx):
    ctx.note("mbin_full_oracle_distinct_shapes_in_one_worker", len(_MON["shapes"]))


def run_trees(case, ctx):
    rng = ctx.rng
    for _ in range(case["n"]):
        depth = core.pick(rng, [1, 2, 2, 3, 3, 4, 4])
        desc = gen_tree(rng, depth, big=depth <= 3 or rng.random() < 0.5)
        mode = rng.random()
        mut = "none"
        real = None
        if mode < 0.55 and depth > 1:
            if rng.random() < 0.3:
                # the tree is built first and an image is RE-PLACED afterwards (its offset attribute is assigned): the
                # order of the child list no longer follows the offsets; validation and export go by the offsets
                real = build(desc, rng)
                before = {id(m): m["offset"] for _, m in R.walk(desc)}
                mut = mutate(rng, desc, offsets_only=True)
                if not _replace_offsets(real, desc, before):
                    real = None
                else:
                    mut = "late-" + mut
                    ctx.count("images_replaced_after_building")
            else:
                mut = mutate(rng, desc)
                if rng.random() < 0.2:
                    mut += "+" + mutate(rng, desc)
        elif mode > 0.96:
            gen_degenerate(rng, desc)
        if real is None:
            real = build(desc, rng)
        judge_tree(ctx, desc, real, "tree", sig_extra=[mut.split("+")[0]])


# ------------------------------------------------------------------------------------------
# file formats
# ------------------------------------------------------------------------------------------
def compare_sparse(r, segs):
    """Reference map against decoded (address, bytes) segments.
    -> dict(missing=[idx], changed=[idx], outside=[(addr, len)])"""
    n, base = len(r), r.base
    got = bytearray(n)
    cov = bytearray(n)
    outside = []
    for a, d in segs:
        lo, hi = a - base, a - base + len(d)
        if lo < 0 or hi > n:
            outside.append((a, len(d)))
            clo, chi = max(lo, 0), min(hi, n)
            if clo >= chi:
                continue
            d = d[clo - lo:chi - lo]
            lo, hi = clo, chi
        got[lo:hi] = d
        cov[lo:hi] = b"\x01" * (hi - lo)
    origin, known, data = r.origin, r.known, r.data
    if not outside and bytes(got) == bytes(data) and 0 not in cov:
        return {"missing": [], "changed": [], "outside": []}
    missing = [i for i in range(n) if origin[i] != R.ORIGIN_TOP_NOFILL and not cov[i]]
    changed = [i for i in range(n) if cov[i] and known[i] and got[i] != data[i]]
    return {"missing": missing, "changed": changed, "outside": outside}


def classify_sparse(fmt, r, cmp_res, stage):
    """Mechanism keys for one comparison (stage = 'save' | 'load')."""
    keys = []
    bad = cmp_res["missing"] + cmp_res["changed"]
    if bad:
        if all(r.origin[i] == R.ORIGIN_NESTED_ZERO for i in bad):
            keys.append(KEY_NESTED_NOPATTERN)
        else:
            if cmp_res["missing"]:
                keys.append(f"{fmt}-{stage}-drops-defined-bytes")
            if cmp_res["changed"]:
                keys.append(f"{fmt}-{stage}-changes-bytes")
    if cmp_res["outside"]:
        keys.append(f"{fmt}-{stage}-bytes-outside-the-image-addresses")
    return keys


def real_segments(loaded):
    """(absolute address, bytes) of the sub-images of a loaded image (harness view of the load result)."""
    return [(c.absolute_address, bytes(c.binary or b"")) for c in loaded.sub_images]


def merged(segs):
    mem = {}
    for a, d in segs:
        for i, b in enumerate(d):
            mem[a + i] = b
    return R.segments_of(mem)


def roundtrip(ctx, desc, r, real, fmt, start, path, tag="formats"):
    """save_binary_image + independent decode + load_binary_image for one format.  Returns set of keys raised."""
    from spsdk.exceptions import SPSDKError
    from spsdk.utils.images import BinaryImage

    fl = fmt.lower()
    raised = {}

    def viol(key, **detail):
        if key not in raised:
            raised[key] = detail

    real.save_binary_image(path, fmt)
    ctx.count("format_roundtrips")
    if fmt == "BIN":
        with open(path, "rb") as f:
            data = f.read()
        if len(data) != len(r) or r.matches(data) is not None:
            viol("bin-file-differs-from-export", file_len=len(data), expected_len=len(r))
        if R.looks_like_text_format(data):
            ctx.count("bin_ambiguous_payload_not_loaded")
        else:
            loaded = BinaryImage.load_binary_image(path, offset=r.base)
            if loaded.absolute_address != r.base:
                viol("bin-load-address-changed", got=loaded.absolute_address, want=r.base)
            if loaded.export() != data:
                viol("bin-load-bytes-changed", got_len=len(loaded), want_len=len(data))
    else:
        with open(path, encoding="ascii") as f:
            text = f.read()
        ndef = sum(1 for o in r.origin if o != R.ORIGIN_TOP_NOFILL)
        try:
            mem, fstart, info = (R.parse_ihex if fmt == "HEX" else R.parse_srec)(text)
        except R.FormatError as e:
            mem = None
            if ndef:
                viol(f"{fl}-file-malformed", error=str(e))
        if mem is not None:
            segs = R.segments_of(mem)
            res = compare_sparse(r, segs)
            for key in classify_sparse(fl, r, res, "save"):
                i = (res["missing"] + res["changed"] or [0])[0]
                viol(key, first_index=i, address=hex(r.base + i), origin=R.ORIGIN_NAMES[r.origin[i]],
                     n_missing=len(res["missing"]), n_changed=len(res["changed"]), outside=res["outside"][:3],
                     want=core.hx(bytes(r.data[i:i + 8])), file_has=[mem.get(r.base + i + k) for k in range(4)])
            if fstart != start:
                viol(f"{fl}-save-changes-execution-start-address", got=fstart, want=start)
            if not ndef:
                ctx.count("nothing_defined_text_format_not_loaded")
            elif not mem:
                ctx.count("empty_text_file_not_loaded")  # every defined byte is missing: already reported by the save comparison
            else:
                # load law: the loaded tree carries exactly what the file says
                try:
                    loaded = BinaryImage.load_binary_image(path)
                except SPSDKError as e:
                    loaded = None
                    viol(f"{fl}-load-rejects-own-file", error=core.exc_brief(e))
                if loaded is not None:
                    lsegs = merged(real_segments(loaded))
                    if lsegs != segs:
                        viol(f"{fl}-load-changes-bytes-or-addresses",
                             file_segments=[(hex(a), len(d)) for a, d in segs[:6]],
                             loaded_segments=[(hex(a), len(d)) for a, d in lsegs[:6]])
                    if loaded.absolute_address != segs[0][0]:
                        viol(f"{fl}-load-base-address-changed", got=loaded.absolute_address, want=segs[0][0])
                    if loaded.execution_start_address != fstart:
                        viol(f"{fl}-load-changes-execution-start-address", got=loaded.execution_start_address, want=fstart)
                    # end to end: same bytes at the same addresses as the tree that was saved
                    res2 = compare_sparse(r, lsegs)
                    for key in classify_sparse(fl, r, res2, "roundtrip"):
                        if key != KEY_NESTED_NOPATTERN or key not in raised:
                            i = (res2["missing"] + res2["changed"] or [0])[0]
                            viol(key, first_index=i, address=hex(r.base + i), origin=R.ORIGIN_NAMES[r.origin[i]])
    for key, detail in raised.items():
        ctx.violation(key, dict(detail, format=fmt, base=hex(r.base), tree=summary(desc, 16), replay_tree=desc_to_json(desc)
                                if len(r) <= 4096 else None))
    if not raised:
        ctx.ok([tag, fmt, "top", _pat_class(desc["pattern"]), "depth", R.depth(desc), _base_class(r.base, len(r)),
                "start", _start_class(start), "rand" if R.has_rand(desc) else "-"],
               sample={"format": fmt, "base": hex(r.base), "len": len(r), "start": start, "tree": summary(desc, 6)})
    return set(raised)


def _base_class(base, ln):
    if base == 0:
        return "0"
    if base + ln == 1 << 32:
        return "ends-at-2^32"
    if base >> 16 != (base + ln - 1) >> 16:
        return "crosses-64K"
    return "<64K" if base < 0x10000 else ("<16M" if base < 0x1000000 else "32bit")


def _start_class(s):
    return "none" if s is None else ("0" if s == 0 else ("max" if s == 0xFFFFFFFF else "other"))


def pick_base(rng, ln):
    top = (1 << 32) - ln
    b = core.pick(rng, [0, 0, 0x100, 0xFFF8, 0x08000000, 0x1FFF0000, top, top, rng.getrandbits(32), rng.getrandbits(24),
                        0x10000 - max(1, ln // 2), 0xFFFFFF])
    return max(0, min(b, top))


def run_formats(case, ctx):
    rng = ctx.rng
    for t in range(case["n"]):
        depth = core.pick(rng, [1, 2, 2, 3, 3, 4])
        desc = gen_tree(rng, depth, big=rng.random() < 0.3, allow_rand=rng.random() < 0.15)
        if desc["pattern"] is None and rng.random() < 0.7:
            desc["pattern"] = gen_pattern(rng, allow_none=False, allow_rand=False)
        if R.undefined_reasons(desc):
            continue
        ln = R.length(desc)
        desc["offset"] = pick_base(rng, ln)
        start = core.pick(rng, [None, None, 0, 0x1234, 0xFFFFFFFF, desc["offset"], rng.getrandbits(32)])
        real = build(desc, rng)
        real.execution_start_address = start
        if judge_tree(ctx, desc, real, "formats-tree") is None:
            continue
        r = R.render(desc)
        for fmt in ("BIN", "HEX", "S19"):
            roundtrip(ctx, desc, r, real, fmt, start, os.path.join(ctx.workdir, f"f{t}.{fmt.lower()}"))
        for fmt in ("BIN", "HEX", "S19"):
            _rm(os.path.join(ctx.workdir, f"f{t}.{fmt.lower()}"))


def _rm(p):
    try:
        os.remove(p)
    except OSError:
        pass


def run_witness(case, ctx):
    """Directed witnesses: the smallest tree with a nested image without pattern, and the realistic route to it
    (a sparse HEX file loaded and placed as a sub-image into a patterned parent)."""
    from spsdk.utils.images import BinaryImage
    from spsdk.utils.misc import BinaryPattern

    desc = R.node("parent", 0x100, 16, 1, "ones", None, [R.node("child", 4, 8, 1, None, b"\x01\x02")])
    real = build(desc)
    if judge_tree(ctx, desc, real, "witness") is not None:
        r = R.render(desc)
        for fmt in ("BIN", "HEX", "S19"):
            roundtrip(ctx, desc, r, real, fmt, None, os.path.join(ctx.workdir, f"w.{fmt.lower()}"), tag="witness")
    # realistic route
    p = os.path.join(ctx.workdir, "sparse.hex")
    with open(p, "w", encoding="ascii") as f:
        f.write(R.write_ihex([(0x10, b"\xA1\xA2\xA3\xA4"), (0x20, b"\xB1\xB2")]))
    loaded = BinaryImage.load_binary_image(p)
    parent = BinaryImage("flash", size=0x40, offset=0x08000000, pattern=BinaryPattern("ones"))
    parent.add_image(loaded)
    desc2 = describe(parent)
    if judge_tree(ctx, desc2, parent, "witness-merge") is not None:
        r = R.render(desc2)
        for fmt in ("BIN", "HEX", "S19"):
            roundtrip(ctx, desc2, r, parent, fmt, None, os.path.join(ctx.workdir, f"w2.{fmt.lower()}"), tag="witness-merge")


# ------------------------------------------------------------------------------------------
# files that SPSDK did not write
# ------------------------------------------------------------------------------------------
def gen_segments(rng):
    nseg = core.pick(rng, [1, 1, 2, 2, 3, 4, 5])
    sizes = [1, 2, 3, 4, 15, 16, 17, 33, 255, 256, 257, 512, 1000]
    total = 0
    parts = []
    for _ in range(nseg):
        gap = core.pick(rng, [0, 1, 1, 2, 15, 16, 0x100, 0x1000, 0xFFF0, 0x10000, 0x10010])
        ln = core.pick(rng, sizes)
        parts.append((gap, core.rand_bytes(rng, ln)))
        total += gap + ln
    top = (1 << 32) - total
    base = core.pick(rng, [0, 0, 0x10, 0x100, 0xFF00, 0xFFF0, 0x10000, 0x08000000, 0x1FFF8000, top, top, rng.getrandbits(32),
                           rng.getrandbits(24), rng.getrandbits(16)])
    base = max(0, min(base, top))
    segs = []
    a = base
    for k, (gap, d) in enumerate(parts):
        a += gap if k else 0
        segs.append((a, d))
        a += len(d)
    return segs


def run_foreign(case, ctx):
    """Sparse multi-segment HEX / S-record files written by the reference writer, loaded by SPSDK, then converted."""
    from spsdk.utils.images import BinaryImage

    rng = ctx.rng
    for t in range(case["n"]):
        segs = gen_segments(rng)
        want = merged(segs)
        end = segs[-1][0] + len(segs[-1][1])
        start = core.pick(rng, [None, None, 0, 0x1234, 0xFFFFFFFF, segs[0][0], rng.getrandbits(32)])
        fmt = core.pick(rng, ["HEX", "S19"])
        if fmt == "HEX":
            rec = core.pick(rng, [1, 4, 16, 16, 32, 255])
            text = R.write_ihex(segs, start, rec, start_first=rng.random() < 0.3)
            variant = f"rec{rec}"
        else:
            widths = [32] if end > 0x1000000 else ([24, 32] if end > 0x10000 else [16, 24, 32])
            width = core.pick(rng, widths)
            if start is not None and start >= 1 << width:
                start = start & ((1 << width) - 1)
            rec = core.pick(rng, [1, 4, 16, 16, 32, 64])
            text = R.write_srec(segs, start, rec, width, header=core.pick(rng, [b"HDR", None, b"some header text"]))
            variant = f"S{width}-rec{rec}"
        p = os.path.join(ctx.workdir, f"g{t}.{fmt.lower()}")
        with open(p, "w", encoding="ascii") as f:
            f.write(text)
        loaded = BinaryImage.load_binary_image(p)
        ctx.count("foreign_loads")
        bad = False
        got = merged(real_segments(loaded))
        if got != want:
            bad = True
            ctx.violation(f"{fmt.lower()}-load-changes-bytes-or-addresses",
                          {"variant": variant, "file_segments": [(hex(a), len(d)) for a, d in want[:6]],
                           "loaded_segments": [(hex(a), len(d)) for a, d in got[:6]], "file": text[:600]})
        if loaded.absolute_address != want[0][0]:
            bad = True
            ctx.violation(f"{fmt.lower()}-load-base-address-changed", {"got": loaded.absolute_address, "want": want[0][0], "variant": variant})
        if loaded.execution_start_address != start:
            bad = True
            ctx.violation(f"{fmt.lower()}-load-changes-execution-start-address",
                          {"got": loaded.execution_start_address, "want": start, "variant": variant, "file_tail": text[-200:]})
        # the loaded tree through the tree oracle (zero filled gaps, children at their addresses)
        desc = describe(loaded)
        blob = judge_tree(ctx, desc, loaded, "foreign-tree")
        if blob is None or bad:
            continue
        r = R.render(desc)
        # convert: save the loaded image in every format, decode independently
        for out_fmt in ("BIN", "HEX", "S19"):
            roundtrip(ctx, desc, r, loaded, out_fmt, start, os.path.join(ctx.workdir, f"g{t}.out"), tag=f"foreign-{fmt}-{variant}")
        _rm(os.path.join(ctx.workdir, f"g{t}.out"))
        _rm(p)
        ctx.ok(["foreign-load", fmt, variant, len(segs), _base_class(want[0][0], end - want[0][0]), _start_class(start)],
               sample={"format": fmt, "variant": variant, "segments": [(hex(a), len(d)) for a, d in segs], "start": start})


# ------------------------------------------------------------------------------------------
# join_images / append_image / update_offsets
# ------------------------------------------------------------------------------------------
def run_api(case, ctx):
    rng = ctx.rng
    for _ in range(case["n"]):
        law = core.pick(rng, ["join", "append", "append", "update_offsets", "update_offsets"])
        depth = core.pick(rng, [2, 2, 3, 4])
        desc = gen_tree(rng, depth, big=rng.random() < 0.4, allow_rand=law != "join")
        if R.undefined_reasons(desc):
            continue
        if law == "join":
            real = build(desc, rng)
            before = judge_tree(ctx, desc, real, "api-join-before")
            if before is None:
                continue
            real.join_images()
            ctx.count("api_laws")
            after = real.export()
            if real.sub_images or real.binary != before or after != before or len(real) != len(before):
                ctx.violation("join-images-changes-the-image",
                              {"sub_images_left": len(real.sub_images), "len_before": len(before), "len_after": len(real),
                               "export_equal": after == before, "tree": summary(desc)})
            else:
                ctx.ok(["api", "join", "depth", depth, _pat_class(desc["pattern"]), "explicit" if desc["size"] else "derived"])
        elif law == "append":
            real = build(desc, rng)
            child = gen_tree(rng, core.pick(rng, [1, 1, 2]), big=False, name="appended")
            child["offset"] = core.pick(rng, [0, 7, 1000])  # must be overwritten by append_image
            rchild = build(child, rng)
            want_off = R.length(desc)
            real.append_image(rchild)
            ctx.count("api_laws")
            if rchild.offset != want_off or rchild.parent is not real or rchild not in real.sub_images:
                ctx.violation("append-image-not-at-parent-length",
                              {"child_offset": rchild.offset, "parent_length_before": want_off,
                               "parent_alignment": desc["alignment"], "parent_size": desc["size"], "tree": summary(desc)})
                continue
            new = dict(desc, children=list(desc["children"]) + [dict(child, offset=want_off)])
            judge_tree(ctx, new, real, "api-append", sig_extra=["al", desc["alignment"]])
        else:
            # update_offsets: children keep their absolute addresses, the smallest offset moves into the parent
            shift = core.pick(rng, [0, 1, 4, 16, 0x100, 0x08000000 if not desc["size"] else 3, -1, -16])
            if shift < 0 and desc["size"]:
                shift = 5
            for c in desc["children"]:
                c["offset"] += shift
            if desc["binary"] is not None:
                desc["binary"] = None  # own binary is not moved by update_offsets; keep the judged class clear of it
            if desc["size"]:
                desc["size"] += max(shift, 0)
            desc["offset"] = core.pick(rng, [0, 0x100, 0x20000000, 16])
            if R.undefined_reasons(desc):
                continue  # e.g. every child left of 0: a zero-length parent (its truthiness decides absolute_address)
            if shift > 0x10000:
                # a 128 MiB gap would be exported; judge addresses only
                real = build(desc, rng)
                before = [(c.name, c.absolute_address) for c in real.sub_images]
                real.update_offsets()
                ctx.count("api_laws")
                after = [(c.name, c.absolute_address) for c in real.sub_images]
                want = R.offsets_updated(desc)
                if before != after or real.offset != want["offset"]:
                    ctx.violation("update-offsets-moves-absolute-addresses",
                                  {"before": before[:4], "after": after[:4], "parent_offset": real.offset, "want_parent_offset": want["offset"]})
                    continue
                judge_tree(ctx, want, real, "api-update-offsets-far")
                continue
            real = build(desc, rng)
            before = sorted((c.name, c.absolute_address) for c in real.sub_images)
            real.update_offsets()
            ctx.count("api_laws")
            after = sorted((c.name, c.absolute_address) for c in real.sub_images)
            want = R.offsets_updated(desc)
            got_offs = sorted((c.name, c.offset) for c in real.sub_images)
            want_offs = sorted((c["name"], c["offset"]) for c in want["children"])
            if before != after or real.offset != want["offset"] or got_offs != want_offs:
                ctx.violation("update-offsets-moves-absolute-addresses",
                              {"before": before[:4], "after": after[:4], "parent_offset": real.offset,
                               "want_parent_offset": want["offset"], "child_offsets": got_offs[:4], "want_child_offsets": want_offs[:4]})
                continue
            judge_tree(ctx, want, real, "api-update-offsets", sig_extra=["shift", shift])


# ------------------------------------------------------------------------------------------
# CLI: nxpimage utils binary-image create | merge | convert
# ------------------------------------------------------------------------------------------
def _cli(args):
    from click.testing import CliRunner

    from spsdk.apps import nxpimage

    res = CliRunner().invoke(nxpimage.main, ["utils", "binary-image"] + [str(a) for a in args])
    exc = res.exception
    crashed = exc is not None and not isinstance(exc, SystemExit) and not core.is_refusal(exc)
    return res.exit_code, (core.exc_brief(exc) if exc is not None else ""), crashed


def _num(rng, v):
    # numbers are given as numbers: load_from_config does not convert string forms ("0x10") although the schema
    # admits them (TypeError) - a configuration-parsing matter outside this property, reported separately
    return v


def run_cli(case, ctx):
    rng = ctx.rng
    wd = ctx.workdir
    for t in range(case["n"]):
        cmd = core.pick(rng, ["create", "merge", "merge", "merge", "convert", "convert"])
        out = os.path.join(wd, f"cli{t}.out")
        _rm(out)
        if cmd == "create":
            size = core.pick(rng, [1, 2, 3, 16, 255, 256, 1000, 4096, 65537])
            pat = gen_pattern(rng, allow_none=False)
            code, err, crashed = _cli(["create", "-s", core.pick(rng, [str(size), hex(size)]), "-p", pattern_to_str(pat), "-o", out])
            ctx.count("cli_runs")
            if code != 0 or not os.path.exists(out):
                ctx.violation("cli-create-fails", {"size": size, "pattern": pattern_to_str(pat), "exit_code": code, "error": err})
                continue
            with open(out, "rb") as f:
                data = f.read()
            r = R.render(R.node("c", 0, size, 1, pat))
            if len(data) != size or r.matches(data) is not None:
                ctx.violation("cli-create-wrong-content", {"size": size, "pattern": pattern_to_str(pat), "file_len": len(data), "head": core.hx(data[:16])})
            else:
                ctx.ok(["cli", "create", _pat_class(pat), "size", size])
        elif cmd == "merge":
            _cli_merge(ctx, rng, wd, t, out)
        else:
            _cli_convert(ctx, rng, wd, t, out)
        _rm(out)


def _cli_merge(ctx, rng, wd, t, out):
    top_pat = gen_pattern(rng, allow_none=False, allow_rand=rng.random() < 0.1)
    al = core.pick(rng, [None, None, 1, 4, 16])
    cfg = {"name": "merged", "pattern": pattern_to_str(top_pat), "regions": []}
    if al is not None:
        cfg["alignment"] = _num(rng, al)
    tree = R.node("merged", 0, 0, al or 1, top_pat)
    cursor = core.pick(rng, [0, 0, 0, 4, 16, 0x100])
    block_seen = False
    kinds = []
    hostile = rng.random() < 0.25
    use_size = rng.random() < 0.4  # with an overall size every offset is explicit ("after the previous one" = after the size)
    for k in range(core.pick(rng, [1, 2, 2, 3, 4])):
        kind = core.pick(rng, ["block", "bin", "bin", "hex", "s19"])
        kinds.append(kind)
        explicit = use_size or rng.random() < 0.7
        off = cursor + core.pick(rng, [0, 0, 1, 4, 16, 0x100])
        if hostile and k and rng.random() < 0.5:
            off = max(0, cursor - core.pick(rng, [1, 2, 16]))  # overlap with the previous region
        if not explicit:
            off = R.length(tree)
        name = f"r{k}"
        if kind == "block":
            bsize = core.pick(rng, [1, 2, 4, 16, 17, 512])
            bpat = gen_pattern(rng, allow_none=False, allow_rand=False)
            reg = {"name": name, "size": _num(rng, bsize), "pattern": pattern_to_str(bpat)}
            if explicit:
                reg["offset"] = _num(rng, off)
            cfg["regions"].append({"binary_block": reg})
            child = R.node(name, off, bsize, 1, bpat)
            block_seen = True
        else:
            fn = f"cli{t}_{k}.{kind}"
            if kind == "bin":
                data = core.rand_bytes(rng, core.pick(rng, [1, 4, 16, 33, 512, 1000]))
                if R.looks_like_text_format(data):
                    data = b"\x00\xff" + data
                with open(os.path.join(wd, fn), "wb") as f:
                    f.write(data)
                segs = [(0, data)]
            else:
                fb = core.pick(rng, [0, 0, 0x40])
                segs = [(fb, core.rand_bytes(rng, core.pick(rng, [2, 16, 33])))]
                for _ in range(core.pick(rng, [0, 1, 2])):
                    a = segs[-1][0] + len(segs[-1][1]) + core.pick(rng, [1, 4, 16, 0x40])
                    segs.append((a, core.rand_bytes(rng, core.pick(rng, [1, 4, 16]))))
                with open(os.path.join(wd, fn), "w", encoding="ascii") as f:
                    f.write(R.write_ihex(segs) if kind == "hex" else R.write_srec(segs))
            reg = {"name": name, "path": fn}
            if explicit:
                reg["offset"] = _num(rng, off)
            cfg["regions"].append({"binary_file": reg})
            lo = segs[0][0]
            # fill between the segments of a sparse file: the top pattern; not judged after a binary_block (see ASSUMPTIONS)
            fill = "rand" if (block_seen and len(segs) > 1) else top_pat
            child = R.node(name, off + lo, 0, 1, fill, None,
                           [R.node(f"s{i}", a - lo, len(d), 1, None, d) for i, (a, d) in enumerate(segs)])
        tree["children"].append(child)
        cursor = max(cursor, child["offset"] + R.length(child))
    if len(cfg["regions"]) > 1 and all("offset" in next(iter(c.values())) for c in cfg["regions"]) and rng.random() < 0.6:
        # every offset is explicit: the ORDER of the entries means nothing (a region configured at 0 may stand last)
        rng.shuffle(cfg["regions"])
        ctx.count("merge_regions_listed_in_another_order")
        if "block" in kinds:
            for ch in tree["children"]:
                if len(ch["children"]) > 1:
                    ch["pattern"] = "rand"  # fill inside a sparse file that may now follow a binary_block: not judged
    if use_size:
        need = R.length(tree)
        size = need + core.pick(rng, [0, 0, 1, 16, 0x100]) if not hostile else max(1, need - core.pick(rng, [0, 1, 16]))
        cfg["size"] = _num(rng, size)
        tree["size"] = size
    adjust = rng.random() < 0.3
    cfgp = os.path.join(wd, f"cli{t}.json")
    with open(cfgp, "w", encoding="utf-8") as f:
        json.dump(cfg, f)
    args = ["merge", "-c", cfgp, "-o", out] + (["-a"] if adjust else [])
    code, err, crashed = _cli(args)
    ctx.count("cli_runs")
    want = R.offsets_updated(tree) if adjust else tree
    und = R.undefined_reasons(want)
    detail = {"config": cfg, "adjust_offsets": adjust, "exit_code": code, "error": err[:300]}
    for c in cfg["regions"]:
        fn = c.get("binary_file", {}).get("path")
        if fn:
            _rm(os.path.join(wd, fn))
    _rm(cfgp)
    if und:
        ctx.ok(["cli", "merge", "undefined"], nontrivial=False)
        return
    probs = R.layout_problems(want)
    sig = ["cli", "merge", "+".join(sorted(set(kinds))), "adjust" if adjust else "-", "size" if "size" in cfg else "derived",
           validity_class(probs)]
    if probs:
        if code == 0:
            ctx.violation("cli-merge-" + _accept_key(probs), dict(detail, problems=probs[:3]))
        else:
            ctx.ok(sig)
        return
    if code != 0 or not os.path.exists(out):
        ctx.violation("cli-merge-fails-on-valid-layout" if not crashed else "cli-merge-crashes", detail)
        return
    with open(out, "rb") as f:
        data = f.read()
    r = R.render(want)
    if len(data) != len(r):
        ctx.violation("cli-merge-output-length", dict(detail, file_len=len(data), expected=len(r)))
        return
    i = r.matches(data)
    if i is not None:
        ctx.violation("cli-merge-" + _export_mismatch_key(r, i),
                      dict(detail, index=i, got=core.hx(data[max(0, i - 4):i + 8]), want=core.hx(bytes(r.data[max(0, i - 4):i + 8]))))
        return
    ctx.ok(sig, sample={"config": cfg, "adjust": adjust, "out_len": len(data)})


def _cli_convert(ctx, rng, wd, t, out):
    src = core.pick(rng, ["BIN", "HEX", "S19"])
    dst = core.pick(rng, ["BIN", "HEX", "S19"])
    inp = os.path.join(wd, f"cli{t}.in")
    start = None
    if src == "BIN":
        data = core.rand_bytes(rng, core.pick(rng, [1, 4, 16, 33, 512, 1000, 70000]))
        if R.looks_like_text_format(data):
            data = b"\x00\xff" + data
        with open(inp, "wb") as f:
            f.write(data)
        segs = [(0, data)]
    else:
        segs = gen_segments(rng)
        start = core.pick(rng, [None, 0, 0x1234, 0xFFFFFFFF, rng.getrandbits(32)])
        with open(inp, "w", encoding="ascii") as f:
            f.write(R.write_ihex(segs, start) if src == "HEX" else R.write_srec(segs, start))
    want = merged(segs)
    code, err, crashed = _cli(["convert", "-i", inp, "-f", core.pick(rng, [dst, dst.lower()]), "-o", out])
    ctx.count("cli_runs")
    detail = {"from": src, "to": dst, "segments": [(hex(a), len(d)) for a, d in want[:6]], "start": start, "exit_code": code, "error": err[:300]}
    _rm(inp)
    if code != 0 or not os.path.exists(out):
        ctx.violation("cli-convert-fails" if not crashed else "cli-convert-crashes", detail)
        return
    if dst == "BIN":
        with open(out, "rb") as f:
            data = f.read()
        lo = want[0][0]
        exp = bytearray(want[-1][0] + len(want[-1][1]) - lo)
        for a, d in want:
            exp[a - lo:a - lo + len(d)] = d
        if data != bytes(exp):
            ctx.violation("cli-convert-to-bin-changes-bytes", dict(detail, file_len=len(data), expected_len=len(exp)))
            return
    else:
        with open(out, encoding="ascii") as f:
            text = f.read()
        try:
            mem, fstart, _ = (R.parse_ihex if dst == "HEX" else R.parse_srec)(text)
        except R.FormatError as e:
            ctx.violation(f"cli-convert-{dst.lower()}-file-malformed", dict(detail, format_error=str(e)))
            return
        got = R.segments_of(mem)
        if got != want:
            ctx.violation(f"cli-convert-to-{dst.lower()}-changes-bytes-or-addresses",
                          dict(detail, got_segments=[(hex(a), len(d)) for a, d in got[:6]]))
            return
        if fstart != start:
            ctx.violation(f"cli-convert-to-{dst.lower()}-changes-execution-start-address", dict(detail, got_start=fstart))
            return
    ctx.ok(["cli", "convert", src, dst, len(want), _start_class(start), _base_class(want[0][0], 1)],
           sample={"from": src, "to": dst, "segments": detail["segments"], "start": start})


# ------------------------------------------------------------------------------------------
# harvest: trees built by SPSDK's own producers
# ------------------------------------------------------------------------------------------
def judge_real_tree(ctx, img, tag, sig_extra=()):
    """A tree that SPSDK built: description read off the object, zero-length sub-images dropped when they own nothing."""
    ctx.count("harvest_trees")
    desc, why = _judged_view(img, True)
    if desc is None:
        try:
            img.export()  # the M-BIN length post-condition still applies
        except Exception:  # pylint: disable=broad-except
            pass
        ctx.count("harvest_not_judged")
        ctx.ok([tag, "not-judged", why], nontrivial=False)
        return None
    pruned = sum(1 for _ in R.walk(desc)) != _count_nodes(img)
    probs = R.layout_problems(desc)
    if probs:
        ctx.note("harvest_invalid_layout_built_by_spsdk", {"source": tag, "problems": probs[:2], "tree": summary(desc, 8)})
    return judge_tree(ctx, desc, img, tag, sig_extra=list(sig_extra) + ["nodes", min(_count_nodes(img), 500) // 25],
                      judge_validate=not pruned)


def _count_nodes(img):
    return 1 + sum(_count_nodes(c) for c in img.sub_images)


def run_harvest(case, ctx):
    src = case["src"]
    fn = {"registers": harvest_registers, "mbi": harvest_mbi, "bootable": harvest_bootable,
          "repo_files": harvest_repo_files, "repo_tests": harvest_repo_tests}[src]
    return fn(case, ctx)


def harvest_registers(case, ctx):
    from spsdk.exceptions import SPSDKError
    from spsdk.pfr.pfr import CFPA, CMPA
    from spsdk.utils.database import DatabaseManager, get_families
    from spsdk.utils.misc import BinaryPattern

    rng = ctx.rng
    fams = sorted(get_families(DatabaseManager.PFR))
    rng.shuffle(fams)
    for fam in fams[:6]:
        for cls in (CMPA, CFPA):
            try:
                area = cls(fam)
            except SPSDKError as e:
                ctx.refused(["harvest", "registers", cls.__name__], core.exc_brief(e))
                continue
            regs = area.registers
            for reg in regs.get_registers():
                try:
                    reg.set_value(rng.getrandbits(reg.width), raw=True)
                except SPSDKError:
                    pass
            natural = len(regs.image_info())
            for size, pat in [(0, None), (natural, "ones"), (natural + core.pick(rng, [1, 16, 512]), pattern_to_str(gen_pattern(rng, False, False))),
                              (0, "inc")]:
                img = regs.image_info(size, BinaryPattern(pat)) if pat else regs.image_info(size)
                judge_real_tree(ctx, img, "harvest-registers", [cls.__name__, "size" if size else "derived"])
            # the area's own export goes through the same class (M-BIN observes it)
            try:
                area.export()
            except SPSDKError:
                pass


def harvest_mbi(case, ctx):
    from spsdk.exceptions import SPSDKError
    from spsdk.image.mbi.mbi import get_mbi_class, get_mbi_classes, mbi_get_supported_families

    rng = ctx.rng
    fams = sorted(mbi_get_supported_families())
    rng.shuffle(fams)
    wd = ctx.workdir
    done = 0
    for fam in fams[:14]:
        for name, (cls, target, auth) in sorted(get_mbi_classes(fam).items()):
            if auth not in ("plain", "crc"):
                continue
            app = core.rand_bytes(rng, core.pick(rng, [0x140, 0x141, 0x200, 0x333, 0x1000, 0x2004]))
            appf = os.path.join(wd, "app.bin")
            with open(appf, "wb") as f:
                f.write(app)
            cfg = {"family": fam, "outputImageExecutionTarget": target, "outputImageAuthenticationType": auth,
                   "inputImageFile": appf, "masterBootOutputFile": "out.bin", "outputImageExecutionAddress": 0,
                   "enableHwUserModeKeys": False, "enableTrustZone": rng.random() < 0.3}
            try:
                mcls = get_mbi_class(cfg)
                mbi = mcls()
                mbi.load_from_config(cfg, search_paths=[wd])
                img = mbi.export_image()
            except SPSDKError as e:
                ctx.refused(["harvest", "mbi", target, auth], core.exc_brief(e))
                continue
            except (KeyError, AssertionError) as e:  # configuration key this sketch of a config lacks: not a C16 matter
                ctx.refused(["harvest", "mbi", target, auth, "config"], core.exc_brief(e))
                continue
            done += 1
            judge_real_tree(ctx, img, "harvest-mbi", [target, auth])
    if not done:
        raise core.Inconclusive("no MBI image could be built")


def harvest_bootable(case, ctx):
    from spsdk.exceptions import SPSDKError
    from spsdk.image.bootable_image.bimg import BootableImage

    rng = ctx.rng
    fams = sorted(BootableImage.get_supported_families())
    rng.shuffle(fams)
    done = 0
    for fam in fams[:12]:
        for mt in BootableImage.get_supported_memory_types(fam):
            try:
                bimg = BootableImage(fam, mt)
                segs = bimg._segments
                for k, seg in enumerate(segs):
                    last = k == len(segs) - 1
                    if last or rng.random() < 0.6:
                        n = seg.SIZE if seg.SIZE > 0 else core.pick(rng, [0x40, 0x333, 0x1000, 0x2001])
                        blob = core.rand_bytes(rng, n)
                        seg.raw_block = b"\x5a" + blob[1:]  # never an all-zero / all-ones 'padding' block
                if rng.random() < 0.3:
                    starts = sorted({s.full_image_offset for s in segs if s.full_image_offset > 0})
                    if starts:
                        bimg.init_offset = core.pick(rng, starts)
                img = bimg.image_info()
            except SPSDKError as e:
                ctx.refused(["harvest", "bootable", mt.label], core.exc_brief(e))
                continue
            done += 1
            blob = judge_real_tree(ctx, img, "harvest-bootable", [mt.label, len(img.sub_images)])
            if blob is not None and len(blob) != len(bimg):
                ctx.note("bootable_len_vs_tree_len", {"family": fam, "mem_type": mt.label, "len(bimg)": len(bimg), "export": len(blob)})
    if not done:
        raise core.Inconclusive("no bootable image could be built")


def harvest_repo_files(case, ctx):
    """Third-party / golden binaries shipped with the repository's tests, parsed by SPSDK and re-composed."""
    import glob

    from spsdk.exceptions import SPSDKError
    from spsdk.image.bootable_image.bimg import BootableImage
    from spsdk.image.hab.hab_container import HabContainer
    from spsdk.image.mem_type import MemoryType

    root = os.path.join(core.repo_root(), "tests", "nxpimage", "data")
    if not os.path.isdir(root):
        ctx.note("harvest_repo_files", "tests/nxpimage/data not present in the tree under test")
        ctx.ok(["harvest-repo-files", "absent"], nontrivial=False)
        return
    done = 0
    if case["k"] == 0:
        for p in sorted(glob.glob(os.path.join(root, "bootable_image", "*", "*", "**", "merged_image.bin"), recursive=True)):
            rel = os.path.relpath(p, os.path.join(root, "bootable_image")).split(os.sep)
            fam, mem = rel[0], rel[1]
            with open(p, "rb") as f:
                data = f.read()
            try:
                bimg = BootableImage.parse(data, family=fam, mem_type=MemoryType.from_label(mem))
                img = bimg.image_info()
            except SPSDKError as e:
                ctx.refused(["harvest", "repo-bootable", fam, mem], core.exc_brief(e))
                continue
            done += 1
            judge_real_tree(ctx, img, "harvest-repo-bootable", [fam, mem])
    else:
        for p in sorted(glob.glob(os.path.join(root, "hab", "export", "*", "output.bin"))):
            with open(p, "rb") as f:
                data = f.read()
            try:
                hab = HabContainer.parse(data)
                imgs = [hab.image_info(padding=False), hab.image_info(padding=True)]
            except (SPSDKError, AssertionError) as e:
                ctx.refused(["harvest", "repo-hab"], core.exc_brief(e))
                continue
            for pad, img in enumerate(imgs):
                done += 1
                judge_real_tree(ctx, img, "harvest-repo-hab", [os.path.basename(os.path.dirname(p)), "padding" if pad else "-"])
    if not done:
        raise core.Inconclusive("no repository file could be parsed")


def harvest_repo_tests(case, ctx):
    """Run repository test modules with the M-BIN wrappers installed (this module is the pytest plugin).
    The tests' own verdicts are irrelevant; the wrappers see the real builders with real keys and configurations."""
    import subprocess

    root = core.repo_root()
    mods = case["module"].split()
    if os.environ.get("VERIF_C16_NO_REPO_TESTS"):  # development switch (canary loops); never set by ./check
        ctx.note("repo_tests_skipped_by_env", mods)
        ctx.ok(["harvest-repo-tests", "skipped"], nontrivial=False)
        return
    present = [m for m in mods if os.path.exists(os.path.join(root, m))]
    if not present:
        ctx.note("repo_tests_absent", mods)
        ctx.ok(["harvest-repo-tests", "absent"], nontrivial=False)
        return
    log = os.path.join(ctx.workdir, "pytest_mbin.jsonl")
    _rm(log)
    env = dict(os.environ, VERIF_C16_PYTEST_LOG=log)
    cache = os.environ.get("SPSDK_CACHE_FOLDER")
    if cache and os.path.isdir(cache):
        # private copy of the warmed cache: the test process may be cut off (killed) while it writes there
        import shutil

        private = os.path.join(ctx.workdir, "ptcache")
        shutil.rmtree(private, ignore_errors=True)
        shutil.copytree(cache, private)
        env["SPSDK_CACHE_FOLDER"] = private
    cmd = ["/venv/bin/python", "-m", "pytest", "-q", "--no-header", "-p", "no:cacheprovider", "-p", "no:xdist", "-p", "vf.props.c16",
           "--basetemp", os.path.join(ctx.workdir, "pt"), "-o", "addopts="] + present
    if case.get("select"):
        cmd += ["-k", case["select"]]
    # The repository tests are an *extra* workload: a run that does not finish in time (loaded machine) is cut off and what
    # the wrappers saw until then is used; it never decides the verdict by itself (wall-clock only ever loses coverage).
    budget = REPO_TESTS_TIMEOUT_S[ctx.tier if ctx.tier in REPO_TESTS_TIMEOUT_S else "quick"]
    timed_out = False
    with subprocess.Popen(cmd, cwd=root, env=env, stdout=subprocess.PIPE, stderr=subprocess.STDOUT, text=True) as proc:
        try:
            stdout, _ = proc.communicate(timeout=budget)
        except subprocess.TimeoutExpired:
            timed_out = True
            proc.kill()
            stdout, _ = proc.communicate()
    tail = (stdout or "").strip().splitlines()[-1:] or [""]
    ctx.note("repo_tests_result", {"modules": [os.path.basename(m) for m in present], "rc": proc.returncode,
                                   "pytest": "cut off after %d s" % budget if timed_out else tail[0][:120]})
    if timed_out:
        ctx.count("repo_tests_cut_off")
    counters = None
    nviol = 0
    if os.path.exists(log):
        with open(log, encoding="utf-8") as f:
            for line in f:
                try:
                    ev = json.loads(line)
                except json.JSONDecodeError:
                    continue
                if ev.get("t") == "viol":
                    nviol += 1
                    ctx.violation(ev["mech"], dict(ev.get("detail") or {}, via=os.path.basename(present[0])))
                elif ev.get("t") == "counters":
                    counters = ev["v"]
                elif ev.get("t") == "note":
                    ctx.note("repo_tests:" + ev["k"], ev["v"])
    if counters is None:
        if timed_out:
            ctx.ok(["harvest-repo-tests", "cut-off-before-first-test"], nontrivial=False)
            return
        raise core.Inconclusive(f"pytest plugin wrote no counters for {mods[0]}: {(stdout or '')[-300:]}")
    if counters.get("mbin_wrapper_errors"):
        raise core.Inconclusive(f"M-BIN wrapper raised inside the repository tests {mods[0]} (see observations)")
    for k, v in counters.items():
        if k.startswith("mbin_"):
            ctx.count(k, v)
    full = counters.get("mbin_full_oracle", 0)
    ctx.count("harvest_trees", full)
    if not nviol:
        ctx.ok(["harvest-repo-tests", os.path.basename(present[0])], n=max(1, full),
               sample={"modules": [os.path.basename(m) for m in present], "pytest": tail[0][:120], "mbin": {k: v for k, v in counters.items() if ":" not in k}})


# ------------------------------------------------------------------------------------------
# pytest plugin face of this module (only active with VERIF_C16_PYTEST_LOG set by harvest_repo_tests)
# ------------------------------------------------------------------------------------------
def pytest_configure(config):
    log = os.environ.get("VERIF_C16_PYTEST_LOG")
    if not log or not os.environ.get(core.GUARD):
        return
    core.setup_import_path()
    out = open(log, "w", buffering=1, encoding="utf-8")  # pylint: disable=consider-using-with
    ctx = core.Ctx(ID, os.environ.get("VERIF_TIER", "quick"), int(os.environ.get("VERIF_SEED") or 0), 0, 1, out,
                   os.path.dirname(log))
    install_monitors(ctx)
    _MON["pytest_mode"] = True
    config._vf_c16_ctx = ctx  # pylint: disable=protected-access


def pytest_runtest_setup(item):
    _MON["test"] = item.nodeid[-120:]
    ctx = _MON.get("ctx")
    if ctx is not None:
        ctx._viol_in_case = 0  # pylint: disable=protected-access


def pytest_runtest_teardown(item):  # noqa: ARG001
    ctx = _MON.get("ctx")
    if ctx is not None and _MON.get("pytest_mode"):
        ctx._emit({"t": "counters", "v": ctx.counters})  # pylint: disable=protected-access


def pytest_unconfigure(config):
    ctx = getattr(config, "_vf_c16_ctx", None)
    if ctx is None:
        return
    ctx.note("mbin_full_oracle_shapes(depth,children,pattern,explicit)", [list(x) for x in sorted(_MON["shapes"], key=str)[:12]])
    ctx._emit({"t": "counters", "v": ctx.counters})  # pylint: disable=protected-access
    ctx.flush()
