"""C12 adapters - one small adapter per kind of register-backed configuration area.

The areas do not share one API, so each adapter maps the area's *public* class onto the same
few operations (enumerate / template / schemas / load / export / parse / get_config / size /
registers / dump).  Everything is enumerated from the database under test at run time.

Nothing here judges; the laws are in ``c12.py``.  ``spsdk`` is imported lazily (the import path
is set by the worker before ``run_case`` is called, ``cases()`` runs after ``setup_import_path``
as well).
"""
from __future__ import annotations

import copy
import hashlib
import json
import os
from typing import Any, Iterable, Optional

# ------------------------------------------------------------------------------------------
# database helpers


def revisions(family: str) -> list[str]:
    from spsdk.utils.database import get_device

    return list(get_device(family).revisions.revision_names())


_FILE_HASH: dict[str, str] = {}


def file_hash(path: str) -> str:
    h = _FILE_HASH.get(path)
    if h is None:
        try:
            with open(path, "rb") as f:
                h = hashlib.sha256(f.read()).hexdigest()[:12]
        except OSError:
            h = "missing:" + os.path.basename(path)
        _FILE_HASH[path] = h
    return h


def _jhash(obj: Any) -> str:
    return hashlib.sha256(json.dumps(obj, sort_keys=True, default=str).encode()).hexdigest()[:10]


def _spec_path(family: str, revision: str, feature: str, key) -> str:
    from spsdk.utils.database import get_db

    return get_db(family, revision).get_file_path(feature, key)


def _db_get(family: str, revision: str, feature: str, key, default=None):
    from spsdk.utils.database import get_db

    try:
        return get_db(family, revision).get_value(feature, key, default)
    except Exception:  # pylint: disable=broad-except
        return default


def _fast_yaml(text: str):
    import yaml

    return yaml.load(text, Loader=getattr(yaml, "CSafeLoader", yaml.SafeLoader))


# ------------------------------------------------------------------------------------------
# register helpers shared by the adapters and by the laws


def all_regs(regs) -> list:
    """Every top-level register object (hidden ones included), in specification order."""
    return list(iter(regs))


def dump_regs(regs) -> list:
    """Raw value of every register and sub-register - the state two areas are compared by."""
    out = []
    for r in all_regs(regs):
        out.append((r.name, r.width, r.get_value(raw=True)))
        for s in r.sub_regs:
            out.append((r.name + "/" + s.name, s.width, s.get_value(raw=True)))
    return out


def spec_problems(regs, addressed: bool = True) -> list[str]:
    """Structural defects of a register specification: overlapping byte ranges, duplicate names,
    group registers whose sub-registers do not add up to the declared width.
    ``addressed=False`` for index-addressed maps (fuses) whose byte offsets mean nothing."""
    probs = []
    spans = sorted(((r.offset, r.offset + r.width // 8, r.name) for r in all_regs(regs))) if addressed else []
    for (a0, a1, an), (b0, b1, bn) in zip(spans, spans[1:]):
        if b0 < a1:
            probs.append(f"overlap {an}[{a0:#x}:{a1:#x}] / {bn}[{b0:#x}:{b1:#x}]")
    for r in all_regs(regs):
        if r.has_group_registers():
            cover = sum(s.width for s in r.sub_regs)
            if cover != r.width:
                probs.append(f"group {r.name}: declared {r.width} bits, its {len(r.sub_regs)} sub-registers cover {cover}")
    names = [r.name for r in all_regs(regs)]
    dups = sorted({n for n in names if names.count(n) > 1})
    for n in dups:
        probs.append(f"duplicate name {n!r} x{names.count(n)}")
    return probs


def reg_span(regs) -> int:
    return max((r.offset + r.width // 8 for r in all_regs(regs)), default=0)


# ------------------------------------------------------------------------------------------


class Adapter:
    kind = "?"
    settings_key = "settings"
    has_binary = True
    has_diff = False
    little_endian = True

    # -- enumeration ---------------------------------------------------------------------
    def enumerate(self) -> Iterable[dict]:
        raise NotImplementedError

    def spec_files(self, inst: dict) -> list[str]:
        raise NotImplementedError

    def computed_signature(self, inst: dict) -> Any:
        return None

    def signature(self, inst: dict) -> str:
        """(register-spec content hash, computed-field signature) - the quick-tier dedup key."""
        hs = [file_hash(p) for p in self.spec_files(inst)]
        return f"{self.kind}:{'+'.join(hs)}:{_jhash(self.computed_signature(inst))}"

    def label(self, inst: dict) -> str:
        return "/".join(str(inst[k]) for k in ("kind", "family", "revision") if k in inst) + "".join(
            "/" + str(inst[k]) for k in ("sub", "mem", "cfgtype", "peripheral") if k in inst
        )

    # -- operations ----------------------------------------------------------------------
    def template(self, inst: dict) -> str:
        raise NotImplementedError

    def schemas(self, inst: dict) -> list[dict]:
        raise NotImplementedError

    def fresh(self, inst: dict):
        """A new area object in reset state (used to read the specification)."""
        raise NotImplementedError

    def registers(self, obj):
        return obj.registers

    def load(self, inst: dict, cfg: dict):
        raise NotImplementedError

    def export(self, obj) -> bytes:
        return obj.export()

    def parse(self, inst: dict, data: bytes):
        raise NotImplementedError

    def verify(self, obj) -> Optional[str]:
        """None = no verifier, "" = clean, text = the verifier's complaint."""
        return None

    def get_config(self, obj, diff: bool = False) -> dict:
        raise NotImplementedError

    def yaml_config(self, obj) -> Optional[str]:
        """The commented YAML the area writes for the user (create_config), where it has one."""
        return None

    def size(self, inst: dict, obj, data: bytes) -> int:
        raise NotImplementedError

    def dump(self, obj, regs=None) -> Any:
        """State two areas are compared by; ``regs`` = an already fetched ``registers(obj)`` (XMCD builds a deep copy per call)."""
        return dump_regs(regs if regs is not None else self.registers(obj))

    def frozen_fields(self, inst: dict) -> set:
        """(register name, bit-field name) pairs that describe the block itself (tags, sizes, types)
        and are therefore not value-swept."""
        return set()

    def cli_template(self, inst: dict, outdir: str) -> Optional[tuple[list[str], str]]:
        """(command line, path of the produced file) for the latest revision, or None."""
        return None

    def cli_main(self):
        raise NotImplementedError


# ------------------------------------------------------------------------------------------
class PfrAdapter(Adapter):
    """PFR CMPA/CFPA and IFR ROMCFG/CMACTABLE - the BaseConfigArea subclasses."""

    kind = "pfr"
    settings_key = "settings"
    has_diff = True

    def _cls(self, inst):
        from spsdk.pfr.pfr import CONFIG_AREA_CLASSES

        return CONFIG_AREA_CLASSES[inst["sub"]]

    def enumerate(self):
        from spsdk.pfr.pfr import CONFIG_AREA_CLASSES
        from spsdk.utils.database import get_families

        for sub, cls in CONFIG_AREA_CLASSES.items():
            for fam in get_families(cls.FEATURE_NAME, sub):
                for rev in revisions(fam):
                    yield {"kind": self.kind, "family": fam, "revision": rev, "sub": sub}

    def spec_files(self, inst):
        cls = self._cls(inst)
        return [_spec_path(inst["family"], inst["revision"], cls.FEATURE_NAME, [inst["sub"], "reg_spec"])]

    def computed_signature(self, inst):
        cls = self._cls(inst)
        f, r, s = inst["family"], inst["revision"], inst["sub"]
        return [
            s,
            _db_get(f, r, cls.FEATURE_NAME, [s, "computed_fields"], {}),
            _db_get(f, r, cls.FEATURE_NAME, [s, "seal_start"], ""),
            _db_get(f, r, cls.FEATURE_NAME, [s, "seal_count"], 0),
            _db_get(f, r, cls.FEATURE_NAME, [s, "grouped_registers"], []),
            _db_get(f, r, "cert_block", "rot_type", "") if s == "cmpa" else "",
        ]

    def schemas(self, inst):
        return self._cls(inst).get_validation_schemas(family=inst["family"], revision=inst["revision"])

    def template(self, inst):
        # BaseConfigArea has no generate_config_template; this is what `pfr|ifr get-template` does
        from spsdk.utils.schema_validator import CommentedConfig

        area = inst["sub"].upper()
        return CommentedConfig(f"PFR {area} configuration template", self.schemas(inst)).get_template()

    def fresh(self, inst):
        return self._cls(inst)(family=inst["family"], revision=inst["revision"])

    def load(self, inst, cfg):
        from spsdk.pfr.pfr import BaseConfigArea

        return BaseConfigArea.load_from_config(copy.deepcopy(cfg))

    def export(self, obj, **kw):
        return obj.export(draw=False, **kw)

    def parse(self, inst, data):
        obj = self.fresh(inst)
        obj.parse(data)
        return obj

    def get_config(self, obj, diff=False):
        return obj.get_config(diff=diff)

    def size(self, inst, obj, data):
        # the database documents the page size where it has a `size` entry (PFR: 512); else the class constant
        cls = self._cls(inst)
        db_size = _db_get(inst["family"], inst["revision"], cls.FEATURE_NAME, [inst["sub"], "size"], None)
        return int(db_size) if isinstance(db_size, int) and not isinstance(db_size, bool) else cls.BINARY_SIZE

    def cli_main(self, inst=None):
        if inst and inst["sub"] in ("romcfg", "cmactable"):
            from spsdk.apps import ifr

            return ifr.main
        from spsdk.apps import pfr

        return pfr.main

    def cli_template(self, inst, outdir):
        out = os.path.join(outdir, f"{inst['family']}_{inst['sub']}.yaml")
        if inst["sub"] in ("romcfg", "cmactable"):
            sector = {"romcfg": "ROMCFG", "cmactable": "CMACTable"}[inst["sub"]]
            return ["get-template", "-f", inst["family"], "-r", inst["revision"], "-s", sector, "-o", out, "--force"], out
        return ["get-template", "-f", inst["family"], "-r", inst["revision"], "-t", inst["sub"], "-o", out, "--force"], out


# ------------------------------------------------------------------------------------------
class _SegmentAdapter(Adapter):
    """BCA / FCF: SegmentBase subclasses with family+revision only."""

    feature = "?"

    def _cls(self):
        raise NotImplementedError

    def enumerate(self):
        from spsdk.utils.database import get_families

        for fam in get_families(self.feature):
            for rev in revisions(fam):
                yield {"kind": self.kind, "family": fam, "revision": rev}

    def spec_files(self, inst):
        return [_spec_path(inst["family"], inst["revision"], self.feature, "reg_spec")]

    def computed_signature(self, inst):
        return [_db_get(inst["family"], inst["revision"], self.feature, "grouped_registers", [])]

    def schemas(self, inst):
        return self._cls().get_validation_schemas(inst["family"], inst["revision"])

    def template(self, inst):
        return self._cls().generate_config_template(inst["family"], inst["revision"])

    def fresh(self, inst):
        return self._cls()(family=inst["family"], revision=inst["revision"])

    def load(self, inst, cfg):
        return self._cls().load_from_config(copy.deepcopy(cfg))

    def parse(self, inst, data):
        return self._cls().parse(data, family=inst["family"], revision=inst["revision"])

    def get_config(self, obj, diff=False):
        return obj.get_config()

    def yaml_config(self, obj):
        return obj.create_config()

    def size(self, inst, obj, data):
        return self._cls().SIZE

    def cli_main(self, inst=None):
        from spsdk.apps import nxpimage

        return nxpimage.main

    def cli_template(self, inst, outdir):
        out = os.path.join(outdir, f"{self.kind}_{inst['family']}.yaml")
        return [self.kind, "get-template", "-f", inst["family"], "-o", out, "--force"], out


class BcaAdapter(_SegmentAdapter):
    kind = "bca"
    feature = "bca"
    settings_key = "bca"

    def _cls(self):
        from spsdk.image.bca.bca import BCA

        return BCA

    def frozen_fields(self, inst):
        return {("TAG", None)}


class FcfAdapter(_SegmentAdapter):
    kind = "fcf"
    feature = "fcf"
    settings_key = "fcf"

    def _cls(self):
        from spsdk.image.fcf.fcf import FCF

        return FCF


# ------------------------------------------------------------------------------------------
class FcbAdapter(Adapter):
    kind = "fcb"
    settings_key = "fcb_settings"

    def _mem(self, inst):
        from spsdk.image.mem_type import MemoryType

        return MemoryType.from_label(inst["mem"])

    def enumerate(self):
        from spsdk.utils.database import get_db, get_families

        for fam in get_families("fcb"):
            for rev in revisions(fam):
                for mem in get_db(fam, rev).get_dict("fcb", "mem_types", default={}).keys():
                    yield {"kind": self.kind, "family": fam, "revision": rev, "mem": mem}

    def spec_files(self, inst):
        return [_spec_path(inst["family"], inst["revision"], "fcb", ["mem_types", inst["mem"], "reg_spec"])]

    def computed_signature(self, inst):
        return [inst["mem"], _db_get(inst["family"], inst["revision"], "fcb", ["mem_types", inst["mem"], "grouped_registers"], [])]

    def schemas(self, inst):
        from spsdk.image.fcb.fcb import FCB

        return FCB.get_validation_schemas(inst["family"], self._mem(inst), inst["revision"])

    def template(self, inst):
        from spsdk.image.fcb.fcb import FCB

        return FCB.generate_config_template(inst["family"], self._mem(inst), inst["revision"])

    def fresh(self, inst):
        from spsdk.image.fcb.fcb import FCB

        return FCB(family=inst["family"], mem_type=self._mem(inst), revision=inst["revision"])

    def load(self, inst, cfg):
        from spsdk.image.fcb.fcb import FCB

        return FCB.load_from_config(copy.deepcopy(cfg))

    def parse(self, inst, data):
        from spsdk.image.fcb.fcb import FCB

        return FCB.parse(data, family=inst["family"], mem_type=self._mem(inst), revision=inst["revision"])

    def get_config(self, obj, diff=False):
        # FCB offers its configuration only as commented YAML text (create_config)
        return _fast_yaml(obj.create_config())

    def yaml_config(self, obj):
        return obj.create_config()

    # documented block sizes: FlexSPI / SEMC ... configuration block 512 bytes, XSPI configuration block 768 bytes
    # (the bootable-image layout of the database names the segment "fcb" resp. "fcb_xspi")
    DOCUMENTED = {"fcb": 512, "fcb_xspi": 768}

    def size(self, inst, obj, data):
        segs = _db_get(inst["family"], inst["revision"], "bootable_image", ["mem_types", inst["mem"], "segments"], {}) or {}
        for name, size in self.DOCUMENTED.items():
            if name in segs:
                return size
        return 768 if inst["mem"].startswith("xspi") else 512

    def frozen_fields(self, inst):
        return {("tag", None)}

    def cli_main(self, inst=None):
        from spsdk.apps import nxpimage

        return nxpimage.main

    def cli_template(self, inst, outdir):
        out = os.path.join(outdir, f"fcb_{inst['family']}_{inst['mem']}.yaml")
        return ["bootable-image", "fcb", "get-templates", "-f", inst["family"], "-o", outdir, "--force"], out


# ------------------------------------------------------------------------------------------
class XmcdAdapter(Adapter):
    kind = "xmcd"
    settings_key = "xmcd_settings"

    def _types(self, inst):
        from spsdk.image.mem_type import MemoryType
        from spsdk.image.xmcd.xmcd import ConfigurationBlockType

        return MemoryType.from_label(inst["mem"]), ConfigurationBlockType.from_label(inst["cfgtype"])

    def enumerate(self):
        from spsdk.utils.database import get_db, get_families

        for fam in get_families("xmcd"):
            for rev in revisions(fam):
                for mem, types in get_db(fam, rev).get_dict("xmcd", "mem_types", default={}).items():
                    for ct in types.keys():
                        yield {"kind": self.kind, "family": fam, "revision": rev, "mem": mem, "cfgtype": ct}

    def spec_files(self, inst):
        f, r = inst["family"], inst["revision"]
        return [
            _spec_path(f, r, "xmcd", ["header", "reg_spec"]),
            _spec_path(f, r, "xmcd", ["mem_types", inst["mem"], inst["cfgtype"], "reg_spec"]),
        ]

    def computed_signature(self, inst):
        return [inst["mem"], inst["cfgtype"], "crc32-mpeg2", "header"]

    def schemas(self, inst):
        from spsdk.image.xmcd.xmcd import XMCD

        mem, ct = self._types(inst)
        return XMCD.get_validation_schemas(inst["family"], mem, ct, inst["revision"])

    def template(self, inst):
        from spsdk.image.xmcd.xmcd import XMCD

        mem, ct = self._types(inst)
        return XMCD.generate_config_template(inst["family"], mem, ct, inst["revision"])

    def fresh(self, inst):
        from spsdk.image.xmcd.xmcd import XMCD

        mem, ct = self._types(inst)
        return XMCD(family=inst["family"], mem_type=mem, config_type=ct, revision=inst["revision"])

    def load(self, inst, cfg):
        from spsdk.image.xmcd.xmcd import XMCD

        return XMCD.load_from_config(copy.deepcopy(cfg))  # load_from_config pops "header" from its argument

    def parse(self, inst, data):
        from spsdk.image.xmcd.xmcd import XMCD

        return XMCD.parse(data, family=inst["family"], revision=inst["revision"])

    def verify(self, obj):
        from spsdk.exceptions import SPSDKError

        try:
            obj.verify().validate()
        except SPSDKError as e:
            return str(e)[-400:] or "verifier reports errors"
        return ""

    def get_config(self, obj, diff=False):
        return _fast_yaml(obj.create_config())

    def yaml_config(self, obj):
        return obj.create_config()

    def size(self, inst, obj, data):
        # self-describing: header word, bits [11:0] = size of the whole block including the header
        return int.from_bytes(data[0:4], "little") & 0xFFF if len(data) >= 4 else -1

    def frozen_fields(self, inst):
        # these header fields describe the block itself
        return {("header", n) for n in ("tag", "version", "memoryInterface", "configurationBlockType", "configurationBlockSize")}

    def cli_main(self, inst=None):
        from spsdk.apps import nxpimage

        return nxpimage.main

    def cli_template(self, inst, outdir):
        out = os.path.join(outdir, f"xmcd_{inst['family']}_{inst['mem']}_{inst['cfgtype']}.yaml")
        return ["bootable-image", "xmcd", "get-templates", "-f", inst["family"], "-o", outdir, "--force"], out


# ------------------------------------------------------------------------------------------
class FusesAdapter(Adapter):
    kind = "fuses"
    settings_key = "registers"
    has_binary = False
    has_diff = True

    def enumerate(self):
        from spsdk.utils.database import get_families

        for fam in get_families("fuses"):
            for rev in revisions(fam):
                yield {"kind": self.kind, "family": fam, "revision": rev}

    def spec_files(self, inst):
        return [_spec_path(inst["family"], inst["revision"], "fuses", "reg_spec")]

    def computed_signature(self, inst):
        return [_db_get(inst["family"], inst["revision"], "fuses", "grouped_registers", [])]

    def schemas(self, inst):
        from spsdk.fuses.fuses import Fuses

        return Fuses.get_validation_schemas(inst["family"], inst["revision"])

    def template(self, inst):
        from spsdk.fuses.fuses import Fuses

        return Fuses.generate_config_template(inst["family"], inst["revision"])

    def fresh(self, inst):
        from spsdk.fuses.fuses import Fuses

        return Fuses(inst["family"], inst["revision"])

    def registers(self, obj):
        return obj.fuse_regs

    def load(self, inst, cfg):
        from spsdk.fuses.fuses import Fuses

        return Fuses.load_from_config(copy.deepcopy(cfg))

    def get_config(self, obj, diff=False):
        return obj.get_config(diff=diff)

    def cli_main(self, inst=None):
        from spsdk.apps import nxpfuses

        return nxpfuses.main

    def cli_template(self, inst, outdir):
        out = os.path.join(outdir, f"fuses_{inst['family']}.yaml")
        return ["get-template", "-f", inst["family"], "-r", inst["revision"], "-o", out, "--force"], out


# ------------------------------------------------------------------------------------------
class MemcfgAdapter(Adapter):
    """Option words: the exported artifact is the list of option words (count given by the rule)."""

    kind = "memcfg"
    settings_key = "settings"

    def enumerate(self):
        from spsdk.utils.database import get_db, get_families

        for fam in get_families("memcfg"):
            for rev in revisions(fam):
                per = get_db(fam, rev).get_dict("memcfg", "peripherals")
                for name, st in per.items():
                    if len(st.get("instances", [])):
                        yield {"kind": self.kind, "family": fam, "revision": rev, "peripheral": name}

    def spec_files(self, inst):
        return [_spec_path(inst["family"], inst["revision"], "memcfg", ["peripherals", inst["peripheral"], "reg_spec"])]

    def computed_signature(self, inst):
        f, r, p = inst["family"], inst["revision"], inst["peripheral"]
        return [p, _db_get(f, r, "memcfg", ["peripherals", p, "ow_counts_rule"], ""),
                _db_get(f, r, "memcfg", ["peripherals", p, "interfaces"], [])]

    def fresh(self, inst):
        from spsdk.memcfg.memcfg import MemoryConfig

        return MemoryConfig(family=inst["family"], peripheral=inst["peripheral"], revision=inst["revision"])

    def registers(self, obj):
        return obj.regs

    def schemas(self, inst):
        return self.fresh(inst).get_validation_schemas()

    def template(self, inst):
        # what `nxpmemcfg get-templates` does (MemoryConfig has no template method of its own)
        from spsdk.utils.registers import Registers
        from spsdk.utils.schema_validator import CommentedConfig

        return CommentedConfig(
            main_title=f"Option Words Configuration template for {inst['family']}, {inst['peripheral']}.",
            schemas=self.schemas(inst),
            note="Note for settings:\n" + Registers.TEMPLATE_NOTE,
        ).get_template()

    def load(self, inst, cfg):
        from spsdk.memcfg.memcfg import MemoryConfig

        return MemoryConfig.load_config(copy.deepcopy(cfg))

    def export(self, obj):
        from spsdk.memcfg.memcfg import MemoryConfig

        return MemoryConfig.option_words_to_bytes(obj.option_words)

    def parse(self, inst, data):
        from spsdk.memcfg.memcfg import MemoryConfig

        return MemoryConfig.parse(data, family=inst["family"], peripheral=inst["peripheral"], revision=inst["revision"])

    def get_config(self, obj, diff=False):
        return obj.get_config()

    def yaml_config(self, obj):
        return obj.get_yaml()

    def size(self, inst, obj, data):
        # the count rule of the database, evaluated here on the raw value of option word 0 (bit positions and the value
        # named "UserDefined" from the register specification); the rule may name more words than the peripheral has
        # registers (OptionSize = 15): the words that exist count
        regs = obj.regs.get_registers()
        rule = _db_get(inst["family"], inst["revision"], "memcfg", ["peripherals", inst["peripheral"], "ow_counts_rule"], None)
        word0 = regs[0].get_value()

        def field(name):
            bf = next(b for b in regs[0]._bitfields if b.name == name)  # pylint: disable=protected-access
            return bf, (word0 >> bf.offset) & ((1 << bf.width) - 1)

        if rule == "All":
            count = len(regs)
        elif rule == "OptionSize":
            count = 1 + field("OptionSize")[1]
        elif rule == "AcTimingMode":
            bf, raw = field("AcTimingMode")
            user_defined = [e.get_value_int() for e in bf.get_enums() if e.name == "UserDefined"]
            if not user_defined:
                raise RuntimeError("no value named UserDefined in the specification of AcTimingMode")
            count = len(regs) if raw in user_defined else 1
        else:
            raise RuntimeError(f"count rule {rule!r} is not one the reference knows")
        return 4 * min(count, len(regs))

    def dump(self, obj, regs=None):
        return list(obj.option_words)

    def cli_main(self, inst=None):
        from spsdk.apps import nxpmemcfg

        return nxpmemcfg.main

    def cli_template(self, inst, outdir):
        out = os.path.join(outdir, f"ow_{inst['peripheral']}.yaml")
        return ["get-templates", "-f", inst["family"], "-o", outdir, "--force"], out


# ------------------------------------------------------------------------------------------
class TzAdapter(Adapter):
    """TrustZone preset: a name -> 32-bit word table (no Registers object)."""

    kind = "tz"
    settings_key = "trustZonePreset"

    def enumerate(self):
        from spsdk.utils.database import get_families

        for fam in get_families("tz"):
            for rev in revisions(fam):
                yield {"kind": self.kind, "family": fam, "revision": rev}

    def spec_files(self, inst):
        return [_spec_path(inst["family"], inst["revision"], "tz", "reg_spec")]

    def schemas(self, inst):
        from spsdk.image.trustzone import TrustZone

        return TrustZone.get_validation_schemas(inst["family"], inst["revision"])

    def template(self, inst):
        from spsdk.image.trustzone import TrustZone

        return TrustZone.generate_config_template(inst["family"], inst["revision"])[f"{inst['family']}_tz"]

    def preset_names(self, inst) -> list[str]:
        """Names in binary order, read from the specification file itself (JSON/YAML, ordered)."""
        from spsdk.utils.database import DatabaseManager

        return list(DatabaseManager().db.load_db_cfg_file(self.spec_files(inst)[0]).keys())

    def fresh(self, inst):
        from spsdk.image.trustzone import TrustZone

        return TrustZone.custom(family=inst["family"], customizations={}, revision=inst["revision"])

    def registers(self, obj):
        return None

    def load(self, inst, cfg):
        from spsdk.image.trustzone import TrustZone

        return TrustZone.from_config(copy.deepcopy(cfg))

    def parse(self, inst, data):
        from spsdk.image.trustzone import TrustZone

        return TrustZone.from_binary(family=inst["family"], raw_data=data, revision=inst["revision"])

    def get_config(self, obj, diff=False):
        # the parsed / loaded customisations are the configuration of a preset
        return {"family": obj.family, "revision": getattr(obj, "_c12_revision", "latest"),
                "trustZonePreset": dict(obj.customs or {})}

    def size(self, inst, obj, data):
        from spsdk.image.trustzone import TrustZone

        return TrustZone.get_preset_data_size(inst["family"], inst["revision"])

    def dump(self, obj, regs=None):
        return obj.export()

    def cli_main(self, inst=None):
        from spsdk.apps import nxpimage

        return nxpimage.main

    def cli_template(self, inst, outdir):
        out = os.path.join(outdir, f"tz_{inst['family']}.yaml")
        return ["tz", "get-template", "-f", inst["family"], "-r", inst["revision"], "-o", out, "--force"], out


ADAPTERS: dict[str, Adapter] = {
    a.kind: a
    for a in (PfrAdapter(), BcaAdapter(), FcfAdapter(), FcbAdapter(), XmcdAdapter(), TzAdapter(), FusesAdapter(), MemcfgAdapter())
}

_ENUM_CACHE: Optional[list[dict]] = None


def enumerate_all() -> list[dict]:
    """Every area instance of the database under test, in a deterministic order."""
    global _ENUM_CACHE  # pylint: disable=global-statement
    if _ENUM_CACHE is None:
        out = []
        for kind in sorted(ADAPTERS):
            out.extend(ADAPTERS[kind].enumerate())
        out.sort(key=lambda i: json.dumps(i, sort_keys=True))
        _ENUM_CACHE = out
    return [dict(i) for i in _ENUM_CACHE]
