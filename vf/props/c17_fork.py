"""Forked builders of the C17 check: one interpreter imports SPSDK (and, every other time, has already built an artifact), then
forks N workers - the default multiprocessing start method on Linux, a pre-forking build server.  Each worker builds artifacts
whose secrets SPSDK chooses itself and reports them; the parent of the check compares the workers with each other.

usage: python c17_fork.py <out.json> <n_workers> <warm: 0|1>
"""
from __future__ import annotations

import json
import os
import sys
import traceback


def build() -> dict:
    from spsdk.crypto.rng import random_bytes
    from spsdk.sbfile.sb2.images import SBV2xAdvancedParams
    from spsdk.utils.crypto.iee import IeeKeyBlob, IeeKeyBlobAttribute, IeeKeyBlobKeyAttributes, IeeKeyBlobLockAttributes, IeeKeyBlobModeAttributes
    from spsdk.utils.crypto.otfad import KeyBlob

    out = {"random_bytes_16": random_bytes(16).hex()}
    adv = SBV2xAdvancedParams()
    out.update({"sb2.dek": bytes(adv.dek).hex(), "sb2.mac": bytes(adv.mac).hex(), "sb2.nonce": bytes(adv.nonce).hex()})
    kb = KeyBlob(0x08001000, 0x0800F3FF)
    out.update({"otfad.key": bytes(kb.key).hex(), "otfad.counter": bytes(kb.ctr_init_vector).hex()})
    attrs = IeeKeyBlobAttribute(IeeKeyBlobLockAttributes.UNLOCK, IeeKeyBlobKeyAttributes.CTR256XTS512, IeeKeyBlobModeAttributes.AesXTS)
    ikb = IeeKeyBlob(attrs, 0x1000, 0xFFFF)
    out.update({"iee.key1": bytes(ikb.key1).hex(), "iee.key2": bytes(ikb.key2).hex()})
    return out


def main(argv: list[str]) -> int:
    out_path, n, warm = argv[0], int(argv[1]), argv[2] == "1"
    result: dict = {"workers": []}
    try:
        from vf import core

        core.setup_import_path()
        import spsdk  # noqa: F401

        if warm:
            result["parent"] = build()  # the parent built something before it forked
        else:
            import spsdk.crypto.rng  # noqa: F401
            import spsdk.sbfile.sb2.images  # noqa: F401
        pipes = []
        for _ in range(n):
            r, w = os.pipe()
            pid = os.fork()
            if pid == 0:
                os.close(r)
                try:
                    payload = json.dumps(build())
                except Exception:  # pylint: disable=broad-except
                    payload = json.dumps({"error": traceback.format_exc()[-1500:]})
                os.write(w, payload.encode())
                os._exit(0)
            os.close(w)
            pipes.append((pid, r))
        for pid, r in pipes:
            buf = b""
            while True:
                chunk = os.read(r, 65536)
                if not chunk:
                    break
                buf += chunk
            os.close(r)
            os.waitpid(pid, 0)
            result["workers"].append(json.loads(buf.decode() or "{}"))
    except Exception:  # pylint: disable=broad-except
        result = {"error": traceback.format_exc()[-3000:]}
    with open(out_path, "w", encoding="utf-8") as f:
        json.dump(result, f)
    return 0


if __name__ == "__main__":
    sys.exit(main(sys.argv[1:]))
