"""C20 - number parsing, alignment and byte-order helpers satisfy their contracts.

Runtime monitoring: the real helpers are called on exhaustively enumerated small domains and on
sampled large values; every return value / exception is compared with an arithmetic definition
(vf.refs.numgrammar for the number grammar).  One case = one chunk of a domain.
"""
from __future__ import annotations

import itertools

from vf import core
from vf.refs import numgrammar

ID = "C20"
LEVEL = "exploration"
TECHNIQUE = "runtime monitoring: differential oracle over exhaustively enumerated small domains + sampled large values"
RULE = (
    "value_to_int: every string of length <= 5 (thorough: <= 7) over the alphabet "
    "'0 1 2 7 9 a b f x o u l _ - + space' plus grammar-generated long/upper-case/padded strings and mutations; "
    "align: all (n, a) in 0..130 x -1..33; check_range: all (x, lo, hi) in -2..10; swap16: all 16-bit values; "
    "reverse_bits: widths 1..64; value_to_bytes/round trips: sampled up to 2^512; byte strings of every length 0..65. "
    "A case signature is (helper, input class, outcome class); non-trivial = the helper was actually called and judged."
)
ASSUMPTIONS = [
    "the documented grammar is the one in DESIGN.md C20 (vf/refs/numgrammar.py)",
    "negative integers are outside the documented domain of the int->bytes helpers and are not judged",
    "exception *type* is judged only where the docstring promises SPSDKError",
]
REQUIRED_COUNTERS = ["value_to_int", "align", "check_range", "value_to_bytes", "involutions", "load_hex_string"]

ALPHABET = "0127 9abfxoul_-+".replace(" ", "") + " "
assert len(set(ALPHABET)) == 16, ALPHABET


def selftest(ctx):
    return {"numgrammar": numgrammar.selftest()}


def cases(tier, seed):
    maxlen = 7 if tier == "thorough" else 5
    # exhaustive strings, chunked by the first character (length>=2)
    yield {"kind": "v2i_exh", "len": 0, "first": ""}
    yield {"kind": "v2i_exh", "len": 1, "first": ""}
    for ln in range(2, maxlen + 1):
        for c in ALPHABET:
            if ln >= 5:
                for c2 in ALPHABET:
                    if ln >= 6:
                        for c3 in ALPHABET:
                            if ln >= 7:
                                for c4 in ALPHABET:
                                    yield {"kind": "v2i_exh", "len": ln, "first": c + c2 + c3 + c4}
                            else:
                                yield {"kind": "v2i_exh", "len": ln, "first": c + c2 + c3}
                    else:
                        yield {"kind": "v2i_exh", "len": ln, "first": c + c2}
            else:
                yield {"kind": "v2i_exh", "len": ln, "first": c}
    n_rand = 40 if tier == "thorough" else 8
    for k in range(n_rand):
        yield {"kind": "v2i_gen", "k": k, "n": 3000}
    yield {"kind": "v2i_types"}
    yield {"kind": "align"}
    yield {"kind": "check_range"}
    yield {"kind": "swap16"}
    for k in range(16 if tier == "thorough" else 4):
        yield {"kind": "swap32_revbits", "k": k}
    for k in range(32 if tier == "thorough" else 6):
        yield {"kind": "v2b", "k": k, "n": 2500}
    for k in range(12 if tier == "thorough" else 3):
        yield {"kind": "blocks", "k": k, "n": 700}
    yield {"kind": "byteorder"}
    for k in range(8 if tier == "thorough" else 2):
        yield {"kind": "load_hex", "k": k}
    yield {"kind": "bcd"}
    yield {"kind": "secboot"}
    yield {"kind": "enums"}
    yield {"kind": "format_value", "n": 4000 if tier == "thorough" else 1000}
    yield {"kind": "split_pattern", "n": 1500 if tier == "thorough" else 400}


# ------------------------------------------------------------------------------------------
def _judge_v2i(ctx, misc, SPSDKError, s):
    exp = numgrammar.parse_number(s)
    hist = len(s) % 3 == 1 or s[-1:] in "7fl "
    if hist:
        # the same text is converted with a default first (the library does that all the time: value_to_int(x, 0)): the
        # default answers for THAT call only, the text has its own meaning in every later call
        try:
            d1 = misc.value_to_int(s, 7)
        except Exception as e:  # pylint: disable=broad-except
            ctx.violation("value_to_int-raises-despite-default", {"input": s, "exception": core.exc_brief(e)})
            return None
        if d1 != (exp if exp is not None else 7):
            ctx.violation("value_to_int-default-wrong", {"input": s, "default": 7, "spsdk": d1, "grammar": exp})
            return None
        ctx.count("value_to_int_histories")
    try:
        got = misc.value_to_int(s)
        acc = True
    except SPSDKError:
        got, acc = None, False
    except Exception as e:  # pylint: disable=broad-except
        ctx.violation("value_to_int-wrong-exception-type", {"input": s, "exception": core.exc_brief(e)})
        return None
    if acc != (exp is not None):
        ctx.violation("value_to_int-accept-mismatch", {"input": s, "spsdk": got, "grammar": exp})
    elif acc and got != exp:
        ctx.violation("value_to_int-wrong-value", {"input": s, "spsdk": got, "grammar": exp})
    elif hist:
        try:
            d2 = misc.value_to_int(s, 9)
        except Exception as e:  # pylint: disable=broad-except
            ctx.violation("value_to_int-raises-despite-default", {"input": s, "exception": core.exc_brief(e)})
            return acc
        if d2 != (exp if exp is not None else 9):
            ctx.violation("value_to_int-answer-depends-on-earlier-calls", {"input": s, "default": 9, "spsdk": d2, "grammar": exp, "earlier_default": 7})
    return acc


def _gen_number(rng):
    base = core.pick(rng, [10, 10, 16, 16, 2, 8])
    digs = "0123456789abcdef"[:base]
    n = core.pick(rng, [1, 2, 3, 8, 16, 33, 64, 128])
    body = "".join(rng.choice(digs) for _ in range(n))
    if rng.random() < 0.4 and n > 2:
        for _ in range(rng.randrange(1, 4)):
            p = rng.randrange(1, len(body))
            body = body[:p] + "_" + body[p:]
    pre = {10: "", 16: "0x", 2: "0b", 8: "0o"}[base]
    suf = "".join(rng.choice("ul") for _ in range(core.pick(rng, [0, 0, 0, 1, 2, 3, 4])))
    s = pre + body + suf
    if rng.random() < 0.3:
        s = "".join(ch.upper() if rng.random() < 0.5 else ch for ch in s)
    if rng.random() < 0.3:
        s = rng.choice(["", " ", "\t", "\n", "  "]) + s + rng.choice(["", " ", "\t", "\n", " \r\n"])
    if rng.random() < 0.35:  # mutate: insert/delete/replace one character
        p = rng.randrange(len(s) + 1)
        op = rng.randrange(3)
        ch = rng.choice("0123456789abcdefxobul_-+ .gGzZ")
        if op == 0:
            s = s[:p] + ch + s[p:]
        elif op == 1 and s:
            s = s[:p] + s[p + 1:]
        elif s:
            s = s[:p] + ch + s[p + 1:]
    return s


def run_case(case, ctx):  # noqa: C901
    from spsdk.exceptions import SPSDKError
    from spsdk.utils import misc

    kind = case["kind"]
    rng = ctx.rng

    if kind == "v2i_exh":
        ln, first = case["len"], case["first"]
        acc = rej = 0
        for tail in itertools.product(ALPHABET, repeat=ln - len(first)):
            s = first + "".join(tail)
            r = _judge_v2i(ctx, misc, SPSDKError, s)
            if r is True:
                acc += 1
            elif r is False:
                rej += 1
        ctx.count("value_to_int", acc + rej)
        if acc:
            ctx.ok(["value_to_int", "exhaustive", ln, first, "accepted"], n=acc)
        if rej:
            ctx.ok(["value_to_int", "exhaustive", ln, first, "rejected"], n=rej,
                   sample={"len": ln, "first": first, "accepted": acc, "rejected": rej})
        return

    if kind == "v2i_gen":
        acc = rej = 0
        for _ in range(case["n"]):
            s = _gen_number(rng)
            r = _judge_v2i(ctx, misc, SPSDKError, s)
            acc += r is True
            rej += r is False
        ctx.count("value_to_int", acc + rej)
        ctx.ok(["value_to_int", "generated", "accepted"], n=acc)
        ctx.ok(["value_to_int", "generated", "rejected"], n=rej, sample={"last": s, "accepted": acc, "rejected": rej})
        return

    if kind == "v2i_types":
        n = 0
        for v in [0, 1, -1, 2**512, -(2**70)]:
            if misc.value_to_int(v) != v:
                ctx.violation("value_to_int-int-passthrough", {"input": v})
            n += 1
        for ln in range(0, 66):
            b = core.rand_bytes(rng, ln)
            for typ in (bytes, bytearray):
                if misc.value_to_int(typ(b)) != int.from_bytes(b, "big"):
                    ctx.violation("value_to_int-bytes", {"input": b})
                n += 1
        for bad in ["", "zz", None, 1.5, [1]]:
            try:
                r = misc.value_to_int(bad)  # type: ignore[arg-type]
                ctx.violation("value_to_int-accepts-invalid-type", {"input": repr(bad), "got": r})
            except SPSDKError:
                pass
            if misc.value_to_int(bad, default=7) != 7:  # type: ignore[arg-type]
                ctx.violation("value_to_int-default", {"input": repr(bad)})
            n += 2
        ctx.count("value_to_int", n)
        ctx.ok(["value_to_int", "types"], n=n)
        return

    if kind == "align":
        n = 0
        for num in range(-3, 131):
            for al in range(-1, 34):
                n += 1
                try:
                    r = misc.align(num, al)
                except SPSDKError:
                    if al > 0 and num >= 0:
                        ctx.violation("align-rejects-valid", {"n": num, "a": al})
                    continue
                if al <= 0 or num < 0:
                    ctx.violation("align-accepts-invalid", {"n": num, "a": al, "got": r})
                elif not (r >= num and r % al == 0 and r - num < al):
                    ctx.violation("align-not-least-aligned", {"n": num, "a": al, "got": r})
        for _ in range(3000):
            num = rng.getrandbits(core.pick(rng, [8, 16, 32, 40, 64]))
            al = core.pick(rng, [1, 2, 3, 4, 7, 8, 16, 64, 256, 512, 1024, 4096, rng.randrange(1, 100000)])
            r = misc.align(num, al)
            n += 1
            if not (r >= num and r % al == 0 and r - num < al):
                ctx.violation("align-not-least-aligned", {"n": num, "a": al, "got": r})
        ctx.count("align", n)
        ctx.ok(["align", "exhaustive 0..130 x -1..33 + sampled"], n=n, sample={"align(5,4)": misc.align(5, 4)})
        return

    if kind == "check_range":
        n = 0
        for x in range(-2, 11):
            for lo in range(-2, 11):
                for hi in range(-2, 11):
                    n += 1
                    got = misc.check_range(x, lo, hi)
                    if bool(got) != (lo <= x <= hi):
                        ctx.violation("check_range-wrong-answer", {"x": x, "start": lo, "end": hi, "got": got})
        for x in [0, 1, 0xFFFFFFFF, 0x100000000, -1, 2**40]:
            n += 1
            if bool(misc.check_range(x)) != (0 <= x <= 0xFFFFFFFF):
                ctx.violation("check_range-wrong-answer", {"x": x, "defaults": True})
        ctx.count("check_range", n)
        ctx.ok(["check_range", "exhaustive -2..10 cubed"], n=n)
        return

    if kind == "swap16":
        n = 0
        for x in range(0x10000):
            r = misc.swap16(x)
            n += 1
            if r != ((x & 0xFF) << 8 | x >> 8) or misc.swap16(r) != x:
                ctx.violation("swap16-wrong", {"x": x, "got": r})
        for bad in (-1, 0x10000, 1 << 40):
            try:
                r = misc.swap16(bad)
                ctx.violation("swap16-accepts-out-of-range", {"x": bad, "got": r})
            except SPSDKError:
                pass
            n += 1
        ctx.count("involutions", n)
        ctx.ok(["swap16", "exhaustive"], n=n)
        return

    if kind == "swap32_revbits":
        n = 0
        for _ in range(5000):
            x = rng.getrandbits(32) if rng.random() < 0.8 else core.pick(rng, [0, 1, 0xFF, 0xFFFFFFFF, 0x80000000, 0x01020304])
            r = misc.swap32(x)
            n += 1
            if r != int.from_bytes(x.to_bytes(4, "big"), "little") or misc.swap32(r) != x:
                ctx.violation("swap32-wrong", {"x": x, "got": r})
        for bad in (-1, 1 << 32, 1 << 70):
            try:
                r = misc.swap32(bad)
                ctx.violation("swap32-accepts-out-of-range", {"x": bad, "got": r})
            except SPSDKError:
                pass
        for w in range(1, 65):
            for _ in range(40):
                x = rng.getrandbits(w)
                r = misc.reverse_bits(x, w)
                n += 1
                exp = sum(((x >> i) & 1) << (w - 1 - i) for i in range(w))
                if r != exp or misc.reverse_bits(r, w) != x:
                    ctx.violation("reverse_bits-wrong", {"x": x, "w": w, "got": r})
        x = rng.getrandbits(32)
        if misc.reverse_bits(x) != misc.reverse_bits(x, 32):
            ctx.violation("reverse_bits-default-width", {"x": x})
        ctx.count("involutions", n)
        ctx.ok(["swap32+reverse_bits", case["k"]], n=n)
        return

    if kind == "v2b":
        n = 0
        for _ in range(case["n"]):
            bits = core.pick(rng, [0, 1, 7, 8, 9, 15, 16, 17, 24, 25, 31, 32, 33, 63, 64, 65, 96, 128, 255, 256, 384, 511, 512])
            v = rng.getrandbits(bits) if bits else 0
            if bits and rng.random() < 0.5:
                v |= 1 << (bits - 1)
            al = rng.random() < 0.5
            end = core.pick(rng, [misc.Endianness.BIG, misc.Endianness.LITTLE])
            minimal = max(1, (v.bit_length() + 7) // 8)
            nat = minimal if (not al or minimal <= 2) else (minimal + 3) // 4 * 4
            bc = core.pick(rng, [None, None, nat, nat + 1, nat + 4, max(1, nat - 1), 1, 4, 64])
            form = core.pick(rng, ["int", "dec", "hex"])
            arg = v if form == "int" else (str(v) if form == "dec" else hex(v))
            n += 1
            try:
                out = misc.value_to_bytes(arg, align_to_2n=al, byte_cnt=bc, endianness=end)
            except SPSDKError:
                if bc is None or bc >= nat:
                    ctx.violation("value_to_bytes-rejects-fitting", {"v": v, "align": al, "byte_cnt": bc})
                continue
            if bc is not None and bc < nat:
                ctx.violation("value_to_bytes-accepts-too-small-byte_cnt", {"v": v, "align": al, "byte_cnt": bc, "len": len(out)})
                continue
            want_len = bc if bc is not None else nat
            if len(out) != want_len or int.from_bytes(out, end.value) != v:
                ctx.violation("value_to_bytes-width-or-roundtrip", {"v": v, "align": al, "byte_cnt": bc, "endian": end.value, "out": out, "want_len": want_len})
            if misc.get_bytes_cnt_of_int(v, al, byte_cnt=bc) != want_len:
                ctx.violation("get_bytes_cnt_of_int-width", {"v": v, "align": al, "byte_cnt": bc})
        b = core.rand_bytes(rng, rng.randrange(0, 70))
        if misc.value_to_bytes(b) != b or misc.value_to_bytes(bytearray(b)) != b or not isinstance(misc.value_to_bytes(bytearray(b)), bytes):
            ctx.violation("value_to_bytes-bytes-passthrough", {"b": b})
        ctx.count("value_to_bytes", n)
        ctx.ok(["value_to_bytes", case["k"]], n=n, sample={"v": v, "align_to_2n": al, "byte_cnt": bc, "endianness": end.value})
        return

    if kind == "blocks":
        n = 0
        pads = [None, 0, 1, 0xFF, "zeros", "ones", "inc", "0x1234", 0x1234, "0xA5"]
        for _ in range(case["n"]):
            ln = core.pick(rng, [0, 1, 3, 4, 5, 15, 16, 17, 63, 64, 65, rng.randrange(0, 300)])
            data = core.rand_bytes(rng, ln)
            al = core.pick(rng, [1, 2, 3, 4, 8, 16, 64, 256, 512, 1024, 4096])
            pad = core.pick(rng, pads)
            typ = core.pick(rng, [bytes, bytearray])
            out = misc.align_block(typ(data), al, pad)
            n += 1
            want = (ln + al - 1) // al * al
            if len(out) != want or out[:ln] != data or not isinstance(out, bytes):
                ctx.violation("align_block-length-or-prefix", {"len": ln, "al": al, "pad": pad, "out_len": len(out)})
            else:
                tail = out[ln:]
                if pad in (None, 0, "zeros"):
                    exp = bytes(len(tail))
                elif pad in (0xFF, "ones"):
                    exp = b"\xff" * len(tail)
                elif pad == "inc":
                    exp = bytes(i & 0xFF for i in range(len(tail)))
                elif pad == 1:
                    exp = b"\x01" * len(tail)
                elif pad == "0xA5":
                    exp = b"\xa5" * len(tail)
                else:
                    exp = (b"\x12\x34" * (len(tail) // 2 + 1))[: len(tail)]
                if tail != exp:
                    ctx.violation("align_block-padding-content", {"len": ln, "al": al, "pad": pad, "tail": tail})
            # extend_block
            tgt = ln + core.pick(rng, [0, 1, 5, 16, 100])
            pb = core.pick(rng, [0, 0xFF, 0x5A])
            ob = misc.extend_block(data, tgt, pb)
            n += 1
            if ob != data + bytes([pb]) * (tgt - ln):
                ctx.violation("extend_block-wrong", {"len": ln, "target": tgt, "pad": pb})
            if ln:
                try:
                    misc.extend_block(data, ln - 1)
                    ctx.violation("extend_block-accepts-shorter-target", {"len": ln})
                except SPSDKError:
                    pass
        try:
            misc.align_block(b"abc", -4)
            ctx.violation("align_block-accepts-negative-alignment", {})
        except SPSDKError:
            pass
        o = misc.align_block_fill_random(b"abcde", 16)
        if len(o) != 16 or o[:5] != b"abcde":
            ctx.violation("align_block_fill_random-wrong", {"out": o})
        ctx.count("align", n)
        ctx.ok(["align_block+extend_block", case["k"]], n=n)
        return

    if kind == "byteorder":
        n = 0
        for ln in range(0, 66):
            for _ in range(6):
                d = core.rand_bytes(rng, ln)
                n += 1
                # reverse_bytes_in_longs
                if ln % 4 == 0:
                    r = misc.reverse_bytes_in_longs(d)
                    exp = b"".join(d[i:i + 4][::-1] for i in range(0, ln, 4))
                    if bytes(r) != exp or bytes(misc.reverse_bytes_in_longs(r)) != d:
                        ctx.violation("reverse_bytes_in_longs-wrong", {"d": d})
                else:
                    try:
                        r = misc.reverse_bytes_in_longs(d)
                        ctx.violation("reverse_bytes_in_longs-accepts-bad-length", {"len": ln})
                    except SPSDKError:
                        pass
                # change_endianness
                if ln in (1, 2) or (ln % 4 == 0 and ln > 0):
                    r = misc.change_endianness(d)
                    exp = d if ln == 1 else (d[::-1] if ln == 2 else b"".join(d[i:i + 4][::-1] for i in range(0, ln, 4)))
                    if bytes(r) != exp or bytes(misc.change_endianness(bytes(r))) != d:
                        ctx.violation("change_endianness-wrong", {"d": d})
                elif ln != 0:
                    try:
                        r = misc.change_endianness(d)
                        ctx.violation("change_endianness-accepts-bad-length", {"len": ln, "got": r})
                    except SPSDKError:
                        pass
                # swap_bytes
                if ln % 2 == 0:
                    r = misc.swap_bytes(d)
                    exp = b"".join(d[i:i + 2][::-1] for i in range(0, ln, 2))
                    if r != exp or misc.swap_bytes(r) != d:
                        ctx.violation("swap_bytes-wrong", {"d": d})
                else:
                    try:
                        r = misc.swap_bytes(d)
                        ctx.violation("swap_bytes-accepts-odd-length", {"len": ln, "got": r})
                    except (SPSDKError, ValueError):
                        pass
        ctx.count("involutions", n)
        ctx.ok(["byteorder helpers", "lengths 0..65"], n=n)
        return

    if kind == "load_hex":
        import os

        n = 0
        d = ctx.workdir
        os.makedirs(d, exist_ok=True)
        for _ in range(120):
            size = core.pick(rng, [1, 2, 4, 8, 16, 24, 32, 48, 64, 68])  # widths the size-aligned conversion can represent
            key = core.rand_bytes(rng, size)
            if key[0] == 0:
                key = b"\x01" + key[1:]
            forms = {
                "hexstr": key.hex(),
                "0xhexstr": "0x" + key.hex(),
                "bytes": key,
                "int": int.from_bytes(key, "big"),
            }
            p = os.path.join(d, f"k{rng.getrandbits(32):08x}.txt")
            with open(p, "w", encoding="utf-8") as f:
                f.write(key.hex())
            forms["txtfile"] = p
            pb = p[:-4] + ".bin"
            with open(pb, "wb") as f:
                f.write(bytes([0x80 | key[0]]) + key[1:] if size else key)  # not valid UTF-8 hex text
            for name, src in forms.items():
                n += 1
                got = misc.load_hex_string(src, size)
                if got != key:
                    ctx.violation("load_hex_string-wrong-value", {"form": name, "size": size, "got": got, "want": key})
            # wrong size must be rejected with SPSDKError for every form
            for name, src in forms.items():
                for wrong in (size + 1, max(1, size - 1) if size > 1 else 3):
                    if wrong == size:
                        continue
                    n += 1
                    if name == "int" and wrong > size:
                        # an integer simply is a smaller number in a wider field: documented to fit
                        got = misc.load_hex_string(src, wrong)
                        if int.from_bytes(got, "big") != src or len(got) != wrong:
                            ctx.violation("load_hex_string-int-widening", {"size": size, "expected_size": wrong, "got": got})
                        continue
                    try:
                        got = misc.load_hex_string(src, wrong)
                    except SPSDKError:
                        continue
                    if name in ("hexstr", "0xhexstr", "txtfile") and wrong > size and len(got) == wrong and int.from_bytes(got, "big") == int.from_bytes(key, "big"):
                        continue  # number semantics: zero-extended, correct size returned
                    ctx.violation(
                        "load_hex_string-bytes-size-unchecked" if name == "bytes" else "load_hex_string-wrong-size-accepted",
                        {"form": name, "size": size, "expected_size": wrong, "got_len": len(got)},
                    )
            # a key is a byte string: a text with MORE digits than the expected size is not that key, even when the
            # surplus leading bytes are zero (the SB3.1 PCK size probing relies on this)
            for pre in ("00", "0000", "00" * size):
                for src in (pre + key.hex(), "0x" + pre + key.hex()):
                    n += 1
                    try:
                        got = misc.load_hex_string(src, size)
                        ctx.violation("load_hex_string-leading-zero-bytes-dropped", {"size": size, "text_bytes": size + len(pre) // 2, "got_len": len(got)})
                    except SPSDKError:
                        pass
            # "File path to key file or hexadecimal value": an EXISTING file is the key file, also when its name happens
            # to read as a hexadecimal value of the expected size
            hexname = os.path.join(d, "cafe")
            with open(hexname, "w", encoding="utf-8") as f:
                f.write(key.hex())
            n += 1
            try:
                got = misc.load_hex_string("cafe", size, search_paths=[d])
            except SPSDKError:
                got = None
            if got != key:
                ctx.violation("load_hex_string-existing-key-file-not-preferred-over-literal",
                              {"file_name": "cafe", "size": size, "got": got, "file_content_key": key})
            if size > 2:  # the file holds a longer key than asked for: refused, never the 2-byte literal 0xcafe
                n += 1
                try:
                    got = misc.load_hex_string("cafe", 2, search_paths=[d])
                    ctx.violation("load_hex_string-existing-key-file-not-preferred-over-literal",
                                  {"file_name": "cafe", "expected_size": 2, "file_key_size": size, "got": got})
                except SPSDKError:
                    pass
            os.remove(hexname)
            os.remove(p)
            os.remove(pb)
        for bad in ["xyz", "0x12zz"]:
            n += 1
            try:
                got = misc.load_hex_string(bad, 2)
                ctx.violation("load_hex_string-accepts-garbage", {"src": bad, "got": got})
            except SPSDKError:
                pass
        n += 1
        r = misc.load_hex_string(None, 16)
        r2 = misc.load_hex_string(None, 16)
        if len(r) != 16 or r == r2:
            ctx.violation("load_hex_string-random-default", {"r": r, "r2": r2})
        ctx.count("load_hex_string", n)
        ctx.ok(["load_hex_string", case["k"]], n=n)
        return

    if kind == "bcd":
        from spsdk.sbfile.misc import BcdVersion3

        n = 0
        for _ in range(3000):
            parts = []
            for _i in range(3):
                nd = rng.randrange(1, 5)
                parts.append("".join(rng.choice("0123456789") for _ in range(nd)))
            txt = ".".join(parts)
            v = BcdVersion3.from_str(txt)
            n += 1
            exp = [int(p, 16) for p in parts]
            if list(v.nums) != exp or BcdVersion3.to_version(txt) != v or BcdVersion3.from_str(str(v)) != v:
                ctx.violation("bcdversion3-roundtrip", {"text": txt, "nums": list(v.nums)})
            if [int(x) for x in str(v).split(".")] != [int(p) for p in parts]:
                ctx.violation("bcdversion3-str", {"text": txt, "str": str(v)})
        for bad in ["1.2", "1.2.3.4", "12345.0.0", "a.0.0", "1.f.0", "", "1..2", "-1.0.0"]:
            n += 1
            try:
                v = BcdVersion3.from_str(bad)
                ctx.violation("bcdversion3-accepts-invalid", {"text": bad, "nums": list(v.nums)})
            except SPSDKError:
                pass
            except ValueError:
                pass  # int('') / int('-1'..) - rejected; docstring promise is SPSDKError -> observation only
        for bad in [(0xA, 0, 0), (0x10000, 0, 0), (-1, 0, 0), (0, 0x1A, 0)]:
            n += 1
            try:
                BcdVersion3(*bad)
                ctx.violation("bcdversion3-ctor-accepts-invalid", {"nums": bad})
            except SPSDKError:
                pass
        ctx.count("involutions", n)
        ctx.ok(["BcdVersion3"], n=n)
        return

    if kind == "secboot":
        from spsdk.sbfile.misc import SecBootBlckSize

        n = 0
        for size in range(0, 600):
            n += 1
            a = SecBootBlckSize.align(size)
            if a < size or a % 16 or a - size >= 16 or SecBootBlckSize.is_aligned(size) != (size % 16 == 0):
                ctx.violation("secbootblcksize-align", {"size": size, "got": a})
            try:
                nb = SecBootBlckSize.to_num_blocks(size)
                if size % 16 or nb != size // 16:
                    ctx.violation("secbootblcksize-num-blocks", {"size": size, "got": nb})
            except SPSDKError:
                if size % 16 == 0:
                    ctx.violation("secbootblcksize-num-blocks-rejects-aligned", {"size": size})
            d = core.rand_bytes(rng, size % 70)
            z = SecBootBlckSize.align_block_fill_zeros(d)
            r = SecBootBlckSize.align_block_fill_random(d)
            if z != d + bytes(-len(d) % 16) or r[: len(d)] != d or len(r) != len(z):
                ctx.violation("secbootblcksize-align-block", {"len": len(d)})
        ctx.count("align", n)
        ctx.ok(["SecBootBlckSize", "sizes 0..599"], n=n)
        return

    if kind == "enums":
        import importlib

        from spsdk.exceptions import SPSDKKeyError
        from spsdk.utils.spsdk_enum import SpsdkEnum, SpsdkSoftEnum

        for m in ["spsdk.mboot.error_codes", "spsdk.mboot.commands", "spsdk.mboot.properties", "spsdk.sdp.error_codes",
                  "spsdk.crypto.hash", "spsdk.crypto.crc", "spsdk.sbfile.sb2.commands", "spsdk.sbfile.sb31.constants",
                  "spsdk.image.ahab.ahab_data", "spsdk.image.hab.constants", "spsdk.image.mem_type", "spsdk.utils.crypto.cert_blocks",
                  "spsdk.image.mbi.mbi_mixin", "spsdk.dat.debug_credential", "spsdk.image.trustzone"]:
            try:
                importlib.import_module(m)
            except Exception:  # pylint: disable=broad-except
                pass

        def subclasses(c):
            for s in c.__subclasses__():
                yield s
                yield from subclasses(s)

        n = 0
        classes = 0
        shared_tags = []
        for cls in sorted(set(subclasses(SpsdkEnum)), key=lambda c: (c.__module__, c.__qualname__)):
            members = list(cls.__members__.values())
            if not members or cls is SpsdkSoftEnum:
                continue
            classes += 1
            tags = [m.tag for m in members]
            labels = [m.label.upper() for m in members]
            for m in members:
                n += 1
                first_tag = members[tags.index(m.tag)]
                first_lab = members[labels.index(m.label.upper())]
                if first_tag is not m:
                    shared_tags.append(f"{cls.__name__}.{m.name} tag {m.tag} shared with {first_tag.name}")
                if cls.from_tag(m.tag) is not first_tag or cls.from_label(m.label) is not first_lab:
                    ctx.violation("spsdkenum-lookup", {"cls": cls.__name__, "member": m.name})
                if cls.from_label(m.label.lower()) is not first_lab or cls.get_tag(m.label) != first_lab.tag:
                    ctx.violation("spsdkenum-label-case", {"cls": cls.__name__, "member": m.name})
                if cls.get_label(m.tag) != first_tag.label or not cls.contains(m.tag) or not cls.contains(m.label):
                    ctx.violation("spsdkenum-get-label", {"cls": cls.__name__, "member": m.name})
                if not (m == m.tag and m == m.label):
                    ctx.violation("spsdkenum-eq", {"cls": cls.__name__, "member": m.name})
            unused = next(t for t in range(0x7FFF0000, 0x7FFF0100) if t not in tags)
            if cls.contains(unused) and not issubclass(cls, SpsdkSoftEnum):
                ctx.violation("spsdkenum-contains-unknown", {"cls": cls.__name__})
            if not issubclass(cls, SpsdkSoftEnum):
                try:
                    cls.from_tag(unused)
                    ctx.violation("spsdkenum-from-unknown-tag", {"cls": cls.__name__})
                except SPSDKKeyError:
                    pass
            try:
                cls.from_label("no such label \x00")
                ctx.violation("spsdkenum-from-unknown-label", {"cls": cls.__name__})
            except SPSDKKeyError:
                pass
        ctx.note("enums_sharing_a_tag", shared_tags[:10])
        ctx.count("involutions", n)
        ctx.ok(["SpsdkEnum", classes], n=n, sample={"enum_classes": classes, "members": n})
        return

    if kind == "format_value":
        n = 0
        for _ in range(case["n"]):
            size = core.pick(rng, [1, 2, 3, 4, 7, 8, 12, 16, 24, 31, 32, 33, 64, 128, 256])
            v = rng.getrandbits(size)
            s = misc.format_value(v, size)
            n += 1
            body = s[2:]
            groups = body.split("_")
            if misc.value_to_int(s) != v or not s.startswith("0b" if size % 8 else "0x"):
                ctx.violation("format_value-not-parsable-back", {"v": v, "size": size, "s": s})
            elif any(len(g) != 4 for g in groups[1:]) or not 1 <= len(groups[0]) <= 4 or len(body.replace("_", "")) != (size if size % 8 else size // 4):
                ctx.violation("format_value-grouping", {"v": v, "size": size, "s": s})
        ctx.count("value_to_int", n)
        ctx.ok(["format_value"], n=n, sample={"format_value(0x1234,16)": misc.format_value(0x1234, 16)})
        return

    if kind == "split_pattern":
        n = 0
        for _ in range(case["n"]):
            ln = rng.randrange(0, 400)
            d = core.rand_bytes(rng, ln)
            sz = core.pick(rng, [1, 2, 3, 16, 32, 64, 255, 256, 1024])
            chunks = list(misc.split_data(d, sz))
            n += 1
            if b"".join(chunks) != d or any(len(c) != sz for c in chunks[:-1]) or (chunks and not 1 <= len(chunks[-1]) <= sz):
                ctx.violation("split_data-wrong", {"len": ln, "size": sz})
            pat = core.pick(rng, ["zeros", "ones", "inc", "0x12", "0x1234", "0xAABBCCDD", "17", "0"])
            blk = misc.BinaryPattern(pat).get_block(ln)
            unit = {"zeros": b"\0", "ones": b"\xff", "0x12": b"\x12", "0x1234": b"\x12\x34", "0xAABBCCDD": b"\xaa\xbb\xcc\xdd",
                    "17": b"\x11", "0": b"\0"}.get(pat)
            exp = bytes(i & 0xFF for i in range(ln)) if pat == "inc" else (unit * (ln // len(unit) + 1))[:ln]
            if blk != exp:
                ctx.violation("binarypattern-block", {"pattern": pat, "len": ln, "got": blk[:16]})
        for bad in ["nonsense", "0xZZ", ""]:
            try:
                misc.BinaryPattern(bad)
                ctx.violation("binarypattern-accepts-invalid", {"pattern": bad})
            except SPSDKError:
                pass
        for v, e in [(True, True), (False, False), (1, True), (0, False), ("True", True), ("true", True), ("T", True), ("1", True),
                     ("False", False), ("0", False), (None, False)]:
            if misc.value_to_bool(v) is not e:
                ctx.violation("value_to_bool-wrong", {"v": v})
        ctx.count("involutions", n)
        ctx.ok(["split_data+BinaryPattern+value_to_bool"], n=n)
        return

    raise core.Inconclusive(f"unknown case kind {kind}")
