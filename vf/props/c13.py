"""C13 - flash encryption (OTFAD, IEE, BEE): the hardware decrypts what SPSDK encrypts.

Runtime monitoring: the real encryptors (low-level classes, the configuration path of every family
that has the feature in the database under test, and the ``nxpimage otfad|iee|bee export`` CLI) are
driven with generated layouts; independent hardware models (vf.refs.flashenc_hw) then start from the
*exported key-blob bytes*, unwrap them with the device secrets and read the encrypted image back
through the engine.  Judged: the unwrapped contexts equal the configuration (key, counter, range,
flags, valid CRC); the read-back equals the plaintext inside the configured ranges; bytes outside every
range are stored unchanged; encrypting pieces at their addresses equals encrypting the whole.
"""
from __future__ import annotations

import json
import os

from vf import core
from vf.refs import flashenc_hw as hw

ID = "C13"
DECOY_CWD = True  # the worker runs in a directory that holds other bytes under every input file name (vf/worker.py)
LEVEL = "exploration"
TECHNIQUE = ("runtime monitoring: independent OTFAD/IEE/BEE hardware models unwrap the exported key blobs and read the "
             "encrypted image back; composition law by re-encrypting pieces")
RULE = (
    "layout = (engine, API path {low-level classes, load_from_config->binary_image for every family of the database, "
    "nxpimage CLI}, image length class 0..64 KiB incl. every residue class mod 16/1024/4096, base address 16-byte aligned "
    "and (OTFAD, BEE) not aligned to 1 KiB / 4 KiB aligned (IEE), 1..4 pairwise disjoint unit-aligned regions covering the "
    "image fully/partly/not at all, key/counter classes incl. all-zero, all-ones and counter carry, IEE XTS-256/512, CTR "
    "with address 128/256, bypass and the unjudged CTR variants, byte swap, KEK scrambling mask/align/bit-reversal, blob "
    "transport swap 0/2/4/8/16, invalid / decryption-disabled contexts). A case is non-trivial when the real encryptor "
    "produced key blobs and an image and the hardware model unwrapped the blobs and read the image back."
)
ASSUMPTIONS = [
    "region = what the exported blob says: OTFAD [srtaddr, endaddr|0x3FF], IEE [start, end), BEE FAC [start, end)",
    "OTFAD end addresses are generated as ...3FF (inclusive) or ...000 (exclusive); an image whose last byte sits exactly at an "
    "exclusive end address is not generated (the two readings of the end address differ there)",
    "IEE end addresses are generated in the exclusive 4 KiB-aligned form used by NXP's image_enc examples",
    "IEE AES-CTR counter word wraps modulo 2^32 (nonce[12:16] + (A >> 4)), BEE likewise",
    "IEE modes AesCTRWOAddress / AesCTRkeystream: only 'no crash' and 'bytes outside every region untouched' are judged",
    "padding bytes appended to the last 16-byte block and gap/alignment fill of composed images are not judged",
    "AES-XTS with key1 == key2 (e.g. both all-zero) is refused by the OpenSSL backend with ValueError: counted as a refusal",
    "configuration path: the data byte swap is the one binary_image() applies (none); database value byte_swap is only noted",
]
REQUIRED_COUNTERS = [
    "otfad_blob_unwrapped", "otfad_image_read", "iee_blob_unwrapped", "iee_image_read",
    "bee_header_unwrapped", "bee_image_read", "composition_checked", "config_path", "cli_path",
]
CASE_TIMEOUT_S = 300
WATCHDOG_S = {"quick": 900, "thorough": 5400}

OTFAD_UNIT, IEE_UNIT, BEE_UNIT = 0x400, 0x1000, 0x400
AREAS = [0x08000000, 0x30000000, 0x60000000, 0x04000000, 0x28000000, 0x00000000, 0x90000000, 0xFFF00000]


# ------------------------------------------------------------------------------------------ cases
def cases(tier, seed):
    big = tier == "thorough"
    for w in WITNESSES:
        yield {"kind": "witness", "name": w}
    for k in range(12000 if big else 2400):
        yield {"kind": "otfad_low", "k": k}
    for k in range(9000 if big else 1800):
        yield {"kind": "iee_low", "k": k}
    for k in range(12000 if big else 2400):
        yield {"kind": "bee_low", "k": k}
    yield {"kind": "families"}
    for k in range(12 if big else 2):
        for i in range(40):  # family index modulo the family list of the database under test
            yield {"kind": "otfad_cfg", "fam": i, "k": k}
            yield {"kind": "iee_cfg", "fam": i, "k": k}
    for k in range(1500 if big else 120):
        yield {"kind": "bee_cfg", "k": k}
    for k in range(60 if big else 10):
        yield {"kind": "otfad_cli", "k": k}
        yield {"kind": "iee_cli", "k": k}
        yield {"kind": "bee_cli", "k": k}


# --------------------------------------------------------------------------------------- selftest
def _rd(*p):
    path = os.path.join(core.repo_root(), "tests", *p)
    with open(path, "rb") as f:
        return f.read()


def selftest(ctx):
    """Hardware models against artifacts SPSDK did not produce (elftosb / image_enc outputs and the
    stored NXP samples of the repository's test data) + synthetic internal consistency."""
    res = dict(hw.selftest_synthetic())
    n = 0

    def need(cond, what):
        nonlocal n
        n += 1
        if not cond:
            raise AssertionError("flashenc_hw self-test failed: " + what)

    # OTFAD, elftosb vector (tests/utils/crypto): blob + byte-swapped image
    c = hw.otfad_unwrap_blob(_rd("utils", "crypto", "data", "otfad_keyblob.bin"), bytes.fromhex("50F66BB4F23B855DCD8FEFC0DA59E963"))
    need(c.key.hex() == "b1a0c56af31e98cd6936a79d9e6f829d" and c.ctr.hex() == "5689fab8b4bfb264" and c.start == 0x08001000
         and c.end == 0x0800F3FF and c.flags == 3, "otfad_keyblob.bin fields")
    plain = _rd("utils", "crypto", "data", "boot_image.bin")
    plain += bytes(-len(plain) % 512)
    got, own = hw.otfad_read([c], 0x08001000, _rd("utils", "crypto", "data", "otfad_image.bin"), True)
    need(got == plain and set(own) == {0}, "otfad_image.bin read-back")
    # OTFAD, nxpimage goldens: (file, blob swap, reversed mask, scramble, plaintext, table address, data address, ADE)
    kek = _rd("nxpimage", "data", "otfad", "kek_inc.bin")
    rt117 = "evkmimxrt1170_iled_blinky_cm7_QSPI_FLASH_bootable_nopadding.bin"
    ahab = "blink_fspi2_xip_cm33_ahab.bin"
    scr = (2018915346, 114)
    for name, swap, rev, sc, pl, tab, addr, ade in [
        ("otfad_rt1160_out.bin", 0, False, None, rt117, 0x30000000, 0x30001000, True),
        ("otfad_rt1170_out.bin", 0, False, None, rt117, 0x30000000, 0x30001000, True),
        ("otfad_rt1180_out.bin", 8, True, None, ahab, 0x04000000, 0x04001000, True),
        ("otfad_rt1180_no_encryption_out.bin", 8, True, None, ahab, 0x04000000, 0x04001000, False),
        ("otfad_rt1180_scramble_out.bin", 8, True, scr, ahab, 0x04000000, 0x04001000, True),
        ("otfad_rt1170_scramble_out.bin", 0, False, scr, ahab, 0x04000000, 0x04001000, True),
        ("otfad_rt1010_scramble_out.bin", 0, False, scr, ahab, 0x04000000, 0x04001000, True),
    ]:
        g = _rd("nxpimage", "data", "otfad", name)
        p = _rd("nxpimage", "data", "otfad", pl)
        cs = hw.otfad_unwrap_table(g, kek, 4, sc and sc[0], sc and sc[1], rev, swap)
        need(all(x.crc_ok for x in cs) and cs[0].vld and cs[0].ade == ade and not any(x.vld for x in cs[1:])
             and cs[0].key == bytes(range(16)) and cs[0].start == addr, name + " contexts")
        got, own = hw.otfad_read(cs, tab, g)
        off = addr - tab
        need(got[off:off + len(p)] == p and got[:off] == g[:off] and (g[off:off + len(p)] == p) == (not ade), name + " read-back")
    # IEE: NXP sample (tests/utils/crypto) and four image_enc references
    ib1, ib2 = bytes(range(32)), bytes(range(32, 64))
    cs, tplain = hw.iee_unwrap_table(_rd("utils", "crypto", "data", "iee_keyblobs.bin"), ib1, ib2, 0x30000000)
    need(tplain == _rd("utils", "crypto", "data", "iee_keyblobs_plain.bin") and len(cs) == 1 and cs[0].crc_ok
         and (cs[0].start, cs[0].end, cs[0].mode, cs[0].key_size) == (0x30001000, 0x30008000, 0xA6, 0xA5), "iee_keyblobs.bin")
    pl = _rd("utils", "crypto", "data", "iee_plain_image.bin")
    got, own = hw.iee_read(cs, 0x30001000, _rd("utils", "crypto", "data", "iee_encrypted_image.bin"))
    need(got[:len(pl)] == pl and set(own) == {0}, "iee_encrypted_image.bin read-back")
    pl = _rd("nxpimage", "data", "iee", rt117)
    for d, mode, ks in [("aes_xts512", 0xA6, 0xA5), ("aes_xts256", 0xA6, 0x5A), ("aes_ctr256", 0x66, 0xA5), ("aes_ctr128", 0x66, 0x5A)]:
        cs, _ = hw.iee_unwrap_table(_rd("nxpimage", "data", "iee", d, "iee_keyblobs.bin"), ib1, ib2, 0x30000000)
        need(len(cs) == 1 and cs[0].crc_ok and (cs[0].mode, cs[0].key_size, cs[0].start, cs[0].end) == (mode, ks, 0x30001000, 0x30008000),
             d + " key blob")
        enc = _rd("nxpimage", "data", "iee", d, "evkmimxrt1170_iled_blinky_cm7_QSPI_FLASH_nopadding.bin")
        got, own = hw.iee_read(cs, 0x30001000, enc)
        need(got[:len(pl)] == pl and got[len(pl):] == bytes(len(enc) - len(pl)), d + " image_enc read-back")
    # BEE: image_enc reference with both engines
    uk = bytes.fromhex("0123456789abcdeffedcba9876543210")
    c0 = hw.bee_unwrap_header(_rd("nxpimage", "data", "bee", "both_engines_ctr", "bee_ehdr0.bin"), uk, 0)
    c1 = hw.bee_unwrap_header(_rd("nxpimage", "data", "bee", "both_engines_ctr", "bee_ehdr1.bin"), uk, 1)
    need(c0.facs == ((0x60001000, 0x60002000, 0),) and c1.facs == ((0x60002000, 0x60003000, 0),) and c0.mode == 1 and c0.reserved_ok
         and c0.counter[12:] == bytes(4) and (c0.start, c0.end) == (0x60001000, 0x60002000), "bee_ehdr0/1.bin")
    enc = _rd("nxpimage", "data", "bee", "both_engines_ctr", "evkbimxrt1050_iled_blinky_ext_FLASH_bootable_nopadding.bin")
    pl = _rd("nxpimage", "data", "bee", "evkbimxrt1050_iled_blinky_ext_FLASH_unencrypted_nopadding.bin")
    got, own = hw.bee_read([c0, c1], 0x60001000, enc + bytes(-len(enc) % 16))
    need(got[:len(pl)] == pl and enc[0x2000:] == pl[0x2000:] and enc[:0x2000] != pl[:0x2000], "bee image_enc read-back")
    res["ground_truth_vectors"] = n
    res["sources"] = "elftosb otfad blob+image; 7 nxpimage OTFAD goldens; NXP IEE sample; 4 image_enc IEE refs; image_enc BEE ref"
    return res


# ------------------------------------------------------------------------------------- generators
def _len_class(rng, tier, unit, small=False):
    top = 0x10000 if tier == "thorough" else 0x4000
    if small:
        top = min(top, 0x3000)
    fixed = [0, 1, 15, 16, 17, 31, 32, 0x3F0, 0x3FF, 0x400, 0x401, 0x410, 0x7F0, 0x800, 0xC10, 0xFF0, 0xFFF, 0x1000, 0x1001,
             0x1010, 0x1400, 0x2000, 0x2010, 0x2400, 0x3000]
    r = rng.random()
    if r < 0.45:
        return min(core.pick(rng, fixed), top)
    if r < 0.65:
        return rng.randrange(0, top + 1)
    if r < 0.85:
        return 16 * rng.randrange(0, top // 16 + 1)
    return unit * rng.randrange(0, top // unit + 1)


def _len_sig(n, unit):
    return [("0" if n == 0 else "<16" if n < 16 else "<unit" if n < unit else "<4u" if n < 4 * unit else "big"),
            "m16" if n % 16 == 0 else "odd", "munit" if n % unit == 0 else "off"]


def _gen_base(rng, unit, aligned):
    area = core.pick(rng, AREAS)
    base = area + unit * rng.randrange(4, 200)
    if not aligned:
        base += 16 * rng.randrange(1, unit // 16)
    return base


def _gen_regions(rng, unit, base, length, nmax=4, coverage=None):
    """1..nmax pairwise disjoint unit-aligned regions as (start, end_exclusive); returns (regions, coverage)."""
    fu, lu = base // unit, (base + max(length, 1) - 1) // unit
    lo, hi = max(0, fu - 3), min(lu + 5, (1 << 32) // unit - 2)
    coverage = coverage or core.pick(rng, ["full", "partly", "partly", "none", "random", "random"])
    if coverage == "partly" and fu == lu:
        coverage = "random"
    if coverage == "full":
        first = (rng.randint(lo, fu), rng.randint(lu + 1, hi))
    elif coverage == "partly":
        how = rng.randrange(3)
        if how == 0:      # starts inside the image
            s = rng.randint(fu + 1, lu)
            first = (s, rng.randint(s + 1, hi))
        elif how == 1:    # ends inside the image
            e = rng.randint(fu + 1, lu)
            first = (rng.randint(lo, e - 1), e)
        else:             # strictly inside, or a part in the middle
            s = rng.randint(fu, lu)
            first = (s, rng.randint(s + 1, lu + 1))
            if first == (fu, lu + 1):
                first = (fu + 1, lu + 1)
    elif coverage == "none":
        if rng.random() < 0.5 and fu - lo >= 1:
            e = rng.randint(lo + 1, fu)
            first = (rng.randint(lo, e - 1), e)
        else:
            s = rng.randint(lu + 1, hi - 1)
            first = (s, rng.randint(s + 1, hi))
    else:
        s = rng.randint(lo, hi - 1)
        first = (s, rng.randint(s + 1, hi))
    regs = [first]
    want = rng.randint(1, nmax)
    for _ in range(12):
        if len(regs) >= want:
            break
        s = rng.randint(lo, hi - 1)
        e = rng.randint(s + 1, min(hi, s + 6))
        if coverage == "none" and not (e <= fu or s > lu):
            continue
        if all(e <= a or s >= b for a, b in regs):
            regs.append((s, e))
    rng.shuffle(regs)
    return [(s * unit, e * unit) for s, e in regs], coverage


def _gen_image(rng, n):
    r = rng.random()
    if r < 0.08:
        return bytes(n)
    if r < 0.14:
        return b"\xff" * n
    if r < 0.2:
        return bytes(i & 0xFF for i in range(n))
    return core.rand_bytes(rng, n)


def _gen_key(rng, n):
    r = rng.random()
    if r < 0.06:
        return bytes(n)
    if r < 0.12:
        return b"\xff" * n
    if r < 0.16:
        return bytes(n - 1) + b"\x01"
    if r < 0.28:
        # keys whose hexadecimal text consists of the digits 0-9 only: written without a prefix they are still hexadecimal
        return bytes([0x10 * rng.randrange(1, 10) + rng.randrange(10)] + [0x10 * rng.randrange(10) + rng.randrange(10) for _ in range(n - 1)])
    if r < 0.32:
        return bytes([0x0B] + [rng.choice((0x00, 0x01, 0x10, 0x11)) for _ in range(n - 1)])  # '0b0110...' is hexadecimal text too
    return core.rand_bytes(rng, n)


def _splits(rng, length, unit, align):
    """1..4 cut offsets (multiples of ``align``) inside (0, length)."""
    if length <= align:
        return []
    cand = set()
    for _ in range(rng.randint(1, 4)):
        if rng.random() < 0.3 and length > unit:
            cand.add(unit * rng.randrange(1, (length - 1) // unit + 1) if align <= unit else 0)
        else:
            cand.add(align * rng.randrange(1, (length - 1) // align + 1))
    return sorted(c for c in cand if 0 < c < length)


def _pad16(b):
    return b + bytes(-len(b) % 16)


def _cov_sig(regs, base, length):
    """How the regions relate to the image (observed, not the requested class)."""
    if length == 0:
        return "empty"
    inside = sum(max(0, min(e, base + length) - max(s, base)) for s, e in regs)
    return "full" if inside >= length else "none" if inside == 0 else "partly"


# ---------------------------------------------------------------------------------------- judging
def _bad_blocks(plain, stored, dec, owners, judged):
    """Yield (block index, kind) for every 16-byte block the property is violated on.

    kind: 'outside' = a byte outside every context was changed; 'plain' = inside a decrypting context but stored as
    plaintext (the engine turns it into garbage); 'garbled' = stored encrypted but the engine does not return the
    plaintext; 'bypass' = inside a pass-through context but stored changed."""
    for i in range((len(plain) + 15) // 16):
        p = plain[16 * i:16 * i + 16]
        n = len(p)
        s = stored[16 * i:16 * i + n]
        o = owners[i] if i < len(owners) else -1
        if o == -1:
            if s != p:
                yield i, "outside"
            continue
        how = judged(o)
        if how == "skip":
            continue
        if how == "bypass":
            if s != p:
                yield i, "bypass"
        elif dec[16 * i:16 * i + n] != p:
            # "left plain" = the whole stored block is the plaintext (plus zero padding of a short last block); a few
            # bytes of a short block that merely coincide with the plaintext do not count
            full = stored[16 * i:16 * i + 16]
            left_plain = full == p + bytes(len(full) - n)
            yield i, ("plain" if left_plain else "garbled")


def _emit_once(ctx, seen, mech, detail):
    if mech not in seen:
        seen.add(mech)
        ctx.violation(mech, detail)


def _walk_unit(base, total_len, addr, unit):
    """The unit [us, ue] (clipped to the image) that a walk starting at ``base`` puts ``addr`` in."""
    k = (addr - base) // unit
    us = base + k * unit
    return us, min(us + unit, base + total_len) - 1


def _hexregs(regs):
    return [[hex(s), hex(e)] for s, e in regs]


# ------------------------------------------------------------------------------------ OTFAD (low)
def _otfad_last(end_cfg):
    """Last address of a configured range, for both accepted spellings of the end address."""
    return end_cfg if end_cfg & 0x3FF == 0x3FF else end_cfg - 1


def _otfad_layout(rng, tier, aligned=None, small=False):
    length = _len_class(rng, tier, OTFAD_UNIT, small)
    if aligned is None:
        aligned = rng.random() < 0.45
    base = _gen_base(rng, OTFAD_UNIT, aligned)
    regs, cov = _gen_regions(rng, OTFAD_UNIT, base, length)
    blobs = []
    for s, e in regs:
        excl = rng.random() < 0.5
        if excl and base + length - 1 == e:   # see ASSUMPTIONS: last byte exactly at an exclusive end address
            excl = False
        r = rng.random()
        flags = 3 if r < 0.6 else 7 if r < 0.75 else core.pick(rng, [0, 1, 2, 4, 5, 6])
        ctr = _gen_key(rng, 8)
        if rng.random() < 0.08:
            ctr = ctr[:4] + ctr[:4]
        blobs.append({"start": s, "end": e if excl else e - 1, "key": _gen_key(rng, 16).hex(), "ctr": ctr.hex(), "flags": flags})
    lay = {"base": base, "len": length, "blobs": blobs, "cov": cov, "byte_swap": rng.random() < 0.4,
           "kek": _gen_key(rng, 16).hex(), "swap_cnt": core.pick(rng, [0, 0, 8, 8, 2, 4, 16]), "reversed": rng.random() < 0.5}
    if rng.random() < 0.6:
        # align 0 (every context XORs the mask into KEK word 0) and 0xFF are legal edge values: a truthiness test
        # instead of 'is not None' on either parameter silently switches the scrambling off
        lay["scramble"] = [core.pick(rng, [rng.getrandbits(32), rng.getrandbits(32), 0, 0xFFFFFFFF, 1, 0x80000000, 0x12345678]),
                           core.pick(rng, [rng.getrandbits(8), rng.getrandbits(8), 0, 0, 0xFF, 0x72])]
    return lay


def _otfad_check_contexts(ctx, seen, ctxs, blobs, where):
    """Unwrapped contexts == configuration (key, counter, range, flags, valid CRC)."""
    for c, b in zip(ctxs, blobs):
        d = {"where": where, "blob": c.index, "configured": {k: (hex(v) if isinstance(v, int) and k != "flags" else v) for k, v in b.items()},
             "unwrapped": {"key": c.key, "ctr": c.ctr, "srtaddr": hex(c.srtaddr), "endword": hex(c.endword), "crc_ok": c.crc_ok}}
        if c.key.hex() != b["key"]:
            _emit_once(ctx, seen, "otfad-blob-key-differs", d)
        if c.ctr.hex() != b["ctr"]:
            _emit_once(ctx, seen, "otfad-blob-counter-differs", d)
        if c.srtaddr != b["start"] or c.end != _otfad_last(b["end"]):
            _emit_once(ctx, seen, "otfad-blob-range-differs", d)
        if c.flags != b["flags"]:
            _emit_once(ctx, seen, "otfad-blob-flags-differ", d)
        if not c.crc_ok:
            _emit_once(ctx, seen, "otfad-blob-crc-invalid", d)
        ctx.count("otfad_blob_unwrapped")


def _otfad_judge_image(ctx, seen, ctxs, base, plain, stored, byte_swap, where, detail):
    """Read ``stored`` back through the OTFAD model and compare with ``plain`` (classified)."""
    if len(stored) not in (len(plain), len(_pad16(plain))):
        _emit_once(ctx, seen, "otfad-output-length", dict(detail, where=where, stored_len=len(stored), plain_len=len(plain)))
        return False
    dec, owners = hw.otfad_read(ctxs, base, stored, byte_swap)
    ctx.count("otfad_image_read")
    by = {c.index: c for c in ctxs}
    ok = True
    for i, kind in _bad_blocks(plain, stored, dec, owners, lambda o: "dec"):
        ok = False
        addr = base + 16 * i
        d = dict(detail, where=where, address=hex(addr), owner=owners[i] if i < len(owners) else -1, kind=kind,
                 plain=plain[16 * i:16 * i + 16], stored=stored[16 * i:16 * i + 16], hardware_reads=dec[16 * i:16 * i + 16])
        if kind == "outside":
            mech = "otfad-changed-outside-context"
        elif kind == "garbled":
            mech = "otfad-wrong-keystream-byteswap" if byte_swap else "otfad-wrong-keystream"
        else:
            c = by[owners[i]]
            us, ue = _walk_unit(base, len(plain), addr, OTFAD_UNIT)
            d["unit_walked_from_base"] = [hex(us), hex(ue)]
            d["context"] = [hex(c.start), hex(c.end)]
            if base % OTFAD_UNIT and us < c.start <= ue:
                mech = "otfad-unaligned-base-straddles-context-start"
            elif base % OTFAD_UNIT and us <= c.end < ue:
                mech = "otfad-unaligned-base-straddles-context-end"
            else:
                mech = "otfad-plaintext-inside-context"
        _emit_once(ctx, seen, mech, d)
    return ok


def _run_otfad_low(ctx, lay, sigextra=()):
    from spsdk.utils.crypto.otfad import KeyBlob, Otfad

    rng = ctx.rng
    seen: set = set()
    base, length, bs = lay["base"], lay["len"], lay["byte_swap"]
    image = _gen_image(rng, length)
    kek = bytes.fromhex(lay["kek"])
    mask, align = lay.get("scramble", [None, None])
    otfad = Otfad(reversed_scramble_key=lay["reversed"])
    kbs = []
    # a quarter of the objects have a HISTORY: they hold other contexts first and encrypt something with them, then every
    # context is replaced by item assignment (how OtfadNxp.load_from_config fills them); what counts is the present state
    history = rng.random() < 0.25
    if history:
        ctx.count("otfad_context_histories")
        for b in lay["blobs"]:
            otfad.add_key_blob(KeyBlob(b["start"], b["end"], key=_gen_key(rng, 16), counter_iv=_gen_key(rng, 8), key_flags=b["flags"] | 3))
        otfad.encrypt_image(bytes(range(256)) * 8, lay["blobs"][0]["start"] & ~0x3FF, bs)
    for i, b in enumerate(lay["blobs"]):
        kb = KeyBlob(b["start"], b["end"], key=bytes.fromhex(b["key"]), counter_iv=bytes.fromhex(b["ctr"]), key_flags=b["flags"],
                     zero_fill=core.pick(rng, [None, bytes(4), b"\x01\x02\x03\x04"]))
        if history:
            otfad[i] = kb
        else:
            otfad.add_key_blob(kb)
        kbs.append(kb)
    detail = {"base": hex(base), "len": length, "byte_swap": bs,
              "blobs": [[hex(b["start"]), hex(b["end"]), b["flags"]] for b in lay["blobs"]]}
    table = otfad.encrypt_key_blobs(kek if rng.random() < 0.7 else kek.hex(), mask, align, lay["swap_cnt"])
    try:
        ctxs = hw.otfad_unwrap_table(table, kek, len(kbs), mask, align, lay["reversed"], lay["swap_cnt"])
    except hw.Reject as e:
        ctx.violation("otfad-blob-does-not-unwrap", dict(detail, why=str(e), scramble=[mask, align], reversed=lay["reversed"],
                                                         swap_cnt=lay["swap_cnt"], table=table))
        return
    if len(table) % 256 or table[64 * len(kbs):] != bytes(len(table) - 64 * len(kbs)):
        _emit_once(ctx, seen, "otfad-table-padding", dict(detail, table_len=len(table)))
    _otfad_check_contexts(ctx, seen, ctxs, lay["blobs"], "Otfad.encrypt_key_blobs")
    plain_tab = otfad.get_key_blobs()
    for i, c in enumerate(ctxs):   # the plain table is the unwrapped record
        rec = plain_tab[64 * i:64 * i + 64]
        if rec[:32] != c.key + c.ctr + c.srtaddr.to_bytes(4, "little") + c.endword.to_bytes(4, "little"):
            _emit_once(ctx, seen, "otfad-plain-table-differs-from-wrapped", dict(detail, blob=i))
    if not seen:
        ctx.ok(["otfad", "blobs", len(kbs), "scr" if mask is not None else "noscr", "rev" if lay["reversed"] else "norev",
                lay["swap_cnt"], sorted({b["flags"] for b in lay["blobs"]})], n=len(kbs))

    n0 = len(seen)
    al = "aligned" if base % OTFAD_UNIT == 0 else "unaligned"
    enc = otfad.encrypt_image(image, base, bs)
    ok = _otfad_judge_image(ctx, seen, ctxs, base, image, enc, bs, "Otfad.encrypt_image", detail)
    if length % 16 == 0 and otfad.encrypt_image(image, base, bs) != enc:
        _emit_once(ctx, seen, "otfad-encrypt-image-not-repeatable", detail)
    if ok and len(seen) == n0:
        ctx.ok(["otfad", "low", _len_sig(length, OTFAD_UNIT), al, len(kbs),
                _cov_sig([(c.start, c.end + 1) for c in ctxs if c.vld and c.ade], base, length), "swap" if bs else "noswap", *sigextra],
               sample={"base": hex(base), "len": length, "contexts": [[hex(c.start), hex(c.end), c.flags] for c in ctxs],
                       "readback_equals_plaintext": True})

    # composition law: pieces at their own addresses
    cuts = _splits(rng, length, OTFAD_UNIT, 16)
    if cuts:
        parts, prev = [], 0
        for cpt in cuts + [length]:
            parts.append(otfad.encrypt_image(image[prev:cpt], base + prev, bs))
            prev = cpt
        ctx.count("composition_checked")
        unal = bool(base % OTFAD_UNIT or any(c % OTFAD_UNIT for c in cuts))
        if b"".join(parts) != enc:
            _emit_once(ctx, seen, "otfad-unaligned-base-composition-differs" if unal else "otfad-composition-differs",
                       dict(detail, cuts=[hex(c) for c in cuts]))
        else:
            ctx.ok(["otfad", "composition", "pieces-off-unit" if unal else "pieces-on-unit", len(cuts) + 1, "swap" if bs else "noswap"])

    # KeyBlob.encrypt_image directly: a window inside one decrypting context
    enc_blobs = [(kb, c) for kb, c in zip(kbs, ctxs) if c.vld and c.ade]
    if enc_blobs:
        kb, c = core.pick(rng, enc_blobs)
        units = (c.end + 1 - c.start) // OTFAD_UNIT
        a = c.start + (0 if rng.random() < 0.35 else 16 * rng.randrange(0, units * 64))
        room = c.end + 1 - a
        n = min(room, core.pick(rng, [16, 32, 0x3F0, 0x400, 0x410, 0x800, rng.randrange(1, 0x900)]))
        if "direct" in lay:
            a, n = c.start + lay["direct"][0], lay["direct"][1]
        data = _gen_image(rng, n)
        e2 = kb.encrypt_image(a, data, bs)
        if len(e2) != len(_pad16(data)):
            _emit_once(ctx, seen, "otfad-output-length", dict(detail, where="KeyBlob.encrypt_image", stored_len=len(e2), plain_len=n))
        else:
            d2, _ = hw.otfad_read([c], a, e2, bs)
            ctx.count("otfad_image_read")
            if d2[:n] == data:
                ctx.ok(["otfad", "keyblob-direct", "at-region-start" if a == c.start else "inside-region", "swap" if bs else "noswap"])
            else:
                mech = ("otfad-keyblob-encrypt-image-counter-from-region-start" if a != c.start
                        else "otfad-keyblob-encrypt-image-wrong-keystream")
                _emit_once(ctx, seen, mech, dict(detail, where="KeyBlob.encrypt_image(base_address, data) without counter_value",
                                                 base_address=hex(a), context=[hex(c.start), hex(c.end)], n=n,
                                                 bound_to_region_start=hw.otfad_read([c], c.start, e2, bs)[0][:n] == data))


# -------------------------------------------------------------------------------------- IEE (low)
IEE_MODES = {"AesXTS": 0xA6, "AesCTRWAddress": 0x66, "Bypass": 0x6A, "AesCTRWOAddress": 0xAA, "AesCTRkeystream": 0x19}
IEE_SIZES = {"CTR128XTS256": 0x5A, "CTR256XTS512": 0xA5}


def _iee_key_sizes(mode, size):
    ctr = mode in ("AesCTRWAddress", "AesCTRWOAddress", "AesCTRkeystream")
    k1 = 16 if size == "CTR128XTS256" else 32
    k2 = 16 if (size == "CTR128XTS256" or ctr) else 32
    return k1, k2


def _iee_layout(rng, tier, small=False, nmax=4, modes=None):
    length = _len_class(rng, tier, IEE_UNIT, small)
    base = _gen_base(rng, IEE_UNIT, rng.random() < 0.5)   # half of the images start inside a 4 KiB sector
    regs, cov = _gen_regions(rng, IEE_UNIT, base, length, nmax)
    blobs = []
    for s, e in regs:
        mode = core.pick(rng, modes or ["AesXTS", "AesXTS", "AesXTS", "AesCTRWAddress", "AesCTRWAddress", "Bypass",
                                        "AesCTRWOAddress", "AesCTRkeystream"])
        size = core.pick(rng, list(IEE_SIZES))
        n1, n2 = _iee_key_sizes(mode, size)
        k2 = _gen_key(rng, n2)
        if mode == "AesCTRWAddress" and rng.random() < 0.25 and length:
            # counter carry: the 32-bit counter word wraps somewhere inside the image
            first = max(s, base) >> 4
            word = (-(first + rng.randrange(0, max(1, length // 16)))) & 0xFFFFFFFF
            k2 = k2[:12] + word.to_bytes(4, "little")
        blobs.append({"start": s, "end": e, "mode": mode, "size": size, "key1": _gen_key(rng, n1).hex(), "key2": k2.hex(),
                      "lock": rng.random() < 0.3, "page_offset": core.pick(rng, [0, 0, 1, 0x1000, rng.getrandbits(32)])})
    return {"base": base, "len": length, "blobs": blobs, "cov": cov, "ibkek1": _gen_key(rng, 32).hex(), "ibkek2": _gen_key(rng, 32).hex(),
            "kb_addr": (base & 0xFFF00000) + 0x400 * rng.randrange(0, 16)}


def _iee_carry(blobs, base, padded_len):
    """True when a CTR-with-address context needs a counter word >= 2^32 for a block of the image."""
    for b in blobs:
        if b["mode"] in ("AesCTRWAddress", "AesCTRWOAddress", "AesCTRkeystream"):
            lo, hi = max(b["start"], base), min(b["end"], base + padded_len)
            if lo < hi:
                word = int.from_bytes(bytes.fromhex(b["key2"])[12:16], "little")
                if word + ((hi - 16) >> 4) >= 1 << 32:
                    return True
    return False


def _iee_check_contexts(ctx, seen, ctxs, blobs, where):
    if len(ctxs) != len(blobs):
        _emit_once(ctx, seen, "iee-blob-count-differs", {"where": where, "unwrapped": len(ctxs), "configured": len(blobs)})
        return
    for c, b in zip(ctxs, blobs):
        k1, k2 = bytes.fromhex(b["key1"]), bytes.fromhex(b["key2"])
        d = {"where": where, "blob": c.index, "configured": {k: (hex(v) if k in ("start", "end") else v) for k, v in b.items()},
             "unwrapped": {"key1": c.key1, "key2": c.key2, "start": hex(c.start), "end": hex(c.end), "mode": hex(c.mode),
                           "key_size": hex(c.key_size), "lock": hex(c.lock), "page_offset": c.page_offset, "crc_ok": c.crc_ok}}
        if c.key1 != k1 + bytes(32 - len(k1)) or c.key2 != k2 + bytes(32 - len(k2)):
            _emit_once(ctx, seen, "iee-blob-key-differs", d)
        if (c.start, c.end) != (b["start"], b["end"]):
            _emit_once(ctx, seen, "iee-blob-range-differs", d)
        if (c.mode, c.key_size, c.lock) != (IEE_MODES[b["mode"]], IEE_SIZES[b["size"]], hw.IEE_LOCK if b["lock"] else hw.IEE_UNLOCK) \
                or c.page_offset != b["page_offset"] or c.attr_reserved or c.reserved or c.version != hw.IEE_VERSION:
            _emit_once(ctx, seen, "iee-blob-attributes-differ", d)
        if not c.crc_ok:
            _emit_once(ctx, seen, "iee-blob-crc-invalid", d)
        ctx.count("iee_blob_unwrapped")


def _iee_judge_image(ctx, seen, ctxs, base, plain, stored, where, detail):
    if len(stored) not in (len(plain), len(_pad16(plain))):
        _emit_once(ctx, seen, "iee-output-length", dict(detail, where=where, stored_len=len(stored), plain_len=len(plain)))
        return False
    dec, owners = hw.iee_read(ctxs, base, _pad16(stored))
    ctx.count("iee_image_read")
    by = {c.index: c for c in ctxs}

    def judged(o):
        c = by[o]
        return "bypass" if c.mode == hw.IEE_MODE_BYPASS else "dec" if c.judged else "skip"

    ok = True
    for i, kind in _bad_blocks(plain, stored, dec, owners, judged):
        ok = False
        o = owners[i]
        d = dict(detail, where=where, address=hex(base + 16 * i), owner=o, kind=kind, plain=plain[16 * i:16 * i + 16],
                 stored=stored[16 * i:16 * i + 16], hardware_reads=dec[16 * i:16 * i + 16])
        if kind == "outside":
            mech = "iee-changed-outside-region"
        elif kind == "bypass":
            mech = "iee-bypass-mode-region-encrypted"
        elif kind == "plain":
            mech = "iee-plaintext-inside-region"
        else:
            mech = "iee-wrong-xts-tweak-or-key" if by[o].mode == hw.IEE_MODE_XTS else "iee-wrong-ctr-keystream"
        if o >= 0:
            d["context"] = [hex(by[o].start), hex(by[o].end), hex(by[o].mode), hex(by[o].key_size)]
        _emit_once(ctx, seen, mech, d)
    return ok


def _iee_make(lay):
    from spsdk.utils.crypto.iee import (Iee, IeeKeyBlob, IeeKeyBlobAttribute, IeeKeyBlobKeyAttributes,
                                        IeeKeyBlobLockAttributes, IeeKeyBlobModeAttributes)

    iee = Iee()
    kbs = []
    for b in lay["blobs"]:
        attr = IeeKeyBlobAttribute(IeeKeyBlobLockAttributes.LOCK if b["lock"] else IeeKeyBlobLockAttributes.UNLOCK,
                                   IeeKeyBlobKeyAttributes.from_label(b["size"]), IeeKeyBlobModeAttributes.from_label(b["mode"]))
        kb = IeeKeyBlob(attr, b["start"], b["end"], bytes.fromhex(b["key1"]), bytes.fromhex(b["key2"]), b["page_offset"])
        iee.add_key_blob(kb)
        kbs.append(kb)
    return iee, kbs


def _run_iee_low(ctx, lay, sigextra=()):
    rng = ctx.rng
    seen: set = set()
    base, length = lay["base"], lay["len"]
    image = _gen_image(rng, length)
    iee, kbs = _iee_make(lay)
    ib1, ib2 = bytes.fromhex(lay["ibkek1"]), bytes.fromhex(lay["ibkek2"])
    detail = {"base": hex(base), "len": length,
              "blobs": [[hex(b["start"]), hex(b["end"]), b["mode"], b["size"]] for b in lay["blobs"]]}
    form = rng.randrange(3)   # bytes, 0x-string or integer (a bare hex string is read as a decimal number and refused)
    a1, a2 = (ib1, ib2) if form == 0 else ("0x" + ib1.hex(), "0x" + ib2.hex()) if form == 1 else (int.from_bytes(ib1, "big"), int.from_bytes(ib2, "big"))
    try:
        table = iee.encrypt_key_blobs(a1, a2, lay["kb_addr"])
    except ValueError as e:
        if ib1 == ib2 and "duplicated keys" in str(e):   # OpenSSL refuses XTS with key1 == key2 (see ASSUMPTIONS)
            ctx.refused(["iee", "low", "ibkek1 == ibkek2"], "XTS duplicated keys")
            return
        raise
    try:
        ctxs, _plain = hw.iee_unwrap_table(table, ib1, ib2, lay["kb_addr"])
    except hw.Reject as e:
        ctx.violation("iee-blob-does-not-unwrap", dict(detail, why=str(e), keyblob_address=hex(lay["kb_addr"]), table=table))
        return
    if len(table) != 384 or _plain != iee.get_key_blobs():
        _emit_once(ctx, seen, "iee-table-size-or-plain-table-differs", dict(detail, table_len=len(table)))
    _iee_check_contexts(ctx, seen, ctxs, lay["blobs"], "Iee.encrypt_key_blobs")
    msig = sorted({b["mode"] + "/" + b["size"] for b in lay["blobs"]})
    if not seen:
        ctx.ok(["iee", "blobs", len(kbs), msig, sorted({b["lock"] for b in lay["blobs"]})], n=len(kbs))

    carry = _iee_carry(lay["blobs"], base, len(_pad16(image)))
    dup = any(b["mode"] in ("AesXTS", "Bypass") and b["key1"] == b["key2"] for b in lay["blobs"])
    try:
        enc = iee.encrypt_image(image, base)
    except ValueError as e:
        if dup and "duplicated keys" in str(e):
            ctx.refused(["iee", "low", "key1 == key2"], "XTS duplicated keys")
            return
        raise
    except OverflowError as e:
        if not carry:
            raise
        ctx.violation("iee-ctr-counter-carry-overflowerror",
                      dict(detail, exception=core.exc_brief(e), note="counter word nonce[12:16] + (A >> 4) reaches 2^32 inside the image"))
        return
    n0 = len(seen)
    ok = _iee_judge_image(ctx, seen, ctxs, base, image, enc, "Iee.encrypt_image", detail)
    if iee.encrypt_image(image, base) != enc:
        _emit_once(ctx, seen, "iee-encrypt-image-not-repeatable", detail)
    if ok and len(seen) == n0:
        act = [(c.start, c.end) for c in ctxs if c.mode in (hw.IEE_MODE_XTS, hw.IEE_MODE_CTR_ADDR)]
        ctx.ok(["iee", "low", _len_sig(length, IEE_UNIT), len(kbs), _cov_sig(act, base, length), msig, "carry" if carry else "", *sigextra],
               sample={"base": hex(base), "len": length, "readback_equals_plaintext": True,
                       "contexts": [[hex(c.start), hex(c.end), hex(c.mode), hex(c.key_size)] for c in ctxs]})

    cuts = _splits(rng, length, IEE_UNIT, IEE_UNIT)
    if cuts:
        parts, prev = [], 0
        for cpt in cuts + [length]:
            parts.append(iee.encrypt_image(image[prev:cpt], base + prev))
            prev = cpt
        ctx.count("composition_checked")
        if b"".join(parts) != enc:
            _emit_once(ctx, seen, "iee-composition-differs", dict(detail, cuts=[hex(c) for c in cuts]))
        else:
            ctx.ok(["iee", "composition", len(cuts) + 1, msig])

    # IeeKeyBlob.encrypt_image directly: sector-aligned window inside one judged, encrypting context
    cand = [(kb, c) for kb, c in zip(kbs, ctxs) if c.mode in (hw.IEE_MODE_XTS, hw.IEE_MODE_CTR_ADDR)]
    if cand:
        kb, c = core.pick(rng, cand)
        a = c.start + IEE_UNIT * rng.randrange(0, (c.end - c.start) // IEE_UNIT)
        n = min(c.end - a, core.pick(rng, [16, 0x800, 0x1000, 0x1010, 0x2000, rng.randrange(1, 0x2800)]))
        data = _gen_image(rng, n)
        word = int.from_bytes(c.key2[12:16], "little")
        if not (c.mode == hw.IEE_MODE_CTR_ADDR and word + ((a + len(_pad16(data)) - 16) >> 4) >= 1 << 32) and not dup:
            e2 = kb.encrypt_image(a, data)
            d2, _ = hw.iee_read([c], a, _pad16(bytes(e2)))
            ctx.count("iee_image_read")
            if len(e2) != len(_pad16(data)) or d2[:n] != data:
                _emit_once(ctx, seen, "iee-keyblob-encrypt-image-wrong",
                           dict(detail, base_address=hex(a), n=n, context=[hex(c.start), hex(c.end), hex(c.mode)]))
            else:
                ctx.ok(["iee", "keyblob-direct", hex(c.mode), hex(c.key_size), "multi-sector" if n > IEE_UNIT else "one-sector"])


# -------------------------------------------------------------------------------------- BEE (low)
def _bee_layout(rng, tier, aligned=None, small=False):
    length = _len_class(rng, tier, BEE_UNIT, small)
    if aligned is None:
        aligned = rng.random() < 0.45
    base = _gen_base(rng, BEE_UNIT, aligned)
    regs, cov = _gen_regions(rng, BEE_UNIT, base, length)
    sel = core.pick(rng, ["engine0", "engine1", "both"]) if len(regs) > 1 else core.pick(rng, ["engine0", "engine1"])
    engines = {0: [], 1: []}
    for i, (s, e) in enumerate(regs):
        eng = {"engine0": 0, "engine1": 1}.get(sel, i if i < 2 else rng.randrange(2))
        engines[eng].append([s, e - s, rng.randrange(4)])
    out = []
    for idx in (0, 1):
        if not engines[idx]:
            out.append(None)
            continue
        cnt = _gen_key(rng, 12) + bytes(4)
        out.append({"user_key": _gen_key(rng, 16).hex(), "kib_key": core.rand_bytes(rng, 16).hex(), "kib_iv": core.rand_bytes(rng, 16).hex(),
                    "counter": None if rng.random() < 0.15 else cnt.hex(), "lock": core.pick(rng, [0, 0, 1, rng.getrandbits(32)]),
                    "facs": engines[idx]})
    return {"base": base, "len": length, "engines": out, "cov": cov, "sel": sel}


def _bee_headers(lay, history=False):
    from spsdk.image.bee import BeeFacRegion, BeeKIB, BeeProtectRegionBlock, BeeProtectRegionBlockAesMode, BeeRegionHeader

    hdrs = []
    for e in lay["engines"]:
        if e is None:
            hdrs.append(None)
            continue
        prdb = BeeProtectRegionBlock(BeeProtectRegionBlockAesMode.CTR, e["lock"], bytes.fromhex(e["counter"]) if e["counter"] else None)
        h = BeeRegionHeader(prdb, bytes.fromhex(e["user_key"]), BeeKIB(bytes.fromhex(e["kib_key"]), bytes.fromhex(e["kib_iv"])))
        for i, (s, ln, lvl) in enumerate(e["facs"]):
            h.add_fac(BeeFacRegion(s, ln, lvl))
            if history and i + 1 < len(e["facs"]):
                h.export()  # the header was written out (or came from a file) before the later regions were added
        hdrs.append(h)
    return hdrs


def _bee_check_contexts(ctx, seen, ctxs, engines, where, check_kib=True):
    for c in ctxs:
        e = engines[c.index]
        want = tuple((s, s + ln, lvl) for s, ln, lvl in e["facs"])
        d = {"where": where, "engine": c.index, "configured": {"facs": [[hex(a), hex(b), l] for a, b, l in want], "counter": e.get("counter"),
                                                                "lock": e.get("lock")},
             "unwrapped": {"facs": [[hex(a), hex(b), l] for a, b, l in c.facs], "counter": c.counter, "lock": c.lock, "mode": c.mode,
                           "start": hex(c.start), "end": hex(c.end), "kib_key": c.kib_key}}
        if c.facs != want or c.fac_count != len(want) or (c.start, c.end) != (min(a for a, _, _ in want), max(b for _, b, _ in want)):
            _emit_once(ctx, seen, "bee-header-range-differs", d)
        if e.get("counter") is not None and c.counter.hex() != e["counter"]:
            _emit_once(ctx, seen, "bee-header-counter-differs", d)
        if c.counter[12:] != bytes(4):
            _emit_once(ctx, seen, "bee-header-counter-tail-nonzero", d)
        if c.mode != hw.BEE_MODE_CTR or (e.get("lock") is not None and c.lock != e["lock"]) or not c.reserved_ok:
            _emit_once(ctx, seen, "bee-header-attributes-differ", d)
        if check_kib and (c.kib_key.hex(), c.kib_iv.hex()) != (e["kib_key"], e["kib_iv"]):
            _emit_once(ctx, seen, "bee-header-kib-differs", d)
        ctx.count("bee_header_unwrapped")


def _bee_judge_image(ctx, seen, ctxs, base, plain, stored, where, detail):
    if len(stored) not in (len(plain), len(_pad16(plain))):
        _emit_once(ctx, seen, "bee-output-length", dict(detail, where=where, stored_len=len(stored), plain_len=len(plain)))
        return False
    dec, owners = hw.bee_read(ctxs, base, _pad16(stored))
    ctx.count("bee_image_read")
    by = {c.index: c for c in ctxs}
    ok = True
    for i, kind in _bad_blocks(plain, stored, dec, owners, lambda o: "dec"):
        ok = False
        addr = base + 16 * i
        o = owners[i]
        d = dict(detail, where=where, address=hex(addr), engine=o, kind=kind, plain=plain[16 * i:16 * i + 16],
                 stored=stored[16 * i:16 * i + 16], hardware_reads=dec[16 * i:16 * i + 16])
        if kind == "outside":
            mech = "bee-changed-outside-fac"
        elif kind == "garbled":
            mech = "bee-wrong-keystream"
        else:
            us, ue = _walk_unit(base, len(plain), addr, BEE_UNIT)
            fac = next((s, e) for s, e, _ in by[o].facs if s <= addr < e)
            d["block_walked_from_base"] = [hex(us), hex(ue)]
            d["fac"] = [hex(fac[0]), hex(fac[1])]
            mech = "bee-unaligned-base-plaintext-in-fac" if base % BEE_UNIT and us < fac[0] <= ue else "bee-plaintext-inside-fac"
        _emit_once(ctx, seen, mech, d)
    return ok


def _bee_export(ctx, seen, hdrs, image, base, detail, where):
    """BeeNxp(...).export_image() with the refusal of an in-domain layout classified."""
    from spsdk.exceptions import SPSDKError
    from spsdk.image.bee import BeeNxp

    try:
        return BeeNxp(hdrs, image, base).export_image()
    except SPSDKError as e:
        if "Invalid range of region" in str(e) and base % BEE_UNIT:
            mech = "bee-unaligned-base-refused-block-straddles-fac-end"
        else:
            mech = "bee-export-image-refuses-valid-layout"
        _emit_once(ctx, seen, mech, dict(detail, where=where, refusal=str(e)[:200]))
        return None


def _run_bee_low(ctx, lay, sigextra=()):
    from spsdk.image.bee import BeeNxp, BeeRegionHeader

    rng = ctx.rng
    seen: set = set()
    base, length = lay["base"], lay["len"]
    image = _gen_image(rng, length)
    # a third of the header objects have a history (written out between two add_fac calls), and the image is asked for
    # BEFORE the headers (the order `nxpimage bee export` uses): the data must be encrypted for the regions the object holds
    # NOW, i.e. for the regions the headers exported afterwards list
    history = rng.random() < 0.33
    hdrs = _bee_headers(lay, history)
    detail = {"base": hex(base), "len": length,
              "facs": [[i, hex(s), hex(s + ln)] for i, e in enumerate(lay["engines"]) if e for s, ln, _ in e["facs"]]}
    early = None
    if history:
        ctx.count("bee_header_histories")
        try:
            early = BeeNxp(hdrs, image, base).export_image()
        except Exception as e:  # pylint: disable=broad-except
            if not core.is_refusal(e) and core.origin_of(e) != "repo":
                raise
            early = None
    exported = BeeNxp(hdrs, image, base).export_headers()
    ctxs = []
    for i, (h, raw) in enumerate(zip(hdrs, exported)):
        if (h is None) != (raw is None):
            _emit_once(ctx, seen, "bee-export-headers-slot", dict(detail, engine=i))
            continue
        if h is None:
            continue
        try:
            ctxs.append(hw.bee_unwrap_header(raw, bytes.fromhex(lay["engines"][i]["user_key"]), i))
        except hw.Reject as e:
            ctx.violation("bee-header-does-not-unwrap", dict(detail, engine=i, why=str(e), header=raw))
            return
        if len(raw) != 0x200 or BeeRegionHeader.parse(raw, sw_key=bytes.fromhex(lay["engines"][i]["user_key"])) != h:
            _emit_once(ctx, seen, "bee-header-parse-export-differs", dict(detail, engine=i))
    _bee_check_contexts(ctx, seen, ctxs, lay["engines"], "BeeNxp.export_headers")
    nfac = sum(len(e["facs"]) for e in lay["engines"] if e)
    if not seen:
        ctx.ok(["bee", "headers", lay["sel"], nfac, sorted({l for e in lay["engines"] if e for _, _, l in e["facs"]})], n=len(ctxs))

    n0 = len(seen)
    al = "aligned" if base % BEE_UNIT == 0 else "unaligned"
    enc = _bee_export(ctx, seen, hdrs, image, base, detail, "BeeNxp.export_image")
    if enc is not None:
        ok = _bee_judge_image(ctx, seen, ctxs, base, image, enc, "BeeNxp.export_image", detail)
        if length % 16 == 0 and BeeNxp(hdrs, image, base).export_image() != enc:
            _emit_once(ctx, seen, "bee-export-image-not-repeatable", detail)
        if early is not None and early[:length // 16 * 16] != enc[:length // 16 * 16]:
            _emit_once(ctx, seen, "bee-image-exported-before-the-headers-differs-from-the-one-after", detail)
        # the SAME object asked twice: the result depends only on (keys, absolute address, plaintext), not on what the
        # object did before (the last partial block is padded with random bytes: compared over whole blocks only)
        same = BeeNxp(hdrs, image, base)
        n16 = length // 16 * 16
        first = same.export_image()
        second = same.export_image()
        if first[:n16] != enc[:n16] or second[:n16] != enc[:n16] or same.base_address != base or bytes(same.input_image) != image:
            _emit_once(ctx, seen, "bee-export-image-second-call-on-same-object-differs",
                       dict(detail, first_equal=first[:n16] == enc[:n16], second_equal=second[:n16] == enc[:n16],
                            base_address_after=hex(same.base_address)))
        if ok and len(seen) == n0:
            ctx.ok(["bee", "low", _len_sig(length, BEE_UNIT), al, lay["sel"], nfac,
                    _cov_sig([(s, e) for c in ctxs for s, e, _ in c.facs], base, length), *sigextra],
                   sample={"base": hex(base), "len": length, "readback_equals_plaintext": True,
                           "facs": [[c.index, hex(s), hex(e), l] for c in ctxs for s, e, l in c.facs]})
        cuts = _splits(rng, length, BEE_UNIT, 16)
        if cuts:
            parts, prev = [], 0
            for cpt in cuts + [length]:
                parts.append(_bee_export(ctx, seen, hdrs, image[prev:cpt], base + prev, dict(detail, piece_at=hex(base + prev)),
                                         "BeeNxp.export_image (piece)"))
                prev = cpt
            ctx.count("composition_checked")
            unal = bool(base % BEE_UNIT or any(c % BEE_UNIT for c in cuts))
            if None in parts:
                pass   # the refusal of a piece has been reported by _bee_export
            elif b"".join(parts)[:length] != enc[:length]:
                _emit_once(ctx, seen, "bee-unaligned-base-composition-differs" if unal else "bee-composition-differs",
                           dict(detail, cuts=[hex(c) for c in cuts]))
            else:
                ctx.ok(["bee", "composition", "pieces-off-unit" if unal else "pieces-on-unit", len(cuts) + 1, lay["sel"]])


# ------------------------------------------------------------------------------ directed witnesses
def _w_otfad(base, length, blobs, byte_swap=False):
    return {"base": base, "len": length, "cov": "directed", "byte_swap": byte_swap, "kek": "000102030405060708090a0b0c0d0e0f",
            "swap_cnt": 0, "reversed": False,
            "blobs": [{"start": s, "end": e, "key": "b1a0c56af31e98cd6936a79d9e6f829d", "ctr": "5689fab8b4bfb264", "flags": 3}
                      for s, e in blobs]}


def _w_iee(base, length, mode, size, key2=None):
    n1, n2 = _iee_key_sizes(mode, size)
    return {"base": base, "len": length, "cov": "directed", "ibkek1": bytes(range(32)).hex(), "ibkek2": bytes(range(32, 64)).hex(),
            "kb_addr": base & 0xFFF00000,
            "blobs": [{"start": base, "end": base + 0x3000, "mode": mode, "size": size, "key1": bytes(range(n1)).hex(),
                       "key2": key2 or bytes(range(0x20, 0x20 + n2)).hex(), "lock": False, "page_offset": 0}]}


def _w_bee(base, length, facs):
    return {"base": base, "len": length, "cov": "directed", "sel": "engine0",
            "engines": [{"user_key": "0123456789abcdeffedcba9876543210", "kib_key": bytes(range(16)).hex(), "kib_iv": bytes(range(16, 32)).hex(),
                         "counter": bytes(range(0xA0, 0xAC)).hex() + "00000000", "lock": 0, "facs": facs}, None]}


WITNESSES = {
    # unit walked from the base address: [0x08000E00, 0x080011FF] straddles the context start 0x08001000
    "otfad-unaligned-base-context-start": ("otfad", _w_otfad(0x08000E00, 0x800, [(0x08001000, 0x08001FFF)])),
    # ... and [0x08001E00, 0x080021FF] straddles the context end 0x08001FFF
    "otfad-unaligned-base-context-end": ("otfad", _w_otfad(0x08001600, 0x1000, [(0x08001000, 0x08001FFF)])),
    "otfad-aligned-base-reference": ("otfad", dict(_w_otfad(0x08000C00, 0x1800, [(0x08001000, 0x08001FFF)], True), direct=[0, 0x400])),
    # KeyBlob.encrypt_image(base_address=0x08001400, data) without counter_value: keystream of 0x08001000
    "otfad-keyblob-direct-inside-region": ("otfad", dict(_w_otfad(0x08001000, 0x400, [(0x08001000, 0x08002000)]), direct=[0x400, 0x200])),
    "iee-bypass": ("iee", _w_iee(0x30001000, 0x2000, "Bypass", "CTR256XTS512")),
    # nonce word 0xFFFFFFF0 + (0x30001000 >> 4) passes 2^32
    "iee-ctr-carry": ("iee", _w_iee(0x30001000, 0x2000, "AesCTRWAddress", "CTR128XTS256", bytes(12).hex() + "f0ffffff")),
    "iee-xts-reference": ("iee", _w_iee(0x30001000, 0x2810, "AesXTS", "CTR256XTS512")),
    # DESIGN.md section 3: base 0x6000CE00, FAC from 0x6000D000: bytes 0x6000D000..0x6000D1FF stay plain
    "bee-unaligned-base-plaintext-in-fac": ("bee", _w_bee(0x6000CE00, 0x1000, [[0x6000D000, 0x2000, 0]])),
    # block [0x6000DE00, 0x6000E1FF] starts inside the FAC and runs over its end: refused
    "bee-unaligned-base-refused": ("bee", _w_bee(0x6000D200, 0x1400, [[0x6000D000, 0x1000, 1]])),
    "bee-aligned-base-reference": ("bee", _w_bee(0x6000CC00, 0x1800, [[0x6000D000, 0x1000, 2]])),
}


# --------------------------------------------------------------------------------------- run_case
def run_case(case, ctx):
    import logging

    logging.disable(logging.CRITICAL)   # the encryptors warn for every image that is not inside a key blob
    kind = case["kind"]
    rng = ctx.rng
    if kind == "witness":
        eng, lay = WITNESSES[case["name"]]
        {"otfad": _run_otfad_low, "iee": _run_iee_low, "bee": _run_bee_low}[eng](ctx, json.loads(json.dumps(lay)), ("witness", case["name"]))
    elif kind == "otfad_low":
        _run_otfad_low(ctx, _otfad_layout(rng, ctx.tier))
    elif kind == "iee_low":
        _run_iee_low(ctx, _iee_layout(rng, ctx.tier))
    elif kind == "bee_low":
        _run_bee_low(ctx, _bee_layout(rng, ctx.tier))
    elif kind == "families":
        _run_families(ctx)
    elif kind in ("otfad_cfg", "otfad_cli"):
        _run_otfad_cfg(ctx, case, cli=kind.endswith("cli"))
    elif kind in ("iee_cfg", "iee_cli"):
        _run_iee_cfg(ctx, case, cli=kind.endswith("cli"))
    elif kind in ("bee_cfg", "bee_cli"):
        _run_bee_cfg(ctx, case, cli=kind.endswith("cli"))
    else:
        raise core.Inconclusive(f"unknown case kind {kind}")


# -------------------------------------------------------------------- configuration path and CLI
def _families(feature):
    from spsdk.utils.database import get_families

    return sorted(get_families(feature))


def _run_families(ctx):
    """Observation only: what the database under test says about the three engines."""
    from spsdk.utils.database import get_db

    o = _families("otfad")
    ctx.note("otfad_families", o)
    ctx.note("iee_families", _families("iee"))
    ctx.note("bee_families", _families("bee"))
    swapped = [f for f in o if get_db(f, "latest").get_bool("otfad", "byte_swap", False)]
    ctx.note("otfad_families_with_byte_swap_true_not_applied_by_binary_image", swapped)
    ctx.ok(["families"], nontrivial=False)


def _wdir(ctx, tag):
    d = os.path.join(ctx.workdir, f"{tag}{ctx.case_index}")
    os.makedirs(os.path.join(d, "out"), exist_ok=True)
    return d


def _num(rng, v, width=None):
    """A number the way users write it in a configuration file."""
    r = rng.randrange(3)
    if r == 0 and width is None:
        return v
    if r == 1 and width is None:
        return hex(v)
    return "0x%0*X" % (width or 8, v) if rng.random() < 0.5 else "0x%0*x" % (width or 8, v)


def _write(path, data, mode="wb"):
    with open(path, mode) as f:
        f.write(data)


def _cli(ctx, argv):
    """Run nxpimage through click's CliRunner.  Returns None on success, else the SPSDKError (refusal)."""
    from click.testing import CliRunner

    from spsdk.apps import nxpimage

    r = CliRunner().invoke(nxpimage.main, argv, catch_exceptions=True)
    ctx.count("cli_path")
    if r.exit_code == 0 and (r.exception is None or isinstance(r.exception, SystemExit)):
        return None
    if r.exception is not None and core.is_refusal(r.exception):
        return r.exception
    if r.exception is not None and not isinstance(r.exception, SystemExit):
        raise r.exception   # a crash of the tree under test: reported as an escape by the worker
    raise core.Inconclusive(f"nxpimage {' '.join(argv[:2])} exit code {r.exit_code}: {r.output[-300:]}")


def _extra_blobs(rng, regs, base, length, top, gap_align=16):
    """Up to two more small data blobs: inside a region the main image does not touch, or after everything."""
    out = []
    used = [(base, base + length + 16)]
    for _ in range(rng.randrange(0, 3)):
        free = [(s, e) for s, e in regs if all(e <= a or s >= b for a, b in used)]
        if free and rng.random() < 0.6:
            s, e = core.pick(rng, free)
            a = s + gap_align * rng.randrange(0, max(1, (e - s) // gap_align // 2))
            n = rng.randrange(1, min(0x900, e + 0x400 - a))
        else:
            a = -(-top // gap_align) * gap_align + 0x1000 + gap_align * rng.randrange(0, 0x1000 // gap_align)
            n = rng.randrange(1, 0x600)
            top = a + n + 16
        if all(a + n + 16 <= x or a >= y for x, y in used):
            out.append((a, n))
            used.append((a, a + n + 16))
    return out


def _run_otfad_cfg(ctx, case, cli):
    from spsdk.exceptions import SPSDKError
    from spsdk.utils.crypto.otfad import OtfadNxp
    from spsdk.utils.database import get_db
    from spsdk.utils.schema_validator import check_config

    rng = ctx.rng
    fams = _families("otfad")
    if cli:
        fam = core.pick(rng, fams)
    elif case["fam"] < len(fams):
        fam = fams[case["fam"]]
    else:
        return
    db = get_db(fam, "latest")
    swap_cnt = db.get_int("otfad", "keyblob_byte_swap_cnt")
    rev = db.get_bool("otfad", "reversed_scramble_key", False)
    max_cnt, rec = db.get_int("otfad", "key_blob_max_cnt"), db.get_int("otfad", "key_blob_rec_size")
    lay = _otfad_layout(rng, ctx.tier, small=True)
    while not lay["len"]:
        lay = _otfad_layout(rng, ctx.tier, small=True)
    lay["blobs"] = lay["blobs"][:max_cnt]
    base, length = lay["base"], lay["len"]
    regs = [(b["start"], _otfad_last(b["end"]) + 1) for b in lay["blobs"]]
    lowest = min([base] + [s for s, _ in regs])
    table = max(0, (lowest // 0x400 - rng.randint(1, 3)) * 0x400)
    if table + 0x400 > lowest:
        table = lowest // 0x400 * 0x400 - 0x400
    top = max([base + length] + [e for _, e in regs])
    blobs = [(base, length)] + _extra_blobs(rng, regs, base, length, top)
    d = _wdir(ctx, "otfad")
    datas = []
    for i, (a, n) in enumerate(blobs):
        data = _gen_image(rng, n)
        _write(os.path.join(d, f"blob{i}.bin"), data)
        datas.append((a, data))
    kek = bytes.fromhex(lay["kek"])
    kform = rng.randrange(3)
    if kform == 1:
        _write(os.path.join(d, "kek.bin"), kek)
    elif kform == 2:
        _write(os.path.join(d, "kek.txt"), kek.hex(), "w")
    cfg = {"family": fam, "output_folder": os.path.join(d, "out"), "kek": [kek.hex(), "kek.bin", "kek.txt"][kform],
           "otfad_table_address": _num(rng, table),
           "data_blobs": [{"data": f"blob{i}.bin", "address": _num(rng, a)} for i, (a, _n) in enumerate(blobs)], "key_blobs": []}
    for b in lay["blobs"]:
        kb = {"aes_key": "0x" + b["key"] if rng.random() < 0.7 else int(b["key"], 16),
              "aes_ctr": "0x" + b["ctr"] if rng.random() < 0.7 else int(b["ctr"], 16),
              "start_address": _num(rng, b["start"]), "end_address": _num(rng, b["end"])}
        f = b["flags"]
        if not (f & 2 and rng.random() < 0.5):
            kb["aes_decryption_enable"] = bool(f & 2)
        if not (f & 1 and rng.random() < 0.5):
            kb["valid"] = bool(f & 1)
        if not (f & 4 and rng.random() < 0.5):
            kb["read_only"] = bool(f & 4)
        cfg["key_blobs"].append(kb)
    mask = align = None
    # the family's own validation schema says whether a configuration may carry `key_scramble`; what it may carry is applied
    offered = any("key_scramble" in (sc.get("properties") or {}) for sc in OtfadNxp.get_validation_schemas(fam))
    if "scramble" in lay and offered:
        mask, align = lay["scramble"]
        cfg["key_scramble"] = {"key_scramble_mask": _num(rng, mask), "key_scramble_align": _num(rng, align, 2)}
    alignment = core.pick(rng, [16, 512])
    detail = {"family": fam, "table": hex(table), "data_blobs": [[hex(a), len(x)] for a, x in datas],
              "key_blobs": [[hex(b["start"]), hex(b["end"]), b["flags"]] for b in lay["blobs"]], "path": "cli" if cli else "config"}
    seen: set = set()
    try:
        if cli:
            _write(os.path.join(d, "cfg.json"), json.dumps(cfg, indent=1), "w")
            err = _cli(ctx, ["otfad", "export", "-c", os.path.join(d, "cfg.json")] + (["-a", str(alignment)] if alignment != 512 or rng.random() < 0.5 else []))
            if err is not None:
                raise err
            with open(os.path.join(d, "out", "otfad_whole_image.bin"), "rb") as f:
                whole = f.read()
            with open(os.path.join(d, "out", "OTFAD_Table.bin"), "rb") as f:
                if f.read() != whole[:rec * max_cnt]:
                    _emit_once(ctx, seen, "otfad-cli-table-file-differs-from-whole-image", detail)
        else:
            check_config(cfg, OtfadNxp.get_validation_schemas_family(), search_paths=[d])
            check_config(cfg, OtfadNxp.get_validation_schemas(fam), search_paths=[d])
            otfad = OtfadNxp.load_from_config(cfg, d, search_paths=[d])
            whole = otfad.binary_image(data_alignment=alignment).export()
    except SPSDKError as e:
        ctx.refused(["otfad", "cli" if cli else "cfg", fam], str(e))
        ctx.note("otfad_cfg_refusal", {"why": str(e)[:200], "detail": detail})
        return
    ctx.count("config_path")
    try:
        ctxs = hw.otfad_unwrap_table(whole, kek, max_cnt, mask, align, rev, swap_cnt)
    except hw.Reject as e:
        ctx.violation("otfad-blob-does-not-unwrap", dict(detail, why=str(e), scramble=[mask, align], db_reversed=rev, db_swap_cnt=swap_cnt,
                                                         table=whole[:rec * max_cnt]))
        return
    n = len(lay["blobs"])
    _otfad_check_contexts(ctx, seen, ctxs[:n], lay["blobs"], "OtfadNxp.binary_image")
    if any(c.vld for c in ctxs[n:]):
        _emit_once(ctx, seen, "otfad-filler-blob-valid", detail)
    if not seen:
        ctx.ok(["otfad", "cli" if cli else "cfg", "blobs", fam, n, "scr" if mask is not None else "noscr"], n=n)
    for a, data in datas:
        n0 = len(seen)
        off = a - table
        stored = whole[off:off + len(_pad16(data))]
        if len(stored) < len(data):
            _emit_once(ctx, seen, "otfad-whole-image-too-short", dict(detail, blob=hex(a), whole_len=len(whole)))
            continue
        ok = _otfad_judge_image(ctx, seen, ctxs, a, data, stored, False, "OtfadNxp.binary_image", dict(detail, blob=hex(a)))
        if ok and len(seen) == n0:
            ctx.ok(["otfad", "cli" if cli else "cfg", fam, _len_sig(len(data), OTFAD_UNIT), "aligned" if a % OTFAD_UNIT == 0 else "unaligned",
                    _cov_sig([(c.start, c.end + 1) for c in ctxs if c.vld and c.ade], a, len(data)), len(datas)],
                   sample={"family": fam, "table": hex(table), "blob": hex(a), "len": len(data), "readback_equals_plaintext": True})


def _run_iee_cfg(ctx, case, cli):
    from spsdk.exceptions import SPSDKError
    from spsdk.utils.crypto.iee import IeeNxp
    from spsdk.utils.database import get_db
    from spsdk.utils.schema_validator import check_config

    rng = ctx.rng
    fams = _families("iee")
    if cli:
        fam = core.pick(rng, fams)
    elif case["fam"] < len(fams):
        fam = fams[case["fam"]]
    else:
        return
    db = get_db(fam, "latest")
    gen_kb = db.get_bool("iee", "generate_keyblob")
    props = set()
    for sch in IeeNxp.get_validation_schemas(fam):
        props |= set(sch.get("properties", {}))
    single = "key_blobs" not in props   # the ELE families take one 'key_blob' and no IBKEK
    lay = _iee_layout(rng, ctx.tier, small=True, nmax=1 if single else db.get_int("iee", "key_blob_max_cnt"))
    while not lay["len"]:
        lay = _iee_layout(rng, ctx.tier, small=True, nmax=1 if single else 4)
    base, length = lay["base"], lay["len"]
    regs = [(b["start"], b["end"]) for b in lay["blobs"]]
    lowest = min([base] + [s for s, _ in regs])
    kb_addr = max(0, (lowest // IEE_UNIT - rng.randint(1, 3)) * IEE_UNIT)
    if kb_addr + IEE_UNIT > lowest:
        kb_addr = lowest - IEE_UNIT
    kb_addr += 0x400 * rng.randrange(0, 3)
    top = max([base + length] + [e for _, e in regs])
    blobs = [(base, length)] + _extra_blobs(rng, regs, base, length, top, IEE_UNIT)
    d = _wdir(ctx, "iee")
    datas = []
    names = []
    for i, (a, n) in enumerate(blobs):
        data = b"\x80" + _gen_image(rng, n)[1:]   # never mistaken for a text (HEX/S19) file by the loader
        if n >= 0x60 and rng.random() < 0.35:
            # the same bytes as an S-record / Intel-HEX file with a hole: two segments of whole blocks, each of which the
            # engine must read back at ITS OWN address (the file's address space starts at 0 = the configured address)
            from vf.refs import binimg

            l1 = 16 * rng.randint(1, max(1, n // 48))
            s2 = l1 + 16 * rng.randint(1, max(1, (n - l1) // 32))
            l2 = (n - s2) // 16 * 16
            if l2 >= 16:
                fmt = core.pick(rng, ["s19", "hex"])
                segs = [(0, data[:l1]), (s2, data[s2:s2 + l2])]
                _write(os.path.join(d, f"blob{i}.{fmt}"), binimg.write_srec(segs) if fmt == "s19" else binimg.write_ihex(segs), "w")
                names.append(f"blob{i}.{fmt}")
                datas.extend((a + o, x) for o, x in segs)
                ctx.count("iee_sparse_data_blobs")
                continue
        _write(os.path.join(d, f"blob{i}.bin"), data)
        names.append(f"blob{i}.bin")
        datas.append((a, data))
    cfg = {"family": fam, "output_folder": os.path.join(d, "out"), "keyblob_address": _num(rng, kb_addr),
           "data_blobs": [{"data": names[i], "address": _num(rng, a)} for i, (a, _n) in enumerate(blobs)]}
    kbl = []
    for b in lay["blobs"]:
        kb = {"aes_mode": b["mode"], "key_size": b["size"], "key1": "0x" + b["key1"], "key2": "0x" + b["key2"],
              "start_address": _num(rng, b["start"]), "end_address": _num(rng, b["end"])}
        if b["lock"] or rng.random() < 0.5:
            kb["region_lock"] = b["lock"]
        if b["page_offset"] or rng.random() < 0.5:
            kb["page_offset"] = b["page_offset"]
        kbl.append(kb)
    if single:
        cfg["key_blob"] = kbl[0]
        ib1, ib2 = bytes(range(32)), bytes(range(32, 64))   # defaults of load_from_config
    else:
        cfg["key_blobs"] = kbl
        ib1, ib2 = bytes.fromhex(lay["ibkek1"]), bytes.fromhex(lay["ibkek2"])
        cfg["ibkek1"], cfg["ibkek2"] = "0x" + ib1.hex(), "0x" + ib2.hex()
    detail = {"family": fam, "keyblob_address": hex(kb_addr), "data_blobs": [[hex(a), len(x)] for a, x in datas],
              "key_blobs": [[hex(b["start"]), hex(b["end"]), b["mode"], b["size"]] for b in lay["blobs"]], "path": "cli" if cli else "config"}
    seen: set = set()
    dup = ib1 == ib2 or any(b["mode"] in ("AesXTS", "Bypass") and b["key1"] == b["key2"] for b in lay["blobs"])
    carry = any(_iee_carry(lay["blobs"], a, len(_pad16(x))) for a, x in datas)
    table = None
    try:
        if cli:
            _write(os.path.join(d, "cfg.json"), json.dumps(cfg, indent=1), "w")
            err = _cli(ctx, ["iee", "export", "-c", os.path.join(d, "cfg.json")])
            if err is not None:
                raise err
            with open(os.path.join(d, "out", "iee_whole_image.bin"), "rb") as f:
                whole = f.read()
            if gen_kb:
                with open(os.path.join(d, "out", "iee_keyblob.bin"), "rb") as f:
                    if f.read() != whole[:384]:
                        _emit_once(ctx, seen, "iee-cli-keyblob-file-differs-from-whole-image", detail)
        else:
            check_config(cfg, IeeNxp.get_validation_schemas_family(), search_paths=[d])
            check_config(cfg, IeeNxp.get_validation_schemas(fam), search_paths=[d])
            iee = IeeNxp.load_from_config(cfg, d, search_paths=[d])
            whole = iee.binary_image().export()
            if not gen_kb:
                table = iee.export_key_blobs()
    except SPSDKError as e:
        ctx.refused(["iee", "cli" if cli else "cfg", fam], str(e))
        ctx.note("iee_cfg_refusal", {"why": str(e)[:200], "detail": detail})
        return
    except ValueError as e:
        if dup and "duplicated keys" in str(e):
            ctx.refused(["iee", "cli" if cli else "cfg", "key1 == key2"], "XTS duplicated keys")
            return
        raise
    except OverflowError as e:
        if not carry:
            raise
        ctx.violation("iee-ctr-counter-carry-overflowerror", dict(detail, exception=core.exc_brief(e)))
        return
    ctx.count("config_path")
    if gen_kb:
        table = whole[:384]
    ctxs = None
    if table is not None:
        try:
            ctxs, _ = hw.iee_unwrap_table(table, ib1, ib2, kb_addr)
        except hw.Reject as e:
            ctx.violation("iee-blob-does-not-unwrap", dict(detail, why=str(e), table=table))
            return
        _iee_check_contexts(ctx, seen, ctxs, lay["blobs"], "IeeNxp.binary_image")
    else:
        # CLI on a family whose key blob goes to the ELE (none is exported): contexts straight from the configuration
        ctxs = [hw.IeeContext(i, hw.IEE_TAG, hw.IEE_VERSION, hw.IEE_UNLOCK, IEE_SIZES[b["size"]], IEE_MODES[b["mode"]], 0, 0,
                              bytes.fromhex(b["key1"]).ljust(32, b"\0"), bytes.fromhex(b["key2"]).ljust(32, b"\0"),
                              b["start"], b["end"], 0, 0, True) for i, b in enumerate(lay["blobs"])]
    msig = sorted({b["mode"] + "/" + b["size"] for b in lay["blobs"]})
    if not seen and table is not None:
        ctx.ok(["iee", "cli" if cli else "cfg", "blobs", fam, len(ctxs), msig], n=len(ctxs))
    for a, data in datas:
        n0 = len(seen)
        off = a - kb_addr
        stored = whole[off:off + len(_pad16(data))]
        if len(stored) < len(data):
            _emit_once(ctx, seen, "iee-whole-image-too-short", dict(detail, blob=hex(a), whole_len=len(whole)))
            continue
        ok = _iee_judge_image(ctx, seen, ctxs, a, data, stored, "IeeNxp.binary_image", dict(detail, blob=hex(a)))
        if ok and len(seen) == n0:
            act = [(c.start, c.end) for c in ctxs if c.mode in (hw.IEE_MODE_XTS, hw.IEE_MODE_CTR_ADDR)]
            ctx.ok(["iee", "cli" if cli else "cfg", fam, _len_sig(len(data), IEE_UNIT), _cov_sig(act, a, len(data)), msig, len(datas)],
                   sample={"family": fam, "keyblob_address": hex(kb_addr), "blob": hex(a), "len": len(data), "readback_equals_plaintext": True})


def _run_bee_cfg(ctx, case, cli):
    from spsdk.exceptions import SPSDKError
    from spsdk.image.bee import BeeNxp
    from spsdk.utils.schema_validator import check_config

    rng = ctx.rng
    lay = _bee_layout(rng, ctx.tier, small=True)
    base, length = lay["base"], lay["len"]
    image = _gen_image(rng, length)
    d = _wdir(ctx, "bee")
    _write(os.path.join(d, "input.bin"), image)
    hdr_objs = _bee_headers(lay)
    entries, binary = {}, {}
    for idx, e in enumerate(lay["engines"]):
        if e is None:
            continue
        uk = "0x" + e["user_key"]   # the schema wants a number: a bare hex string is refused
        if rng.random() < 0.3:   # an existing header in binary form (made by the low-level classes)
            _write(os.path.join(d, f"hdr{idx}.bin"), hdr_objs[idx].export())
            entries[idx] = {"bee_binary_cfg": {"header_path": f"hdr{idx}.bin", "user_key": uk}}
            binary[idx] = True
        else:
            entries[idx] = {"bee_cfg": {"user_key": uk, "protected_region": [
                {"start_address": _num(rng, s), "length": _num(rng, ln), "protected_level": lvl} for s, ln, lvl in e["facs"]]}}
    sel = lay["sel"]
    if sel == "both":
        engine_list = [entries[0], entries[1]]
    elif sel == "engine0":
        engine_list = [entries[0]]
    elif rng.random() < 0.5:
        engine_list = [entries[1]]                       # engine1 with a single entry: the entry is used for engine 1
    else:
        engine_list = [{"bee_cfg": {"user_key": "0x" + bytes(16).hex(), "protected_region": [
            {"start_address": "0x0", "length": "0x400", "protected_level": 0}]}}, entries[1]]   # first entry unused
    cfg = {"output_folder": os.path.join(d, "out"), "input_binary": "input.bin", "engine_selection": sel,
           "engine_key_selection": core.pick(rng, ["random", "zero"]), "base_address": _num(rng, base), "bee_engine": engine_list}
    detail = {"base": hex(base), "len": length, "engine_selection": sel, "path": "cli" if cli else "config",
              "facs": [[i, hex(s), hex(s + ln)] for i, e in enumerate(lay["engines"]) if e for s, ln, _ in e["facs"]]}
    seen: set = set()
    try:
        if cli:
            _write(os.path.join(d, "cfg.json"), json.dumps(cfg, indent=1), "w")
            err = _cli(ctx, ["bee", "export", "-c", os.path.join(d, "cfg.json")])
            if err is not None:
                raise err
            with open(os.path.join(d, "out", "encrypted.bin"), "rb") as f:
                enc = f.read()
            raws = []
            for idx in (0, 1):
                pth = os.path.join(d, "out", f"bee_ehdr{idx}.bin")
                raws.append(open(pth, "rb").read() if os.path.exists(pth) else None)   # noqa: SIM115
        else:
            check_config(cfg, BeeNxp.get_validation_schemas(), search_paths=[d])
            bee = BeeNxp.load_from_config(cfg, search_paths=[d])
            enc = bee.export_image()
            raws = bee.export_headers()
            again = bee.export_image()   # same object, second call
            n16 = length // 16 * 16      # the last partial block is padded with random bytes
            if again[:n16] != enc[:n16]:
                ctx.violation("bee-export-image-second-call-on-same-object-differs", dict(detail, path="load_from_config"))
    except SPSDKError as e:
        if "Invalid range of region" in str(e):
            ctx.violation("bee-unaligned-base-refused-block-straddles-fac-end" if base % BEE_UNIT else "bee-export-image-refuses-valid-layout",
                          dict(detail, refusal=str(e)[:200]))
        else:
            # every generated layout is a valid one (disjoint FAC regions inside the image's address window): a refusal
            # means the configuration was not taken as written
            ctx.violation("bee-valid-configuration-refused", dict(detail, refusal=str(e)[:300], single_entry=len(engine_list) == 1))
        return
    ctx.count("config_path")
    ctxs = []
    for idx, e in enumerate(lay["engines"]):
        if (e is None) != (raws[idx] is None):
            _emit_once(ctx, seen, "bee-export-headers-slot", dict(detail, engine=idx))
            continue
        if e is None:
            continue
        try:
            ctxs.append(hw.bee_unwrap_header(raws[idx], bytes.fromhex(e["user_key"]), idx))
        except hw.Reject as ex:
            ctx.violation("bee-header-does-not-unwrap", dict(detail, engine=idx, why=str(ex), header=raws[idx]))
            return
    # generated headers draw their own counter, lock word and KIB; headers given in binary form keep the configured ones
    eng_view = [None if e is None else dict(e, counter=e["counter"] if binary.get(i) else None, lock=e["lock"] if binary.get(i) else None)
                for i, e in enumerate(lay["engines"])]
    _bee_check_contexts(ctx, seen, ctxs, eng_view, "BeeNxp.export_headers", check_kib=False)
    if not seen:
        ctx.ok(["bee", "cli" if cli else "cfg", "headers", sel, sorted(binary)], n=len(ctxs))
    n0 = len(seen)
    ok = _bee_judge_image(ctx, seen, ctxs, base, image, enc, "BeeNxp.export_image", detail)
    if ok and len(seen) == n0:
        ctx.ok(["bee", "cli" if cli else "cfg", _len_sig(length, BEE_UNIT), "aligned" if base % BEE_UNIT == 0 else "unaligned", sel,
                _cov_sig([(s, e) for c in ctxs for s, e, _ in c.facs], base, length), sorted(binary)],
               sample={"base": hex(base), "len": length, "engine_selection": sel, "readback_equals_plaintext": True})


def extra_coverage(events, counters):
    """Distinct non-trivial signatures per (engine, path) and violations per mechanism (measured, for the evidence file)."""
    per: dict = {}
    mech: dict = {}
    for ev in events:
        if ev.get("t") == "ok" and "sig" in ev:
            try:
                sig = json.loads(ev["sig"])
                key = f"{sig[0]}/{sig[1]}"
            except (ValueError, IndexError, TypeError):
                continue
            per[key] = per.get(key, 0) + 1
        elif ev.get("t") == "viol":
            mech[ev["mech"]] = mech.get(ev["mech"], 0) + 1
    return {"distinct_signatures_per_engine_and_path": per, "violations_per_mechanism": mech}
